"""C10 — the paste shortcut is pixel-identical to a nearest-neighbour warp."""
from __future__ import annotations

import math
from fractions import Fraction

import numpy as np
from affine import Affine

from . import c03
from .c03 import CRS0, aff_s, faff, finv, fmul, gen_M_exact, gen_M_patched, gen_src_affine, is_sq, ns, roi_s
from .common import Run, bool_s, frac_s, guarded

META = {
    "claimed": True,
    "text": "Lean 4 theorems about the hand model of paste planning (odc.geo.overlap/_can_paste, snap_affine, "
    "snap_scale, maybe_int, is_almost_int, compute_axis_overlap, paste branch of compute_reproject_roi): for a "
    "snapped transform (unit scale of either sign, whole-pixel shift) the planned regions have equal shapes, "
    "contain exactly the destination pixels that map into the source, and the pasted image (block copied, reversed "
    "on mirrored axes, rest nodata) equals the nearest-neighbour warp of the whole source under any true transform "
    "within half a pixel of the snapped one, for every pixel type; read-shrink k>1 regions are k times the overview "
    "regions of equal shape; _can_paste accepts only scale+translation maps within the tolerances and rejects "
    "rotation/shear, fractional scales and larger sub-pixel shifts.  The public warp entry points are modelled too "
    "(Model/C10Nd): rio_reproject's NaN default for float destinations, its loop over the planes of an N-d array (ydim, "
    "default last two axes; proved: every source plane is warped exactly once into the ORIGINAL content of the same "
    "destination plane, surplus planes untouched), warp_affine / warp_affine_rio (transform = A, no NaN default), and the "
    "documented calling convention (Model/C10Sig: parameter order and exact default tolerances, tied to the model's "
    "defaults), resampling_s2rio / is_resampling_nn and the argument preparation of _rio_reproject (Model/C10Rs: resampling "
    "as string / enum / int, XSCALE/YSCALE work-around, GeoBox vs GCPGeoBox source, nodata stretching, working dtypes; "
    "exhaustive over the backend's Resampling enum, backend call recorded through the public rasterio.warp.reproject), and "
    "the paste contract for every read-shrink k > 1 END TO END from the two GeoBoxes through C02's zoom_out "
    "(Props/C10C02).  The copies of the math.py helpers in C20 / C09 / C02 are proved equal to the planning model's "
    "(Props/C10Link).  Model tied to /repo by exact differential correspondence; the reference nearest-neighbour "
    "semantics (Spec/Warp) and the real plans are compared pixel-for-pixel with GDAL (rio_reproject nearest) for "
    "u1,i1,i2,u2,i4,f4,f8,bool on every run, through keyword AND positional calling conventions, with destination / "
    "source rasters in the memory layouts callers use (own array, window of a mosaic, Fortran, strided, reversed, "
    "read-only, (y,x,band) stacks via ydim=0), and for grids that share a rotation / shear.",
    "note": "Trusted: Lean kernel + {propext, Classical.choice, Quot.sound}; GDAL's nearest-neighbour rule = Spec/Warp "
    "(validated each run, not proved); IEEE rounding not modelled.  paste = warp needs the half-pixel closeness "
    "hypothesis: a scale residue within stol drifts beyond it on images wider than ~500 px (known finding "
    "paste-scale-drift-differs-from-warp, proved as paste_drift_warp_cex).  A difference between inspect.signature and "
    "the documented convention is never a finding by itself (only public functions are looked at, added optional "
    "parameters are accepted); it only makes the behavioural probing denser.  Direct streams on private helpers "
    "(_can_paste) are skipped and counted when the helper is renamed / re-parameterised.",
    "technique": "Lean 4 proof over hand model + differential correspondence with real code + GDAL pixel oracle",
    "unmodelled": "warp.py: the numerics of GCP sources and of every resampling other than nearest (only the dispatch to the "
    "backend is modelled); non-ASCII resampling names (str.lower is modelled for ASCII); GDAL's nudging of valid pixels equal to the destination nodata (known "
    "finding, kept out of the value model); memory layout of the rasters (exercised by the oracles, not a model "
    "parameter).  math.py / overlap.py planning code is modelled in Model/C03 + Model/C03Top (see C03 META).",
    "design_ref": "DESIGN.md §4 C10",
}
META["note"] += "  NOT MODELLED: " + META["unmodelled"]

DTYPES = ["uint8", "int8", "int16", "uint16", "int32", "float32", "float64", "bool"]
NODATA = {"uint8": 255, "int8": -128, "int16": -999, "uint16": 65535, "int32": -999, "float32": float("nan"),
          "float64": float("nan"), "bool": 0}


def _import():
    from odc.geo import math as M
    from odc.geo import overlap as O
    from odc.geo.geobox import GeoBox
    from odc.geo.types import wh_
    from odc.geo.warp import rio_reproject

    return O, M, GeoBox, wh_, rio_reproject


def img_s(a) -> str:
    return "|".join(",".join(str(int(v)) for v in row) for row in a)


def make_src(rng, shape, dtype):
    ny, nx = shape
    n = ny * nx
    if dtype == "bool":
        vals = [rng.random() < 0.5 for _ in range(n)]
        return np.array(vals, dtype="bool").reshape(shape)
    if dtype.startswith("float"):
        return np.array([rng.randint(-500, 500) + 0.5 for _ in range(n)], dtype=dtype).reshape(shape)
    lo, hi = {"uint8": (0, 254), "int8": (-127, 127), "int16": (-998, 3000), "uint16": (0, 65000),
              "int32": (-998, 10**6)}[dtype]
    return np.array([rng.randint(lo, hi) for _ in range(n)], dtype=dtype).reshape(shape)


DT_RANGE = {"uint8": (0, 255), "int8": (-128, 127), "int16": (-32768, 32767), "uint16": (0, 65535),
            "int32": (-2**31, 2**31 - 1)}


def nodata_config(rng, dt):
    """(src_nodata, dst_nodata): none, dst only, src only, both equal, both different, NaN variants"""
    if dt == "bool":
        return rng.choice([(None, None), (None, False), (None, True)])
    if dt.startswith("float"):
        return rng.choice([(None, None), (None, -9999.0), (None, float("nan")), (-9999.0, None), (7.5, 7.5), (7.5, -9999.0),
                           (float("nan"), float("nan")), (float("nan"), -9999.0), (-9999.0, float("nan")), (None, 0.0)])
    lo, hi = DT_RANGE[dt]
    v, w = rng.choice([lo, hi, 0, 7]), rng.choice([lo, hi, 0, 5, 1])
    return rng.choice([(None, None), (None, w), (v, None), (v, v), (v, w if w != v else (5 if v != 5 else 9))])


def content_src(rng, shape, dt, sn, dn):
    """raster content with the awkward values sprinkled in: NaN / ±inf / dtype min,max / values equal to either nodata"""
    src = make_src(rng, shape, dt)
    if dt == "bool":
        return src
    specials = []
    if dt.startswith("float"):
        specials = [float("nan"), float("inf"), float("-inf"), 0.0, -0.0, 3.0e38 if dt == "float32" else 1.0e308, -9999.0, 7.5]
    else:
        lo, hi = DT_RANGE[dt]
        specials = [lo, hi, 0, lo + 1, hi - 1]
        if dt == "int32" and sn is not None:
            # GDAL compares int32 pixels with src_nodata in single precision: neighbours of an extreme nodata value are
            # masked too (backend behaviour, outside odc-geo) - keep such neighbours out of the content
            specials = [lo, hi, 0]
    for v in (sn, dn):
        if v is not None:
            specials.append(v)
    pick = [v for v in specials if rng.random() < 0.5]
    flat = src.reshape(-1)
    for v in pick:
        for _ in range(max(1, flat.size // 12)):
            flat[rng.randrange(flat.size)] = v
    return src


def eff_dst_nodata(dt, sn, dn):
    """value GDAL fills with: dst_nodata, else (wrapper default) NaN for floats, else src_nodata, else 0"""
    if dn is not None:
        return dn
    if dt.startswith("float"):
        return float("nan")
    if sn is not None:
        return sn
    return False if dt == "bool" else 0


def same_val(arr, v):
    if isinstance(v, float) and v != v:
        return np.isnan(arr)
    return arr == v


def ref_paste(src, dshape, r, A, sn, dn):
    """reference for warp(src, src_nodata, dst_nodata): block copy (mirrored), source nodata pixels become destination
    nodata, everything outside the block is destination nodata"""
    dt = src.dtype.name
    w = eff_dst_nodata(dt, sn, dn)
    out = np.full(dshape, w, dtype=src.dtype)
    blk = src[r.roi_src].copy()
    if sn is not None:
        blk[same_val(blk, sn)] = w
    if A.e < 0:
        blk = blk[::-1, :]
    if A.a < 0:
        blk = blk[:, ::-1]
    out[r.roi_dst] = blk
    return out, w


def ref_paste_into(cur, src, r, A, sn, dn, init, collide=None):
    """reference for one warp INTO an existing destination `cur` (2-D): with init_dest_nodata the destination is first
    filled with the effective nodata; then the block is copied (mirrored), source-nodata pixels leave the destination
    as it is"""
    dt = src.dtype.name
    w = eff_dst_nodata(dt, sn, dn)
    out = np.full(cur.shape, w, dtype=cur.dtype) if init else cur.copy()
    blk = src[r.roi_src]
    if A.e < 0:
        blk = blk[::-1, :]
    if A.a < 0:
        blk = blk[:, ::-1]
    valid = np.ones(blk.shape, dtype=bool) if sn is None else ~same_val(blk, sn)
    tgt = out[r.roi_dst]
    tgt[valid] = blk[valid]
    # pixels that now hold a VALID source value equal to the destination nodata (GDAL nudges those)
    collide = np.zeros(cur.shape, dtype=bool) if (init or collide is None) else collide.copy()
    ctg = collide[r.roi_dst]
    ctg[valid] = same_val(blk, w)[valid]
    return out, collide


def do_paste(src, dshape, r, A, nodata):
    """what a consumer of ReprojectInfo does when paste_ok and read_shrink == 1"""
    out = np.full(dshape, nodata, dtype=src.dtype)
    blk = src[r.roi_src]
    if A.e < 0:
        blk = blk[::-1, :]
    if A.a < 0:
        blk = blk[:, ::-1]
    out[r.roi_dst] = blk
    return out


DST_LAYOUTS = ["own", "own", "window", "window", "fortran", "strided", "reversed"]
SRC_LAYOUTS = ["own", "own", "own", "view", "fortran", "readonly", "reversed"]


def dst_alloc(rng, content, lay=None):
    """A destination raster holding `content` in one of the memory layouts callers use: an array of its own, a window of a
    bigger mosaic, Fortran order, a strided / reversed view.  Returns (array to warp into, backing array, guard mask of the
    backing cells that do not belong to the destination, layout name)."""
    lay = rng.choice(DST_LAYOUTS) if lay is None else lay
    ny, nx = content.shape
    if lay == "window":
        y0, x0 = rng.randint(0, 3), rng.randint(0, 3)
        back = np.empty((ny + y0 + rng.randint(0, 3), nx + x0 + rng.randint(1, 3)), dtype=content.dtype)
        back[...] = content.flat[0] if content.size else 0
        view = back[y0:y0 + ny, x0:x0 + nx]
    elif lay == "fortran":
        back = np.asfortranarray(np.empty((ny, nx), dtype=content.dtype))
        view = back
    elif lay == "strided":
        back = np.empty((2 * ny + 1, 3 * nx + 1), dtype=content.dtype)
        back[...] = content.flat[0] if content.size else 0
        view = back[1::2, 1::3][:ny, :nx]
    elif lay == "reversed":
        back = np.empty((ny, nx), dtype=content.dtype)
        view = back[::-1, ::-1]
    else:
        back = np.empty((ny, nx), dtype=content.dtype)
        view = back
    view[...] = content
    guard = np.ones(back.shape, dtype=bool)
    gv = {"window": lambda: guard[y0:y0 + ny, x0:x0 + nx], "strided": lambda: guard[1::2, 1::3][:ny, :nx]}.get(lay, lambda: guard)()
    gv[...] = False
    return view, back, guard, lay


def src_layout(rng, arr, lay=None):
    lay = rng.choice(SRC_LAYOUTS) if lay is None else lay
    if lay == "view":
        big = np.zeros((2 * arr.shape[0], 2 * arr.shape[1]), dtype=arr.dtype)
        big[::2, 1::2] = arr
        return big[::2, 1::2], lay
    if lay == "fortran":
        return np.asfortranarray(arr), lay
    if lay == "readonly":
        a = arr.copy()
        a.flags.writeable = False
        return a, lay
    if lay == "reversed":
        return arr[::-1, ::-1].copy()[::-1, ::-1], lay
    return arr, lay


def warp_nearest(rio_reproject, rng, src, dst_content, s_g, d_g, sn, dn, lay=None, slay=None, **kw):
    """rio_reproject(nearest) of `src` INTO a destination holding `dst_content`, through a random memory layout of both
    rasters and a random calling convention for the nodata arguments.  Returns (result image, problem or None, tag)."""
    view, back, guard, lay = dst_alloc(rng, dst_content, lay)
    before = back.copy()
    src_v, slay = src_layout(rng, src, slay)
    if rng.random() < 0.3 and not kw:
        out = rio_reproject(src_v, view, s_g, d_g, "nearest", sn, dn)  # documented positional order
    else:
        out = rio_reproject(src_v, view, s_g, d_g, "nearest", src_nodata=sn, dst_nodata=dn, **kw)
    problem = None
    if out is not view:
        problem = "rio_reproject did not return the destination array it was given"
    elif guard.any() and not _same(back[guard], before[guard]):
        problem = f"cells of the backing array outside the destination window were modified ({lay} layout)"
    elif not _same(np.asarray(src_v), np.asarray(src)):
        problem = "the source raster was modified"
    return np.array(view), problem, f"{lay}/{slay}"


def _same(a, b):
    if a.dtype.kind == "f":
        return bool(((a == b) | (np.isnan(a) & np.isnan(b))).all())
    return bool((a == b).all())


def shared_rotation_pair(rng, sshape, dshape):
    """source grid rotated / sheared by an arbitrary angle and a destination that is a shifted (optionally mirrored) window
    of the same rotated grid: dst→src pixel transform = whole-pixel shift + small residue, with rounding dust in the
    off-diagonal terms"""
    res = rng.choice([10, 30, 0.25, 0.00025, 1000.0, 7.3])
    ang = rng.choice([30, 45, -60, 10.5, 123.4, 90, 180, 0.3, -0.001, 270.5])
    base = Affine.translation(rng.uniform(-1e5, 1e5), rng.uniform(-1e5, 1e5)) * Affine.rotation(ang) * Affine.scale(res, -res)
    if rng.random() < 0.2:
        base = base * Affine(1, rng.choice([0.25, -0.5, 0.1]), 0, 0, 1, 0)
    resd = rng.choice([0, 0, 0.02, -0.03, 0.04, -0.045, 0.2, 0.4])
    sg = (rng.choice([1, 1, 1, -1]), rng.choice([1, 1, 1, -1]))
    tx, ty = rng.randint(-dshape[1] + 1, sshape[1] - 1), rng.randint(-dshape[0] + 1, sshape[0] - 1)
    Mx = Affine.translation(tx + resd + (dshape[1] if sg[0] < 0 else 0), ty - resd / 2 + (dshape[0] if sg[1] < 0 else 0)) * Affine.scale(*sg)
    return base, Mx, "shared-rotation"


def drift_of(A6, rs, dshape):
    a, _, c, _, e, f = A6
    da, de = abs(abs(a) / rs - 1), abs(abs(e) / rs - 1)
    fr = lambda v: abs(v / rs - round(v / rs))  # noqa: E731
    return max(da * dshape[1] + fr(c), de * dshape[0] + fr(f)), (da != 0 or de != 0)


def run(R: Run):
    O, M, GeoBox, wh_, rio_reproject = _import()
    rng = R.rng

    def gb(shape, A, crs=CRS0):
        return GeoBox(wh_(shape[1], shape[0]), A, crs)

    # ================================================================ exact stream: numeric helpers
    tols = [2**-6, 2**-5, 1e-3, 0.25, 0.5, 0.75, 2**-10, 0.0, 2.0**-40, 0.5 + 2.0**-30, 0.625, 0.9, 1.0, 1.5, 3.0, 2.0**20, -0.25]
    K = R.pick(160, 320)
    for k in range(-K, K + 1):
        x = k / 64
        R.corr(f"c10 split {frac_s(x)}", lambda: " ".join(frac_s(v) for v in M.split_float(x)), sig="split")
        for tol in tols:
            R.corr(f"c10 almostint {frac_s(x)} {frac_s(tol)}", lambda: bool_s(M.is_almost_int(x, tol)), sig="almostint")
            R.corr(f"c10 maybeint {frac_s(x)} {frac_s(tol)}", lambda: frac_s(M.maybe_int(x, tol)), sig="maybeint")
            # consistency claim used by the proofs: almost-int ⇔ snapped to a whole number within tol
            ai, mi = M.is_almost_int(x, tol), M.maybe_int(x, tol)
            R.oracle(ai == (float(mi).is_integer() and (abs(mi - x) < tol)) or float(x).is_integer(), "almostint-vs-maybeint",
                     {"x": x, "tol": tol}, f"is_almost_int={ai} maybe_int={mi}", sig="helpers", trivial=True)
    for _ in range(R.pick(3000, 30000)):
        k = rng.randint(-6, 6) + rng.choice([0, 0, 0.5])
        tol = rng.choice([2**-6, 1e-3, 2**-10, 0.25])
        x = k + rng.choice([1, -1]) * (rng.choice([0, tol]) + rng.choice([1, -1]) * 2.0**-rng.choice([20, 30, 34, 40, 44]))
        R.corr(f"c10 almostint {frac_s(x)} {frac_s(tol)}", lambda: bool_s(M.is_almost_int(x, tol)), sig="almostint|edge")
        R.corr(f"c10 maybeint {frac_s(x)} {frac_s(tol)}", lambda: frac_s(M.maybe_int(x, tol)), sig="maybeint|edge")
        R.corr(f"c10 split {frac_s(x)}", lambda: " ".join(frac_s(v) for v in M.split_float(x)), sig="split|edge")
    for x in (2.0**31 + 0.5, -(2.0**31) - 0.25, 2.0**40 + 0.125, 2.0**52 + 0.5, 2.0**53, -(2.0**63), 2.0**64, 2.0**100, 5e-324, 1e308):
        for tol in (1e-3, 0.25):
            R.corr(f"c10 almostint {frac_s(x)} {frac_s(tol)}", lambda: bool_s(M.is_almost_int(x, tol)), sig="almostint|huge")
            R.corr(f"c10 maybeint {frac_s(x)} {frac_s(tol)}", lambda: frac_s(M.maybe_int(x, tol)), sig="maybeint|huge")
    for _ in range(R.pick(3000, 30000)):
        base = rng.choice([1, 1, -1, 2, 3, -2, 0.5, 0.25, -0.5, 0.125, 1 / 64, 0])
        x = base + rng.choice([0, 0, 1, -1]) * 2.0**-rng.randint(5, 14)
        tol = rng.choice([1e-6, 1e-3, 2**-10, 2**-7, 2**-5])
        if x != 0 and abs(x) < 1 and not float(1 / x).is_integer() and Fraction(x).denominator & (Fraction(x).denominator - 1) == 0 \
                and Fraction(x).numerator not in (1, -1):
            # 1/x must be exact for the exact stream
            continue
        R.corr(f"c10 snapscale {frac_s(x)} {frac_s(tol)}", lambda: frac_s(M.snap_scale(x, tol)), sig="snapscale")

    # --- scale-band edges: target·(1 ± t) ± {t²/2, t·2^-10}, and the band edge of the inverse scale, both signs
    for _ in range(R.pick(1500, 15000)):
        t = rng.choice([2.0**-10, 2.0**-10, 2.0**-7, 2.0**-5, 2.0**-14])
        kk = rng.choice([1, 1, 1, 2, 4, 8])
        d, cls = c03.band_dev(rng, t, exact=True)
        sgn = rng.choice([1, -1])
        x = sgn * kk * (1 + d)
        R.corr(f"c10 snapscale {frac_s(x)} {frac_s(t)}", lambda: frac_s(M.snap_scale(x, t)), sig="snapscale|band-" + cls)
        tt = rng.choice([2.0**-4, 0.05, 0.25])
        A_ = Affine(x, 0, kk * (rng.randint(-20, 20) + rng.choice([0, tt / 2, -tt * (1 - 2.0**-4)])), 0,
                    rng.choice([x, -x, sgn * kk]), kk * rng.randint(-20, 20))
        R.corr(f"c10 snap {aff_s(A_)} {frac_s(tt)} {frac_s(t)}", lambda: aff_s(M.snap_affine(A_, ttol=tt, stol=t)),
               sig="snap|band-" + cls)
        c03.corr_private(R, f"c10 canpaste {aff_s(A_)} {frac_s(t)} {frac_s(tt)}",
                         lambda: bool_s(c03.call_private(O, "_can_paste", A_, stol=t, ttol=tt)[0]), sig="canpaste|band-" + cls)

    # ================================================================ exact stream: _can_paste, snap_affine, is_affine_st
    def rnd_aff():
        kind = rng.choice(["st", "st", "st", "near", "near", "int", "frac", "rot", "tiny-rot", "mirror"])
        sgn = (rng.choice([1, 1, -1]), rng.choice([1, 1, -1]))
        res = rng.choice([0, 0, 2**-6, -(2**-6), 2**-5, -(2**-5), 2**-4, 0.25, -0.25, 0.5, 3 * 2**-6,
                          2**-5 + 2.0**-40, 2**-5 - 2.0**-40, -(2**-4) + 2.0**-38, 2.0**-34, -(2.0**-40), 0.5 - 2.0**-30])
        tx, ty = rng.randint(-50, 50) + res, rng.randint(-50, 50) + (res if rng.random() < 0.5 else 0)
        b = d = 0
        if kind in ("st", "mirror"):
            sx = sy = 1
        elif kind == "near":
            k = rng.choice([1, 1, 2, 3])
            sx, sy = (k + rng.choice([1, -1]) * (2.0**-rng.choice([7, 8, 9, 10, 11, 12, 14]) + rng.choice([0, 0, 2.0**-40, -(2.0**-40)]))
                      for _ in range(2))
            tx, ty = k * tx, k * ty
        elif kind == "int":
            k = rng.choice([2, 3, 4, 5, 8])
            sx, sy = k, (k if rng.random() < 0.8 else k + 1)
            tx, ty = k * tx, k * ty
        elif kind == "frac":
            sx = sy = rng.choice([0.5, 1.5, 0.75, 2.5, 0.25])
        elif kind == "rot":
            sx = sy = 1
            b, d = rng.choice([(2**-20, 0), (0, 2**-30), (0.5, 0), (2**-33, 2**-33), (-1, 1)])
        else:
            sx = sy = 1
            b, d = 2.0**-34, 0  # below the 1e-10 rotation tolerance; root of a²+d² stays rational (d = 0)
        return Affine(sx * sgn[0], b, tx, d, sy * sgn[1], ty), kind

    for _ in range(R.pick(4000, 40000)):
        A, kind = rnd_aff()
        ttol = rng.choice([0.05, 0.05, 2**-5, 2**-4, 0.26, 0.5] + c03.TTOL_EXACT)
        stol = rng.choice([1e-3, 1e-3, 2**-10, 2**-11, 2**-9, 1e-2, 1e-2, 2**-7, 1e-4, 1e-6, 0.0, 0.125, 0.3, 0.5, 0.75])
        R.corr(f"c10 isst {aff_s(A)}", lambda: bool_s(M.is_affine_st(A)), sig="isst|" + kind)
        exact_snap = all(abs(v) >= 1 - stol or Fraction(v).numerator in (1, -1) or abs(v) < stol for v in (A.a, A.e))
        if exact_snap:
            R.corr(f"c10 snap {aff_s(A)} {frac_s(ttol)} {frac_s(stol)}", lambda: aff_s(M.snap_affine(A, ttol=ttol, stol=stol)),
                   sig="snap|" + kind)
        res = []

        def fcp():
            ok, why = c03.call_private(O, "_can_paste", A, stol=stol, ttol=ttol)
            res.append((ok, why))
            if not is_sq(Fraction(A.a) ** 2 + Fraction(A.d) ** 2):
                return "irr"
            return bool_s(ok)

        # the overview transform divides by read_scale: exact for powers of two, rounding-insensitive otherwise
        c03.corr_private(R, f"c10 canpaste {aff_s(A)} {frac_s(stol)} {frac_s(ttol)}", fcp, sig="canpaste|" + kind)
        if res:
            ok = res[0][0]
            a, b, c, d, e, f = faff(A)
            stq, ttq = Fraction(stol), Fraction(ttol)
            rot = abs(b) >= Fraction(1e-10) or abs(d) >= Fraction(1e-10)
            case = {"fn": "_can_paste", "A": list(A)[:6], "stol": stol, "ttol": ttol}
            if rot:
                R.oracle(not ok, "can-paste-accepts-rotation", case, f"rotation/shear {b},{d} accepted", sig="canpaste-rejects")
            elif b == 0 and d == 0 and stq < Fraction(1, 4):  # for larger stol "the" integer scale is ambiguous
                sc = min(abs(a), abs(e))
                k = max(1, round(sc))
                fr = lambda v: abs(v - round(v))  # noqa: E731
                good = (abs(abs(a) / k - 1) < stq and abs(abs(e) / k - 1) < stq and fr(c / k) < ttq and fr(f / k) < ttq)
                bad = (abs(abs(a) / k - 1) > stq or abs(abs(e) / k - 1) > stq or (fr(c / k) > ttq and ttq <= Fraction(1, 2))
                       or (fr(f / k) > ttq and ttq <= Fraction(1, 2)) or fr(sc) > stq)
                if ok:
                    R.oracle(good, "can-paste-unsound", case,
                             f"paste accepted for scale ({a},{e}) shift ({c},{f}) outside tolerances", sig="canpaste-sound")
                if bad:
                    R.oracle(not ok, "can-paste-accepts-bad", case,
                             f"paste accepted for scale ({a},{e}) shift ({c},{f}) beyond tolerances", sig="canpaste-rejects")

    # ================================================================ Spec/Warp vs GDAL (reference semantics validation)
    for _ in range(R.pick(150, 1200)):
        sshape = (rng.randint(1, 9), rng.randint(1, 9))
        dshape = (rng.randint(1, 9), rng.randint(1, 9))
        kind = rng.choice(["st", "st", "mirror", "scale", "rot90", "shear"])
        off = lambda: rng.randint(-8, 12) + rng.choice([0.25, 0.75, 0.375, 0.125])  # noqa: E731
        if kind == "st":
            A = Affine(1, 0, off(), 0, 1, off())
        elif kind == "mirror":
            A = Affine(rng.choice([1, -1]), 0, off(), 0, rng.choice([1, -1]), off())
        elif kind == "scale":
            A = Affine(rng.choice([2, 0.5, -2, 4]), 0, off() + 2**-6, 0, rng.choice([2, 0.5, -0.5]), off() + 2**-6)
        elif kind == "rot90":
            A = Affine(0, -1, off(), 1, 0, off())
        else:
            A = Affine(1, 0.5, off() + 2**-5, 0, 1, off())
        # keep every sampled coordinate away from pixel edges (GDAL uses floor(x + 1e-10))
        xx, yy = c03.centres(dshape)
        px, py = c03.apply_np(faff(A), xx, yy)
        if (np.abs(px - np.round(px)) < 1e-3).any() or (np.abs(py - np.round(py)) < 1e-3).any():
            continue
        src = make_src(rng, sshape, "int16")
        nodata = -999
        s_g, d_g = gb(sshape, Affine.identity()), gb(dshape, A)

        def fw():
            w, prob, _ = warp_nearest(rio_reproject, rng, src, np.full(dshape, nodata, dtype="int16"), s_g, d_g, None, nodata)
            return img_s(w) if prob is None else prob

        R.corr(f"c10 nnwarp {sshape[0]} {sshape[1]} {dshape[0]} {dshape[1]} {aff_s(A)} {nodata} {img_s(src)}", fw,
               sig="spec-nnwarp|" + kind)

    # --- corpus: the two sides of `paste_tie_cex` (ttol = 0.9, true shift exactly half a pixel) on the real backend
    tie_src = np.array([[10, 11, 12, 13]], dtype="int16")
    tie_s, tie_d = gb((1, 4), Affine.identity()), gb((1, 4), Affine.translation(0.5, 0))
    R.corr("c10 nnwarp 1 4 1 4 1;0;1/2;0;1;0 -1 10,11,12,13",
           lambda: img_s(rio_reproject(tie_src, np.full((1, 4), -1, dtype="int16"), tie_s, tie_d, "nearest", dst_nodata=-1)),
           sig="spec-nnwarp|tie")

    def ftie():
        r_ = O.compute_reproject_roi(tie_s, tie_d, ttol=0.9)
        assert r_.paste_ok and r_.read_shrink == 1
        return img_s(do_paste(tie_src, (1, 4), r_, r_.transform.back.linear, -1))

    R.corr("c10 paste 1 4 F F 0:1 0:4 0:1 0:4 -1 10,11,12,13", ftie, sig="paste-op|tie")

    # ================================================================ _rio_reproject detour, value level (model: C10.rioNN)
    for i in range(R.pick(240, 2400)):
        t = ["i8", "b", "o"][i % 3]
        dt = {"i8": "int8", "b": "bool", "o": "int16"}[t]
        sshape, dshape = (rng.randint(1, 7), rng.randint(1, 7)), (rng.randint(1, 7), rng.randint(1, 7))
        off = lambda: rng.randint(-6, 8) + rng.choice([0.25, 0.75, 0.375])  # noqa: E731
        A = Affine(rng.choice([1, 1, -1, 2, 0.5]), 0, off(), 0, rng.choice([1, 1, -1, 2]), off())
        xx, yy = c03.centres(dshape)
        px, py = c03.apply_np(faff(A), xx, yy)
        if (np.abs(px - np.round(px)) < 1e-3).any() or (np.abs(py - np.round(py)) < 1e-3).any():
            continue
        init = rng.choice([True, False, False])
        if t == "b":
            sn, dn = rng.choice([(None, None), (None, 0), (None, 1), (0, None), (1, 1), (0, 1), (1, 0)])
            vals = [0, 1]
        else:
            lo, hi = (-128, 127) if t == "i8" else (-3000, 3000)
            sn, dn = rng.choice([(None, None), (None, lo), (None, 5), (hi, None), (7, 7), (7, lo), (lo, hi), (0, None), (None, 0)])
            vals = [lo, hi, 0, 1, 5, 7, -1, 100, -100, lo + 1, hi - 1]
        fill = dn if dn is not None else (sn if sn is not None else 0)
        # valid source pixels never equal the fill value (GDAL would nudge them: known finding, separate key)
        ok_vals = [v for v in vals if v != fill or v == sn]
        if not ok_vals or (t == "b" and not [v for v in ok_vals if v != sn]):
            continue
        src = np.array([[rng.choice(ok_vals) for _ in range(sshape[1])] for _ in range(sshape[0])])
        pre = np.array([[rng.choice(vals) for _ in range(dshape[1])] for _ in range(dshape[0])])
        s_g, d_g = gb(sshape, Affine.identity()), gb(dshape, A)

        def fdet():
            conv = (lambda v: None if v is None else bool(v)) if t == "b" else (lambda v: v)
            d_, prob, _ = warp_nearest(rio_reproject, rng, src.astype(dt), pre.astype(dt), s_g, d_g, conv(sn), conv(dn),
                                       init_dest_nodata=init)
            return img_s(d_.astype("int64")) if prob is None else prob

        R.corr(f"c10 detour {t} {bool_s(init)} {c03.opt_s(sn)} {c03.opt_s(dn)} {sshape[0]} {sshape[1]} {dshape[0]} {dshape[1]} "
               f"{aff_s(A)} {img_s(src)} {img_s(pre)}", fdet, sig=f"detour|{t}|init{bool_s(init)}")

    # ================================================================ public calling convention (model: C10Sig)
    import inspect

    from odc.geo import roi as RO
    from odc.geo import warp as W

    def sig_s(fn):
        out = []
        for n_, p_ in inspect.signature(fn).parameters.items():
            if p_.kind == p_.VAR_KEYWORD:
                out.append("**" + n_)
            elif p_.kind == p_.VAR_POSITIONAL:
                out.append("*" + n_)
            elif p_.kind == p_.KEYWORD_ONLY:
                out.append("kw:" + n_)
            elif p_.default is p_.empty:
                out.append(n_)
            elif p_.default is None:
                out.append(n_ + "=None")
            elif isinstance(p_.default, (int, float)) and not isinstance(p_.default, bool):
                out.append(n_ + "=" + frac_s(p_.default))
            else:
                out.append(n_ + "=" + repr(p_.default))
        return " ".join(out)

    SIGS = {"overlap": (O, ["compute_reproject_roi", "box_overlap", "compute_axis_overlap", "get_scale_at_point",
                            "get_scale_from_linear_transform", "native_pix_transform"]),
            "math": (M, ["snap_affine", "snap_scale", "is_affine_st", "maybe_int", "is_almost_int", "split_float", "decompose_rws",
                         "affine_from_pts"]),
            "warp": (W, ["rio_reproject", "warp_affine", "warp_affine_rio"]),
            "roi": (RO, ["roi_from_points", "roi_boundary", "scaled_up_roi"])}
    # The documented calling convention (Model/C10Sig) against inspect.signature: PUBLIC entry points only, added
    # parameters with defaults are fine, and a difference is never a finding by itself - it is recorded and makes the
    # behavioural probing below (positional calls in the documented order, documented defaults) denser.
    from .common import run_driver

    names_ = [f"{m_}.{n_}" for m_, (_, ns_) in SIGS.items() for n_ in ns_]
    try:
        documented = dict(zip(names_, run_driver("C10", [f"c10 sig {n_}" for n_ in names_])))
    except Exception:  # pylint: disable=broad-except
        documented = {}
    sig_differs = set()
    for mod_name, (mod, fn_names) in SIGS.items():
        for nm in fn_names:
            fn_ = getattr(mod, nm, None)
            want = documented.get(f"{mod_name}.{nm}", "").split(" ")
            if fn_ is None or not want or want in (["unknown"], [""]):
                R.count("signature|not-compared")
                continue
            got = sig_s(fn_).split(" ")
            # compatible: the documented parameters come first, in order, with the documented defaults; anything the
            # real function has in addition must be optional (default, keyword-only, *args / **kwargs)
            core = [w for w in want if not w.startswith("**")]
            extra = got[len(core):]
            ok_ = got[:len(core)] == core and all(("=" in e) or e.startswith(("*", "kw:")) for e in extra)
            R.count("signature|" + ("as-documented" if ok_ else "differs"))
            if not ok_:
                sig_differs.add(nm)
                R.notes.append(f"signature of {mod_name}.{nm} differs from the documented one: {' '.join(got)} (documented "
                               f"{' '.join(want)}); probing its calling conventions behaviourally")
    # helpers with tolerance parameters through both conventions (keyword / positional in the documented order)
    for _ in range(R.pick(300, 3000) * (3 if sig_differs else 1)):
        A_, kind_ = rnd_aff()
        tt, st = rng.choice([0.05, 2**-4, 0.26]), rng.choice([1e-3, 2**-7, 2**-10])
        if all(abs(v) >= 1 - st or Fraction(v).numerator in (1, -1) or abs(v) < st for v in (A_.a, A_.e)):
            R.corr(f"c10 snap {aff_s(A_)} {frac_s(tt)} {frac_s(st)}", lambda: aff_s(M.snap_affine(A_, tt, st)), sig="snap|positional")
            R.corr(f"c10 snap {aff_s(A_)} {frac_s(1e-3)} {frac_s(1e-6)}", lambda: aff_s(M.snap_affine(A_)), sig="snap|defaults")

    # ================================================================ public 2-D entry points and the N-d plane loop (model: C10Nd)
    NAN = -(2**40)

    def enc(a):
        a = np.asarray(a)
        if a.dtype.kind == "f":
            return np.where(np.isnan(a), NAN, a).astype("int64")
        return a.astype("int64")

    def dec(v, isf):
        return None if v is None else (float("nan") if (isf and v == NAN) else v)

    def nd_case(ndim_extra):
        t = rng.choice(["o", "o", "i8", "b", "f"])
        isf = t == "f"
        dt = {"o": "int16", "i8": "int8", "b": "bool", "f": rng.choice(["float32", "float64"])}[t]
        if t == "b":
            sn, dn = rng.choice([(None, None), (None, 0), (None, 1), (0, None), (1, 1), (0, 1), (1, 0)])
            vals = [0, 1]
        elif isf:
            sn, dn = rng.choice([(None, None), (None, NAN), (NAN, None), (NAN, NAN), (7, None), (None, -5), (7, -5), (NAN, -5), (None, 0)])
            vals = [-5, 0, 1, 7, 100, NAN, 3]
        else:
            lo, hi = (-128, 127) if t == "i8" else (-3000, 3000)
            sn, dn = rng.choice([(None, None), (None, lo), (None, 5), (hi, None), (7, 7), (7, lo), (lo, hi), (0, None), (None, 0)])
            vals = [lo, hi, 0, 1, 5, 7, -1, 100, -100, lo + 1, hi - 1]
        fill = dn if dn is not None else (NAN if isf else (sn if sn is not None else 0))
        ok_vals = [v for v in vals if v != fill or v == sn]  # valid pixels never equal the fill value (GDAL nudges those)
        if not ok_vals or (t == "b" and not [v for v in ok_vals if v != sn]):
            return None
        sy, sx, dy_, dx_ = (rng.randint(1, 5) for _ in range(4))
        off = lambda: rng.randint(-4, 6) + rng.choice([0.25, 0.75, 0.375])  # noqa: E731
        A_ = Affine(rng.choice([1, 1, -1, 2, 0.5]), 0, off(), 0, rng.choice([1, 1, -1, 2]), off())
        xx, yy = c03.centres((dy_, dx_))
        px, py = c03.apply_np(faff(A_), xx, yy)
        if (np.abs(px - np.round(px)) < 1e-3).any() or (np.abs(py - np.round(py)) < 1e-3).any():
            return None
        return t, isf, dt, sn, dn, vals, ok_vals, (sy, sx), (dy_, dx_), A_

    def mk(shape, pool, dt, isf):
        a = np.array([rng.choice(pool) for _ in range(int(np.prod(shape)))], dtype="float64").reshape(shape)
        if isf:
            a[a == NAN] = np.nan
        return a.astype(dt)

    for i in range(R.pick(300, 3000)):
        c = nd_case(0)
        if c is None:
            continue
        t, isf, dt, sn, dn, vals, ok_vals, ss, ds, A_ = c
        init = rng.choice([True, True, False])
        src, pre = mk(ss, ok_vals, dt, isf), mk(ds, vals, dt, isf)
        s_g, d_g = gb(ss, Affine.identity()), gb(ds, A_)
        entry = rng.choice(["rio", "aff"])
        tm = "o" if t == "f" else t

        def f2():
            conv = (lambda v: None if v is None else bool(v)) if t == "b" else (lambda v: dec(v, isf))
            if entry == "rio":
                d_, prob, _ = warp_nearest(rio_reproject, rng, src, pre, s_g, d_g, conv(sn), conv(dn), init_dest_nodata=init)
                return img_s(enc(d_)) if prob is None else prob
            d_ = pre.copy()
            if rng.random() < 0.5:
                out = W.warp_affine(src, d_, A_, "nearest", conv(sn), conv(dn), init_dest_nodata=init)
            else:
                out = W.warp_affine_rio(src, d_, A_, "nearest", src_nodata=conv(sn), dst_nodata=conv(dn), init_dest_nodata=init)
            assert out is d_
            return img_s(enc(d_))

        out2 = []
        f2_ = f2

        def f2():  # noqa: F811
            o_ = guarded(f2_)
            out2.append(o_)
            return o_

        # independent reference (exact rationals, no model): nearest neighbour of the whole source under A, source nodata
        # pixels and uncovered pixels take the fill value (init) or keep the previous content
        fill_ = dn if dn is not None else ((NAN if entry == "rio" else (sn if sn is not None else 0)) if isf
                                           else (sn if sn is not None else 0))
        es, ep = enc(src), enc(pre)
        ref = np.full(ds, fill_, dtype="int64") if init else ep.copy()
        a6 = faff(A_)
        for iy in range(ds[0]):
            for ix in range(ds[1]):
                qx = a6[0] * Fraction(2 * ix + 1, 2) + a6[1] * Fraction(2 * iy + 1, 2) + a6[2]
                qy = a6[3] * Fraction(2 * ix + 1, 2) + a6[4] * Fraction(2 * iy + 1, 2) + a6[5]
                if 0 <= qx < ss[1] and 0 <= qy < ss[0]:
                    v_ = int(es[math.floor(qy), math.floor(qx)])
                    if sn is None or v_ != sn:
                        ref[iy, ix] = v_
        R.corr(f"c10 warp2 {entry} {tm} {bool_s(isf)} {NAN} {bool_s(init)} {c03.opt_s(sn)} {c03.opt_s(dn)} {ss[0]} {ss[1]} {ds[0]} {ds[1]} "
               f"{aff_s(A_)} {img_s(enc(src))} {img_s(enc(pre))}", f2, sig=f"warp2|{entry}|{t}|init{bool_s(init)}")
        R.oracle(bool(out2) and out2[0] == img_s(ref), "warp-differs-from-nearest-reference",
                 {"fn": "warp_affine" if entry == "aff" else "rio_reproject", "dtype": dt, "src_shape": ss, "dst_shape": ds,
                  "A": list(A_)[:6], "src_nodata": sn, "dst_nodata": dn, "init_dest_nodata": init, "src": es.tolist(), "dst": ep.tolist(),
                  "nan_code": NAN},
                 f"{entry}: got {out2 and out2[0]} expected {img_s(ref)}", sig=f"warp2|{entry}|{t}|reference")

    for i in range(R.pick(300, 3000)):
        c = nd_case(1)
        if c is None:
            continue
        t, isf, dt, sn, dn, vals, ok_vals, ss, ds, A_ = c
        init = rng.choice([True, True, False])
        extra = rng.choice([(2,), (3,), (1,), (2, 2), (2, 3), (1, 2)])
        ydim = rng.choice([None, None] + list(range(len(extra) + 1)))
        yd = len(extra) if ydim is None else ydim
        sshape = extra[:yd] + ss + extra[yd:]
        dextra = extra
        mism = rng.random() < 0.12  # destination with fewer / more planes than the source
        if mism:
            k_ = rng.randrange(len(extra))
            dextra = tuple(v + (rng.choice([-1, 1, 2]) if j == k_ else 0) for j, v in enumerate(extra))
            if min(dextra) < 1:
                dextra = extra
        dshape = dextra[:yd] + ds + dextra[yd:]
        src, pre = mk(sshape, ok_vals, dt, isf), mk(dshape, vals, dt, isf)
        s_g, d_g = gb(ss, Affine.identity()), gb(ds, A_)
        tm = "o" if t == "f" else t

        def fnd():
            conv = (lambda v: None if v is None else bool(v)) if t == "b" else (lambda v: dec(v, isf))
            d_ = pre.copy()
            s_ = src
            if rng.random() < 0.3:  # non-contiguous N-d views
                d_ = np.asfortranarray(d_)
                s_ = np.asfortranarray(s_)
            kw = {} if ydim is None else {"ydim": ydim}
            if ydim is not None and rng.random() < 0.3:
                out = rio_reproject(s_, d_, s_g, d_g, "nearest", conv(sn), conv(dn), ydim, init_dest_nodata=init)
            else:
                out = rio_reproject(s_, d_, s_g, d_g, "nearest", src_nodata=conv(sn), dst_nodata=conv(dn), init_dest_nodata=init, **kw)
            assert out is d_
            return c03.list_s(enc(d_).ravel().tolist())

        outn = []
        fnd_ = fnd

        def fnd():  # noqa: F811
            o_ = guarded(fnd_)
            outn.append(o_)
            return o_

        R.corr(f"c10 ndwarp {tm} {bool_s(isf)} {NAN} {c03.opt_s(ydim)} {c03.list_s(sshape)} {c03.list_s(dshape)} {aff_s(A_)} "
               f"{c03.opt_s(sn)} {c03.opt_s(dn)} {bool_s(init)} {c03.list_s(enc(src).ravel().tolist())} "
               f"{c03.list_s(enc(pre).ravel().tolist())}", fnd,
               sig=f"ndwarp|{t}|ndim{len(sshape)}|ydim{ydim}|" + ("planes-differ" if dextra != extra else "planes-equal"))
        if all(d_ >= e_ for d_, e_ in zip(dextra, extra)) and outn:  # every source plane has a destination plane
            # independent of the model: every plane must equal the 2-D warp of that plane alone
            conv = (lambda v: None if v is None else bool(v)) if t == "b" else (lambda v: dec(v, isf))
            want = pre.copy()
            try:
                for idx in np.ndindex(*extra):
                    sel = idx[:yd] + (slice(None), slice(None)) + idx[yd:]
                    pl = np.ascontiguousarray(pre[sel])
                    rio_reproject(np.ascontiguousarray(src[sel]), pl, s_g, d_g, "nearest", src_nodata=conv(sn), dst_nodata=conv(dn),
                                  init_dest_nodata=init)
                    want[sel] = pl
                okn = c03.list_s(enc(want).ravel().tolist()) == outn[0]
            except Exception as ex:  # pylint: disable=broad-except
                okn = False
                want = f"{type(ex).__name__}: {ex}"
            R.oracle(okn, "nd-plane-differs-from-2d-warp",
                     {"fn": "rio_reproject-nd", "dtype": dt, "src_shape": sshape, "dst_shape": dshape, "ydim": ydim, "A": list(A_)[:6],
                      "src_nodata": sn, "dst_nodata": dn, "init_dest_nodata": init, "nan_code": NAN,
                      "src": enc(src).ravel().tolist(), "dst": enc(pre).ravel().tolist()},
                     f"N-d result {outn[0][:200]} differs from plane-by-plane 2-D warps", sig=f"ndwarp|{t}|plane-by-plane")

    # ================================================================ dispatch tables of warp.py (model: C10Rs)
    import rasterio.warp as RW

    RS_NAMES = [m.name for m in RW.Resampling]
    R.oracle([(m.name, int(m.value)) for m in RW.Resampling] == [("nearest", 0), ("bilinear", 1), ("cubic", 2), ("cubic_spline", 3),
             ("lanczos", 4), ("average", 5), ("mode", 6), ("gauss", 7), ("max", 8), ("min", 9), ("med", 10), ("q1", 11), ("q3", 12),
             ("sum", 13), ("rms", 14)], "resampling-enum-changed", {"fn": "rasterio.warp.Resampling"},
             "the backend's Resampling enum is not the table the model was written against", sig="rs|enum", trivial=True)

    def spellings(nm):
        return {nm, nm.upper(), nm.title(), nm.capitalize(), "".join(c.upper() if i % 2 else c for i, c in enumerate(nm))}

    bad_names = ["near", "nearest_", "cubicspline", "cubic-spline", "bi_linear", "0", "average2", "nearestnearest", "linear", "none",
                 "min_", "q2", "RMS2", "Resampling.nearest", "value", "name"]
    for nm in RS_NAMES:  # exhaustive over the enum, several spellings each
        for sp in sorted(spellings(nm)):
            R.corr(f"c10 s2rio {sp}", lambda: str(int(W.resampling_s2rio(sp))), sig="rs|s2rio|member")
            R.corr(f"c10 isnn str {sp}", lambda: bool_s(W.is_resampling_nn(sp)), sig="rs|isnn|str")
        R.corr(f"c10 isnn code {int(RW.Resampling[nm])}", lambda: bool_s(W.is_resampling_nn(RW.Resampling[nm])), sig="rs|isnn|enum")
        R.corr(f"c10 isnn code {int(RW.Resampling[nm])}", lambda: bool_s(W.is_resampling_nn(int(RW.Resampling[nm]))), sig="rs|isnn|int")
    for sp in bad_names:
        R.corr(f"c10 s2rio {sp}", lambda: str(int(W.resampling_s2rio(sp))), sig="rs|s2rio|not-a-member")
        R.corr(f"c10 isnn str {sp}", lambda: bool_s(W.is_resampling_nn(sp)), sig="rs|isnn|str")
    for v in (-1, 15, 99):
        R.corr(f"c10 isnn code {v}", lambda: bool_s(W.is_resampling_nn(v)), sig="rs|isnn|int")
    for sp in ("mro", "__doc__", "__members__", "__name__", "__class__", "__module__"):
        # attributes of the enum CLASS that are not members: the documented contract is ValueError (known finding until fixed)
        try:
            got_ = W.resampling_s2rio(sp)
            ok_ = False
        except ValueError:
            got_, ok_ = "ValueError", True
        except Exception as ex:  # pylint: disable=broad-except
            got_, ok_ = type(ex).__name__, False
        R.oracle(ok_, "s2rio-accepts-non-member-attribute", {"fn": "resampling_s2rio", "name": sp},
                 f"resampling_s2rio({sp!r}) returned {str(got_)[:60]!r} instead of raising ValueError", sig="rs|s2rio|class-attribute")

    # --- what rio_reproject hands to the backend: rasterio.warp.reproject replaced by a recorder (a public seam of the
    #     backend; probed first - if the wrapper does not reach it on this tree the stream is skipped, not failed)
    from odc.geo import gcp as GCPM

    rec = []
    orig_rw = RW.reproject

    def recorder(source, destination, **kw):
        rec.append((source, destination, kw))
        return destination

    def with_recorder(fn):
        RW.reproject = recorder
        try:
            return fn()
        finally:
            RW.reproject = orig_rw

    B0 = Affine(32.0, 0, 5e5, 0, -32.0, 6e6)
    pix_ = np.asarray([(x, y) for x in np.linspace(0, 8, 4) for y in np.linspace(0, 6, 4)], dtype="float64")
    wld_ = np.asarray([B0 * (float(x), float(y)) for x, y in pix_], dtype="float64")
    gcp_src = GCPM.GCPGeoBox((6, 8), GCPM.GCPMapping(pix_, wld_, "EPSG:32633"))
    gb_src, gb_dst = gb((6, 8), B0, "EPSG:32633"), gb((5, 7), B0 * Affine.translation(1, 1), "EPSG:32633")
    with_recorder(lambda: rio_reproject(np.zeros((6, 8), "int16"), np.zeros((5, 7), "int16"), gb_src, gb_dst, "nearest"))
    if not rec:
        R.count("riocall|backend-seam-not-reached")
        R.notes.append("rasterio.warp.reproject is not what rio_reproject calls on this tree: the backend-call stream was skipped")
    DT = {"o": ["int16", "uint8", "int32", "uint16"], "i8": ["int8"], "b": ["bool"], "f": ["float32", "float64"]}
    for i in range(R.pick(400, 4000) if rec else 0):
        ts, td = rng.choice(["o", "o", "i8", "b", "f"]), rng.choice(["o", "o", "i8", "b", "f"])
        dts, dtd = rng.choice(DT[ts]), rng.choice(DT[td])
        gcp_ = rng.random() < 0.35
        kind = rng.choice(["str", "str", "enum", "int"])
        nm = rng.choice(RS_NAMES)
        if kind == "str":
            sp = rng.choice(sorted(spellings(nm)) + (bad_names[:6] if rng.random() < 0.2 else []))
            rs_arg, rs_tok = sp, f"str {sp}"
        elif kind == "enum":
            rs_arg, rs_tok = RW.Resampling[nm], f"code {int(RW.Resampling[nm])}"
        else:
            rs_arg, rs_tok = int(RW.Resampling[nm]), f"code {int(RW.Resampling[nm])}"
        hx, hy = rng.random() < 0.25, rng.random() < 0.25
        kw = {**({"XSCALE": 3} if hx else {}), **({"YSCALE": 2} if hy else {})}
        isf = td == "f"
        pool = {"b": [None, 0, 1], "f": [None, NAN, 7, -5], "i8": [None, -128, 5], "o": [None, 0, 5, 200]}
        sn, dn = rng.choice(pool[ts]), rng.choice(pool[td])
        cv = lambda v, t_: None if v is None else (bool(v) if t_ == "b" else (float("nan") if (t_ == "f" and v == NAN) else v))  # noqa: E731

        def fcall():
            del rec[:]
            src_a, dst_a = np.zeros((6, 8), dtype=dts), np.zeros((5, 7), dtype=dtd)
            with_recorder(lambda: rio_reproject(src_a, dst_a, gcp_src if gcp_ else gb_src, gb_dst, rs_arg,
                                                src_nodata=cv(sn, ts), dst_nodata=cv(dn, td), **kw))
            assert len(rec) == 1
            s_, d_, k_ = rec[0]
            wk = lambda arr, orig: "same" if arr.dtype.name == orig else arr.dtype.name  # noqa: E731
            nd = lambda v: "N" if v is None else (str(NAN) if (isinstance(v, float) and v != v) else str(int(v)))  # noqa: E731
            inj = (k_.get("XSCALE"), k_.get("YSCALE")) == (1, 1) and not hx and not hy
            assert inj or (k_.get("XSCALE") == (3 if hx else None) and k_.get("YSCALE") == (2 if hy else None))
            return (f"rs={int(k_['resampling'])} tr={bool_s(k_.get('src_transform') is not None)} gcps={bool_s(k_.get('gcps') is not None)} "
                    f"inj={bool_s(inj)} sn={nd(k_.get('src_nodata'))} dn={nd(k_.get('dst_nodata'))} src={wk(s_, dts)} dst={wk(d_, dtd)}")

        tm = lambda t_: "o" if t_ == "f" else t_  # noqa: E731
        R.corr(f"c10 riocall {tm(ts)} {tm(td)} {bool_s(isf)} {NAN} {bool_s(gcp_)} {rs_tok} {bool_s(hx)} {bool_s(hy)} "
               f"{c03.opt_s(sn)} {c03.opt_s(dn)}", fcall, sig=f"riocall|{'gcp' if gcp_ else 'geobox'}|{kind}|{ts}>{td}")

    # ================================================================ GDAL oracle on real plans
    n_pairs = R.pick(420, 4200)
    stats = {"paste1": 0, "pasteK": 0, "nopaste": 0}
    for i in range(n_pairs):
        big = rng.random() < 0.04
        stol_c, ttol_c = None, None
        if big:
            sshape, dshape = (rng.randint(3, 6), rng.randint(500, 900)), (rng.randint(3, 6), rng.randint(500, 900))
        else:
            sshape, dshape = (rng.randint(1, 30), rng.randint(1, 30)), (rng.randint(1, 30), rng.randint(1, 30))
        fam = rng.random()
        if rng.random() < 0.12:  # two grids that SHARE a rotation / shear: pixel to pixel a whole-pixel shift (+ residue)
            S, Mx, kind = shared_rotation_pair(rng, sshape, dshape)
        elif fam < 0.3:
            S = gen_src_affine(rng)
            Mx, kind = gen_M_exact(rng, sshape, dshape)
        elif fam < 0.5:
            S = Affine.identity() if rng.random() < 0.5 else gen_src_affine(rng)
            Mx, kind = gen_M_patched(rng, sshape, dshape)
        elif fam < 0.85:  # caller supplied tolerances, scales straddling k ± stol, shifts straddling ttol
            stol_c = rng.choice([1e-2, 1e-3, 1e-4, 1e-6])
            ttol_c = rng.choice([0.05, 1e-2, 1e-3, 0.2])
            k = rng.choice([1, 1, 2, 2, 3, 4])
            dlt = stol_c * rng.choice([0.3, 0.9, 0.99, 1.01, 1.1, 2.5, 6.0]) * rng.choice([1, -1])
            dlt2 = dlt if rng.random() < 0.6 else stol_c * rng.choice([0.3, 1.5]) * rng.choice([1, -1])
            if not big:
                sshape, dshape = (rng.randint(8, 60), rng.randint(8, 60)), (rng.randint(4, 30), rng.randint(4, 30))
            sg = (rng.choice([1, 1, -1]), rng.choice([1, 1, -1]))
            rt = ttol_c * rng.choice([0, 0.5, 0.9, 1.1, 3]) * rng.choice([1, -1])
            S = Affine.identity() if rng.random() < 0.3 else (gen_src_affine(rng) if rng.random() < 0.5
                                                              else c03.float_src_affine(rng, rng.choice(c03.RES_CHOICES)))
            ox, oy = rng.randint(-dshape[1], sshape[1] // k), rng.randint(-dshape[0], sshape[0] // k)
            kind = f"tol-{stol_c:g}"
            if k >= 2 and rng.random() < 0.6:  # read_shrink > 1, chip 1e2 .. 1e5 overview pixels into a large source
                if stol_c >= 1e-3:
                    dlt = dlt2 = k * stol_c * rng.choice([0.9, 0.4, 0.1, 1e-3, 0]) * rng.choice([1, -1])
                ox, oy = int(10 ** rng.uniform(2, 5)), int(10 ** rng.uniform(2, 5))
                sshape = (k * (oy + rng.randint(dshape[0] // 2, 2 * dshape[0])), k * (ox + rng.randint(dshape[1] // 2, 2 * dshape[1])))
                rt = ttol_c * rng.choice([0, 0.3, 0.6]) * rng.choice([1, -1])
                kind += "-far"
            Mx = Affine((k + dlt) * sg[0], 0, k * (ox + rt) + (k * dshape[1] if sg[0] < 0 else 0),
                        0, (k + dlt2) * sg[1], k * (oy + rt / 2) + (k * dshape[0] if sg[1] < 0 else 0))
            if rng.random() < 0.6:  # scale class x placement class x read-shrink (up to 64) x top-of-band residues
                sshape, dshape, Mx, stol_c, ttol_c, tg = c03.tol_case(rng)
                kind = f"tol-{stol_c:g}|{tg}"
        else:  # arbitrary doubles: realistic resolution, residues on both sides of the tolerance
            resn = rng.choice(c03.RES_CHOICES)
            S = c03.float_src_affine(rng, resn)
            resd = rng.choice([0, 0, 0.01, -0.02, 0.04, -0.045, 0.049, 0.051, -0.06, 0.1, 0.3, -0.4, 0.6, 0.7])
            Mx = Affine.translation(rng.randint(-dshape[1], sshape[1]) + resd, rng.randint(-dshape[0], sshape[0]) + resd / 2) * \
                Affine.scale(rng.choice([1, 1, 1, -1]), rng.choice([1, 1, 1, -1]))
            if rng.random() < 0.3:
                Mx = Mx * Affine.scale(1 + rng.choice([-1, 1]) * rng.uniform(1e-5, 9e-4))
            elif rng.random() < 0.2:
                Mx = Mx * Affine.scale(rng.choice([1.4, 0.7, 1.1, 2.0, 3.0]))
            kind = "float"
        D = S * Mx
        ttol = rng.choice([0.05, 0.05, 0.05, 2**-5, 0.26, 0.45] + c03.TTOL_FLOAT) if ttol_c is None else ttol_c
        if ttol_c is None and ttol > 0.5 and kind in ("float", "subpix", "shift") and rng.random() < 0.7:
            # any residue is within such a tolerance: shift by an arbitrary fraction of a pixel
            D = S * Affine.translation(rng.uniform(-0.5, 0.5), rng.uniform(-0.5, 0.5)) * Mx
        stol = 1e-3 if stol_c is None else stol_c
        # padding / alignment options are part of the plan's input space
        if rng.random() < (0.85 if kind.startswith("tol-") else 0.55):
            pad, al = rng.choice([None, None, 0]), rng.choice([None, None, 0])
        else:
            pad, al = rng.choice([None, 0, 1, 2, 5]), rng.choice([None, 0, 1, 2, 4, 16])
        src_g, dst_g = gb(sshape, S), gb(dshape, D)
        case = {"fn": "compute_reproject_roi", "src_shape": sshape, "dst_shape": dshape, "src_affine": list(S)[:6],
                "dst_affine": list(D)[:6], "ttol": ttol, "stol": stol, "padding": pad, "align": al, "crs": CRS0}
        conv = rng.random() < 0.3  # positional arguments in the documented order (src, dst, ttol, stol, padding, align)
        case["positional"] = conv
        try:
            r = c03.call_plan(O, conv, src_g, dst_g, ttol=ttol, stol=stol, padding=pad, align=al)
        except Exception as e:  # pylint: disable=broad-except
            R.oracle(False, "plan-raises", case, f"compute_reproject_roi raised {type(e).__name__}: {e}", sig="plan|raises")
            continue
        A = r.transform.back.linear
        A6 = fmul(finv(faff(S)), faff(D))
        rs = int(r.read_shrink)
        (ys, xs), (yd, xd) = r.roi_src, r.roi_dst
        # --- paste-ability only within tolerances (on the exact transform of the two grids)
        a, b, c, d, e, f = A6
        stq, ttq = Fraction(stol), Fraction(ttol)
        fr = lambda v: abs(v - round(v))  # noqa: E731
        # the planner works in doubles: a shift is only known to about 16 ulp of the world coordinates, in pixels
        pos = max(abs(S.c), abs(S.f), abs(D.c), abs(D.f), 1e-300)
        pix = min(math.hypot(S.a, S.d), math.hypot(S.b, S.e), math.hypot(D.a, D.d), math.hypot(D.b, D.e))
        slack_t = Fraction(16 * 2.2e-16 * pos / pix) if pix > 0 else Fraction(0)
        slack = Fraction(1, 10**9) + stq / 10**6 + slack_t
        if r.paste_ok:
            good = (abs(b) < Fraction(1e-10) + slack and abs(d) < Fraction(1e-10) + slack and abs(abs(a) / rs - 1) < stq + slack
                    and abs(abs(e) / rs - 1) < stq + slack and fr(c / rs) < ttq + slack and fr(f / rs) < ttq + slack)
            R.oracle(good, "paste-ok-outside-tolerance", case,
                     f"paste_ok with dst→src transform {[float(v) for v in A6]} read_shrink {rs}", sig="plan|paste-sound")
        else:
            # completeness is judged for the read-shrink the planner reports (its own 1e-3 rule): for stol > 1e-3 a scale in
            # (k - stol, k - 1e-3) is read at k-1 and therefore (soundly) not pasteable
            k = rs
            clearly_ok = (pad in (None, 0) and al in (None, 0) and b == 0 and d == 0 and abs(abs(a) / k - 1) < stq - slack and abs(abs(e) / k - 1) < stq - slack
                          and fr(c / k) < ttq - slack and fr(f / k) < ttq - slack and fr(min(abs(a), abs(e))) < stq - slack)
            R.oracle(not clearly_ok, "paste-rejected-within-tolerance", case,
                     f"paste_ok False although dst→src transform {[float(v) for v in A6]} is within the tolerances",
                     sig="plan|paste-complete")
        if not r.paste_ok:
            stats["nopaste"] += 1
            R.count("plan|nopaste|" + kind)
            continue
        R.oracle((ys.stop - ys.start, xs.stop - xs.start) == (rs * (yd.stop - yd.start), rs * (xd.stop - xd.start)),
                 "paste-src-shape-not-shrink-times-dst", case,
                 f"paste_ok read_shrink={rs} padding={pad} align={al} roi_src={r.roi_src} roi_dst={r.roi_dst}", sig="plan|paste-shape")
        R.oracle(pad in (None, 0) and al in (None, 0), "paste-ok-with-padding-or-align", case,
                 f"paste_ok reported although padding={pad} align={al} were requested", sig="plan|paste-tight")
        if rs > 1:
            # --- planned source region = overview region scaled by k, same shape as the destination region
            stats["pasteK"] += 1
            ok = (all(v % rs == 0 for v in (ys.start, ys.stop, xs.start, xs.stop))
                  and ((ys.stop - ys.start) // rs, (xs.stop - xs.start) // rs) == (yd.stop - yd.start, xd.stop - xd.start))
            R.oracle(ok, "shrink-roi-not-scaled", case, f"read_shrink {rs}: roi_src={r.roi_src} roi_dst={r.roi_dst}",
                     sig=f"plan|pasteK|{kind}")
            continue
        stats["paste1"] += 1
        ok = (ys.stop - ys.start, xs.stop - xs.start) == (yd.stop - yd.start, xd.stop - xd.start)
        R.oracle(ok, "paste-roi-shape-mismatch", case, f"roi_src={r.roi_src} roi_dst={r.roi_dst}", sig=f"plan|paste1|{kind}|shapes")
        if not ok:
            continue
        if sshape[0] * sshape[1] > 4_000_000:
            R.count("plan|paste1|too-large-for-pixel-compare")
            continue
        drift, has_res = drift_of(A6, rs, dshape)
        pure = (A6[1] == 0 and A6[3] == 0 and abs(abs(A6[0]) - 1) < stq and abs(abs(A6[4]) - 1) < stq)
        key = "paste-scale-drift-differs-from-warp" if (has_res and pure and drift >= Fraction(1, 2)) else "paste-differs-from-warp"
        # coordinates that sit on a pixel edge in doubles are decided by GDAL's epsilon, not by the property
        xx, yy = c03.centres(dshape)
        px, py = c03.apply_np(A6, xx, yy)
        edge = (np.abs(px - np.round(px)) < 1e-6) | (np.abs(py - np.round(py)) < 1e-6)
        dts = DTYPES if (i % 3 == 0 or R.quick is False) else [DTYPES[i % len(DTYPES)], DTYPES[(i // 3) % len(DTYPES)]]
        for dt in dts:
            # plain content with the default nodata first, then awkward content under a random nodata configuration
            for rnd in (0, 1):
                sn, dn = (None, NODATA[dt]) if rnd == 0 else nodata_config(rng, dt)
                src = make_src(rng, sshape, dt) if rnd == 0 else content_src(rng, sshape, dt, sn, dn)
                cfg = {"dtype": dt, "src_nodata": repr(sn), "dst_nodata": repr(dn), "content": "plain" if rnd == 0 else "special"}
                try:
                    w, prob, lay = warp_nearest(rio_reproject, rng, src, np.full(dshape, 77 if dt != "bool" else True, dtype=dt),
                                                src_g, dst_g, sn, dn)
                    cfg["layout"] = lay
                    p, weff = ref_paste(src, dshape, r, A, sn, dn)
                except Exception as ex:  # pylint: disable=broad-except
                    R.oracle(False, "paste-or-warp-raises", {**case, **cfg}, f"{type(ex).__name__}: {ex}", sig="plan|raises")
                    continue
                R.oracle(prob is None, "warp-memory-contract", {**case, **cfg}, str(prob), sig="plan|paste1|layout|" + lay.split("/")[0])
                if dt.startswith("float"):
                    neq = ~((p == w) | (np.isnan(p) & np.isnan(w)))
                else:
                    neq = p != w
                neq = neq & ~edge
                k2 = key
                what = ""
                if neq.any():
                    iy, ix = np.argwhere(neq)[0]
                    what = (f"{int(neq.sum())} of {neq.size} pixels differ, first at (row {iy}, col {ix}): pasted {p[iy, ix]} "
                            f"warp {w[iy, ix]}; src_nodata={sn} dst_nodata={dn} roi_src={r.roi_src} roi_dst={r.roi_dst}")
                    # GDAL nudges VALID source pixels that happen to equal the destination nodata value
                    inblk = np.zeros(dshape, dtype=bool)
                    inblk[r.roi_dst] = True
                    if key == "paste-differs-from-warp" and (neq <= (inblk & same_val(p, weff))).all():
                        k2 = "paste-differs-from-warp-valid-pixel-equals-dst-nodata"
                R.oracle(not neq.any(), k2, {**case, **cfg}, what, sig=f"plan|paste1|{kind}|{dt}|{cfg['content']}")
        # --- model of the paste operation vs the numpy paste above (small cases)
        if sshape[0] * sshape[1] <= 200 and dshape[0] * dshape[1] <= 200 and i % 4 == 0:
            src = make_src(rng, sshape, "int16")
            R.corr(f"c10 paste {dshape[0]} {dshape[1]} {bool_s(A.e < 0)} {bool_s(A.a < 0)} {ns(ys)} {ns(xs)} {ns(yd)} {ns(xd)} "
                   f"-999 {img_s(src)}", lambda: img_s(do_paste(src, dshape, r, A, -999)), sig="paste-op|" + kind)

    # ================================================================ the overview path: read_shrink k = 2 .. 64, residues across
    #     the whole translation band (edges included), caller tolerances: exact correspondence of the full plan, the laws
    #     roi_src = k * r' / r' starts where the snapped overview transform puts it, and paste-vs-warp THROUGH the overview
    #     (the statement of paste_overview_end_to_end, exercised on the boundary of its hypotheses)
    TT_OV = [2.0**-5, 2.0**-4, 2.0**-4, 0.125, 0.25, 0.375, 0.5 - 2.0**-10, 0.05, 0.05, 0.05, 0.15, 0.2, 0.75]
    for i in range(R.pick(700, 7000)):
        exact = i % 2 == 0
        k = rng.choice([2, 4, 8, 16, 16, 32, 64] if exact else [2, 3, 4, 5, 6, 7, 8, 9, 10, 11, 12, 12, 13, 14, 15, 16, 16, 24, 32])
        ttol = rng.choice(TT_OV)
        stol = rng.choice([1e-3, 1e-3, 2.0**-7, 1e-2])
        band = min(ttol, 0.5)
        cls = rng.choice(["zero", "mid", "top", "top", "top-", "edge", "out", "half-src-px"])
        if cls == "half-src-px":  # the smallest residue that is half a SOURCE pixel or more: 0.5/k .. 0.5/k + a bit
            mag = 0.5 / k + rng.choice([0, 2.0**-10, 2.0**-7])
        else:
            mag = {"zero": 0, "mid": band / 2, "top": band * (1 - 2.0**-4), "top-": band * (1 - 2.0**-8), "edge": band,
                   "out": band * (1 + 2.0**-4)}[cls]
        if exact and Fraction(mag).denominator > 2**20:  # keep k * (offset + residue) an exact double
            mag = math.floor(mag * 2**12) / 2**12
        rx = mag * rng.choice([1, -1])
        ry = rng.choice([0, 0, rx, -rx / 2])
        L = (rng.randint(4, 14), rng.randint(4, 14))                     # source size in overview pixels
        Ns = tuple(k * n_ - rng.randint(0, k - 1) for n_ in L)          # ragged last overview pixel
        Nd = (rng.randint(2, L[0] + 2), rng.randint(2, L[1] + 2))
        plc = rng.choice(["contained", "contained", "low", "high", "both"])
        oy = c03.place_axis(rng, plc if Nd[0] <= L[0] else "both", L[0], Nd[0])
        ox = c03.place_axis(rng, rng.choice(["contained", "contained", "low", "high"]) if Nd[1] <= L[1] else "both", L[1], Nd[1])
        sg = (rng.choice([1, 1, -1]), rng.choice([1, 1, -1]))
        S = Affine.identity() if (exact or rng.random() < 0.4) else c03.float_src_affine(rng, rng.choice([10, 30, 0.00025, 1.0]))
        Mx = Affine(k * sg[0], 0, k * (ox + rx) + (k * Nd[1] if sg[0] < 0 else 0), 0, k * sg[1], k * (oy + ry) + (k * Nd[0] if sg[1] < 0 else 0))
        D = S * Mx
        src_g, dst_g = gb(Ns, S), gb(Nd, D)
        conv = rng.random() < 0.3
        case = {"fn": "compute_reproject_roi", "src_shape": Ns, "dst_shape": Nd, "src_affine": list(S)[:6], "dst_affine": list(D)[:6],
                "ttol": ttol, "stol": stol, "crs": CRS0, "positional": conv, "overview": True, "dtype": "int16"}
        res = []

        def fov():
            r_ = c03.call_plan(O, conv, src_g, dst_g, ttol=ttol, stol=stol)
            res.append(r_)
            return c03.plan_s(r_)

        out = guarded(fov)
        tag = f"k{min(k, 17) if k < 17 else '17+'}|{cls}|ttol{'<' if ttol * k < 0.5 else '>='}0.5/k"
        if exact:
            R.corr(f"c10 plan {Ns[0]} {Ns[1]} {Nd[0]} {Nd[1]} 1;0;0;0;1;0 {aff_s(D)} {frac_s(ttol)} {frac_s(stol)} N N",
                   lambda: out, sig="ovplan|" + tag)
        if not res:
            R.oracle(False, "plan-raises", case, f"compute_reproject_roi raised {out}", sig="ovplan|raises")
            continue
        r = res[0]
        frx, fry = abs(rx - round(rx)), abs(ry - round(ry))  # distance to the nearest whole overview pixel
        inside = frx < ttol * (1 - 1e-9) and fry < ttol * (1 - 1e-9)
        outside = frx > ttol * (1 + 1e-9) or fry > ttol * (1 + 1e-9)
        if inside or outside:  # exactly on the edge of the band is decided by `<` in doubles: not judged here (the exact stream does)
            R.oracle(bool(r.paste_ok) == inside, "paste-rejected-within-tolerance" if inside else "paste-ok-outside-tolerance", case,
                     f"residues ({rx}, {ry}) overview px, ttol {ttol}, read_shrink {k}: paste_ok={r.paste_ok}", sig="ovplan|band|" + cls)
        if not r.paste_ok:
            continue
        (ys, xs), (yd, xd) = r.roi_src, r.roi_dst
        R.oracle(int(r.read_shrink) == k, "paste-read-shrink-not-the-scale", case, f"read_shrink {r.read_shrink} for scale {k}",
                 sig="ovplan|read-shrink")
        law = (all(v % k == 0 for v in (ys.start, ys.stop, xs.start, xs.stop))
               and ((ys.stop - ys.start) // k, (xs.stop - xs.start) // k) == (yd.stop - yd.start, xd.stop - xd.start))
        R.oracle(law, "shrink-roi-not-scaled", case, f"read_shrink {k}: roi_src={r.roi_src} roi_dst={r.roi_dst}", sig="ovplan|law|" + tag)
        if not law:
            continue
        # position: the overview block starts where the overview transform, snapped to whole OVERVIEW pixels, puts it
        nonempty = yd.stop > yd.start and xd.stop > xd.start
        if nonempty and abs(rx) < 0.5 - 1e-9 and abs(ry) < 0.5 - 1e-9:
            want_x = (ox + xd.start) if sg[0] > 0 else (ox + Nd[1] - xd.stop)
            want_y = (oy + yd.start) if sg[1] > 0 else (oy + Nd[0] - yd.stop)
            R.oracle((xs.start // k, ys.start // k) == (want_x, want_y), "shrink-roi-misplaced", case,
                     f"read_shrink {k}, residues ({rx}, {ry}): overview block starts at (x {xs.start // k}, y {ys.start // k}), the "
                     f"transform snapped to whole overview pixels puts it at ({want_x}, {want_y}); roi_src={r.roi_src} roi_dst={r.roi_dst}",
                     sig="ovplan|position|" + tag)
            # paste through the overview == nearest-neighbour warp of the whole overview image (GDAL), every few cases
            if i % 3 == 0:
                ov_g = src_g.zoom_out(k)
                ov = make_src(rng, tuple(ov_g.shape), "int16")
                try:
                    w, prob, lay = warp_nearest(rio_reproject, rng, ov, np.full(Nd, -999, dtype="int16"), ov_g, dst_g, None, -999)
                    blk = ov[ys.start // k:ys.stop // k, xs.start // k:xs.stop // k]
                    if sg[1] < 0:
                        blk = blk[::-1, :]
                    if sg[0] < 0:
                        blk = blk[:, ::-1]
                    p_img = np.full(Nd, -999, dtype="int16")
                    p_img[r.roi_dst] = blk
                    neq = p_img != w
                    R.oracle(not neq.any(), "paste-differs-from-warp", {**case, "layout": lay},
                             f"read_shrink {k}: {int(neq.sum())} of {neq.size} pixels differ between the pasted overview block and the "
                             f"nearest-neighbour warp of the whole overview; roi_src={r.roi_src} roi_dst={r.roi_dst}",
                             sig="ovplan|gdal|" + tag)
                except Exception as ex:  # pylint: disable=broad-except
                    R.oracle(False, "paste-or-warp-raises", case, f"{type(ex).__name__}: {ex}", sig="plan|raises")

    # --- mosaics: sequences of warps into ONE shared, pre-filled destination (destination pre-state x dtype x options)
    for i in range(R.pick(160, 1600)):
        dt = DTYPES[i % len(DTYPES)]
        dshape = (rng.randint(6, 28), rng.randint(6, 28))
        resm = rng.choice([10, 30, 0.5, 0.00025, 1000.0])
        D = Affine.translation(resm * rng.randint(-3000, 3000), resm * rng.randint(-3000, 3000)) * Affine.scale(resm, -resm)
        dst_g = gb(dshape, D)
        sn, dn = nodata_config(rng, dt)
        nb = rng.choice([0, 0, 2])  # 0: plain 2-D rasters, otherwise (band, y, x) stacks
        pre = [content_src(rng, dshape, dt, sn, dn) for _ in range(max(1, nb))]  # arbitrary earlier content, not only nodata
        # the shared destination: an array of its own, a window of a bigger mosaic / strided / Fortran (2-D), or a
        # (y, x, band) stack whose planes are visited through ydim=0
        ydim0 = bool(nb) and rng.random() < 0.5
        if nb:
            W = np.stack(pre)
            Wcall = np.moveaxis(W, 0, -1) if ydim0 else W
            wlay = "ydim0" if ydim0 else "bands-first"
        else:
            W, _, _, wlay = dst_alloc(rng, pre[0])
            Wcall = W
        E = [p_.copy() for p_ in pre]
        steps = []
        COL = [None] * max(1, nb)
        bad = None
        for t in range(rng.choice([2, 2, 3])):
            sshape = (rng.randint(3, 20), rng.randint(3, 20))
            sg = (rng.choice([1, 1, 1, -1]), rng.choice([1, 1, 1, -1]))
            tx, ty = rng.randint(-sshape[1] + 1, dshape[1] - 1), rng.randint(-sshape[0] + 1, dshape[0] - 1)
            rsd = rng.choice([0, 0, 0.02, -0.03])
            # src pixel -> dst pixel: whole-pixel shift (+ tiny residue), optionally mirrored
            P = Affine.translation(tx + rsd + (sshape[1] if sg[0] < 0 else 0), ty + (sshape[0] if sg[1] < 0 else 0)) * Affine.scale(*sg)
            src_g = gb(sshape, D * P)
            init = rng.choice([False, False, True]) if t > 0 else rng.choice([False, True])
            steps.append({"src_shape": sshape, "src_affine": list(src_g.transform)[:6], "init_dest_nodata": init})
            try:
                r = O.compute_reproject_roi(src_g, dst_g)
                if not (r.paste_ok and r.read_shrink == 1):
                    bad = f"tile {t}: whole-pixel shifted tile not pasteable (paste_ok={r.paste_ok}, read_shrink={r.read_shrink})"
                    break
                A = r.transform.back.linear
                srcs = [content_src(rng, sshape, dt, sn, dn) for _ in range(max(1, nb))]
                s_in = (np.moveaxis(np.stack(srcs), 0, -1) if ydim0 else np.stack(srcs)) if nb else src_layout(rng, srcs[0])[0]
                ret = rio_reproject(s_in, Wcall, src_g, dst_g, "nearest", src_nodata=sn, dst_nodata=dn, init_dest_nodata=init,
                                    **({"ydim": 0} if ydim0 else {}))
                if ret is not Wcall:
                    bad = f"tile {t}: rio_reproject did not return the destination it was given"
                    break
                for bnd in range(max(1, nb)):
                    E[bnd], COL[bnd] = ref_paste_into(E[bnd], srcs[bnd], r, A, sn, dn, init, COL[bnd])
            except Exception as ex:  # pylint: disable=broad-except
                bad = f"tile {t}: {type(ex).__name__}: {ex}"
                break
        case = {"fn": "mosaic", "dtype": dt, "dst_shape": dshape, "dst_affine": list(D)[:6], "src_nodata": repr(sn),
                "dst_nodata": repr(dn), "bands": nb, "steps": steps, "crs": CRS0, "layout": wlay}
        if bad is not None:
            R.oracle(False, "mosaic-raises", case, bad, sig="mosaic|raises")
            continue
        Es = np.stack(E) if nb else E[0]
        W = np.array(W)
        if dt.startswith("float"):
            neq = ~((Es == W) | (np.isnan(Es) & np.isnan(W)))
        else:
            neq = Es != W
        key = "mosaic-warp-differs-from-paste"
        what = ""
        if neq.any():
            idx = tuple(np.argwhere(neq)[0])
            what = (f"{int(neq.sum())} of {neq.size} pixels differ after {len(steps)} warps into one destination, first at {idx}: "
                    f"paste {Es[idx]} warp {W[idx]} (dtype {dt}, src_nodata={sn}, dst_nodata={dn}, "
                    f"init_dest_nodata={[st['init_dest_nodata'] for st in steps]})")
            cmask = np.stack(COL) if nb else COL[0]
            if (neq <= cmask).all():
                key = "paste-differs-from-warp-valid-pixel-equals-dst-nodata"
        R.oracle(not neq.any(), key, case, what, sig=f"mosaic|{dt}|bands{nb}|{wlay}|" + "".join("T" if st["init_dest_nodata"] else "F" for st in steps))

    # --- grids in CRSs WITHOUT an EPSG code (same or different), after arbitrary earlier calls on the CRS objects
    from odc.geo.crs import CRS
    from pyproj import CRS as PCRS
    from pyproj import Transformer

    for i in range(R.pick(90, 900)):
        a = rng.choice(c03.NO_EPSG)
        b = a if rng.random() < 0.3 else rng.choice(c03.NO_EPSG)
        really_same = PCRS.from_user_input(a) == PCRS.from_user_input(b)
        sshape, dshape = (rng.randint(6, 40), rng.randint(6, 40)), (rng.randint(6, 40), rng.randint(6, 40))
        res_m = rng.choice([500, 1000, 463.3127165])
        lon, lat = rng.uniform(5, 25), rng.uniform(40, 58)
        x0, y0 = Transformer.from_crs("EPSG:4326", PCRS.from_user_input(a), always_xy=True).transform(lon, lat)
        x0, y0 = round(x0 / res_m) * res_m, round(y0 / res_m) * res_m
        S = Affine.translation(x0, y0) * Affine.scale(res_m, -res_m)
        if really_same:
            x1, y1 = x0, y0
        else:  # numerically compatible grid in the other projection: same pixel size, whole-pixel offsets
            x1, y1 = Transformer.from_crs("EPSG:4326", PCRS.from_user_input(b), always_xy=True).transform(lon, lat)
            x1, y1 = round(x1 / res_m) * res_m, round(y1 / res_m) * res_m
            if rng.random() < 0.5:
                x1, y1 = x0, y0  # literally the same affine numbers, different projection
        D = Affine.translation(x1 + res_m * rng.randint(-6, 6), y1 + res_m * rng.randint(-6, 6)) * Affine.scale(res_m, -res_m)
        ca, cb = CRS(a), CRS(b)
        hist = c03.prior_history(rng, ca, cb)
        src_g, dst_g = gb(sshape, S, ca), gb(dshape, D, cb)
        case = {"fn": "compute_reproject_roi", "src_shape": sshape, "dst_shape": dshape, "src_affine": list(S)[:6],
                "dst_affine": list(D)[:6], "src_crs": a, "dst_crs": b, "history": hist, "ttol": 0.05, "dtype": "int16"}
        try:
            r = O.compute_reproject_roi(src_g, dst_g)
        except Exception as ex:  # pylint: disable=broad-except
            R.oracle(False, "plan-raises", case, f"{type(ex).__name__}: {ex}", sig="plan|raises")
            continue
        tag = ("same" if really_same else "diff") + ("|hist" if hist else "")
        R.oracle(really_same or not r.paste_ok, "paste-ok-for-different-crs", case,
                 f"paste_ok for grids in different CRSs ({c03.crs_tag(a)} vs {c03.crs_tag(b)})", sig=f"noepsg|{tag}|paste-sound")
        R.oracle((r.transform.linear is not None) == really_same, "crs-sameness-misjudged", case,
                 f"pyproj says same CRS: {really_same}; planned as same-CRS pair: {r.transform.linear is not None}",
                 sig=f"noepsg|{tag}|sameness")
        if not (r.paste_ok and r.read_shrink == 1):
            continue
        (ys, xs), (yd, xd) = r.roi_src, r.roi_dst
        if (ys.stop - ys.start, xs.stop - xs.start) != (yd.stop - yd.start, xd.stop - xd.start):
            R.oracle(False, "paste-roi-shape-mismatch", case, f"roi_src={r.roi_src} roi_dst={r.roi_dst}", sig=f"noepsg|{tag}|shapes")
            continue
        for dt in (DTYPES[i % len(DTYPES)], "int16"):
            nodata = NODATA[dt]
            src = make_src(rng, sshape, dt)
            try:
                w = rio_reproject(src, np.full(dshape, nodata, dtype=dt), src_g, dst_g, "nearest", dst_nodata=nodata)
                pimg = do_paste(src, dshape, r, r.transform.back.linear, nodata)
            except Exception as ex:  # pylint: disable=broad-except
                R.oracle(False, "paste-or-warp-raises", {**case, "dtype": dt}, f"{type(ex).__name__}: {ex}", sig="plan|raises")
                continue
            neq = ~((pimg == w) | ((pimg != pimg) & (w != w)))
            R.oracle(not neq.any(), "paste-differs-from-warp", {**case, "dtype": dt},
                     f"{int(neq.sum())} of {neq.size} pixels differ between the pasted image and the GDAL nearest warp; "
                     f"roi_src={r.roi_src} roi_dst={r.roi_dst}", sig=f"noepsg|{tag}|{dt}")

    # --- numerically IDENTICAL grids (same shape, same affine numbers) whose CRSs differ - or one side has no CRS at all:
    #     paste-ability is reported only for same-CRS grids, never here; same numbers AND same CRS must paste
    TWINS = [("EPSG:32755", "EPSG:32756", 30.0, (6.0e5, 6.1e6)), ("EPSG:32633", "EPSG:32634", 10.0, (4.2e5, 5.6e6)),
             ("EPSG:4326", "EPSG:4283", 0.00025, (146.0, -36.0)), ("EPSG:4326", "EPSG:4269", 0.01, (-100.0, 40.0)),
             ("EPSG:3857", "EPSG:3395", 100.0, (1.0e6, 5.0e6)), (c03.SINU_0, c03.SINU_15, 463.3127165, (1.0e6, 5.0e6)),
             (c03.LAEA_A, c03.LAEA_B, 500.0, (4.0e6, 3.0e6)), ("EPSG:32755", None, 30.0, (6.0e5, 6.1e6)), (None, "EPSG:4326", 0.01, (10.0, 50.0)),
             ("EPSG:32755", "EPSG:32755", 30.0, (6.0e5, 6.1e6)), (c03.LAEA_A, c03.LAEA_A, 500.0, (4.0e6, 3.0e6))]
    for a, b, res_, (x0_, y0_) in TWINS:
        for _ in range(R.pick(2, 8)):
            shp = (rng.randint(4, 40), rng.randint(4, 40))
            A_ = Affine(res_, 0, x0_ + res_ * rng.randint(-50, 50), 0, -res_, y0_ + res_ * rng.randint(-50, 50))
            if rng.random() < 0.3:
                A_ = A_ * Affine.scale(1, -1) * Affine.translation(0, -shp[0])  # south-up variant of the same footprint
            ca, cb = (None if a is None else CRS(a)), (None if b is None else CRS(b))
            hist = c03.prior_history(rng, ca, cb) if (ca is not None and cb is not None) else []
            kw = rng.choice([{}, {}, {"padding": 0}, {"align": 0}, {"padding": None, "align": None}, {"ttol": 0.05, "stol": 1e-3}])
            conv = rng.random() < 0.3
            src_g, dst_g = gb(shp, A_, ca), gb(shp, A_, cb)
            same = a is not None and a == b
            case = {"fn": "compute_reproject_roi", "src_shape": shp, "dst_shape": shp, "src_affine": list(A_)[:6], "dst_affine": list(A_)[:6],
                    "src_crs": a, "dst_crs": b, "history": hist, "positional": conv, "dtype": "int16", **kw}
            try:
                r = c03.call_plan(O, conv, src_g, dst_g, **kw)
            except Exception as ex:  # pylint: disable=broad-except
                # a raster without a CRS can not be related to one with a CRS: refusing is fine, pasting is not
                R.oracle(a is None or b is None, "plan-raises", case, f"{type(ex).__name__}: {ex}", sig="twin|raises")
                continue
            tag = "same" if same else ("crs-less" if (a is None or b is None) else "diff")
            R.oracle(same or not r.paste_ok, "paste-ok-for-different-crs", case,
                     f"paste_ok for numerically identical grids in different CRSs ({a} vs {b})", sig=f"twin|{tag}|paste-sound")
            R.oracle((r.transform.linear is not None) == same, "crs-sameness-misjudged", case,
                     f"same CRS: {same}; planned as a same-CRS pair: {r.transform.linear is not None}", sig=f"twin|{tag}|sameness")
            if same:
                full = (slice(0, shp[0]), slice(0, shp[1]))
                R.oracle(bool(r.paste_ok) and r.read_shrink == 1 and tuple(r.roi_src) == full and tuple(r.roi_dst) == full,
                         "paste-rejected-within-tolerance", case,
                         f"identical grids in one CRS: paste_ok={r.paste_ok} read_shrink={r.read_shrink} roi_src={r.roi_src} roi_dst={r.roi_dst}",
                         sig="twin|same|pastes")

    # --- wide images with a scale residue within stol: pasted image != warp (known finding, own key)
    for (n, sc) in [(600, 1.0009), (rng.randint(700, 1500), 1 + rng.choice([-1, 1]) * rng.uniform(7e-4, 9.5e-4))]:
        sshape = dshape = (4, n)
        S, D = Affine.identity(), Affine.scale(sc, 1)
        src_g, dst_g = gb(sshape, S), gb(dshape, D)
        case = {"fn": "compute_reproject_roi", "src_shape": sshape, "dst_shape": dshape, "src_affine": list(S)[:6],
                "dst_affine": list(D)[:6], "ttol": 0.05, "crs": CRS0, "dtype": "int16"}
        try:
            r = O.compute_reproject_roi(src_g, dst_g)
            src = make_src(rng, sshape, "int16")
            w = rio_reproject(src, np.full(dshape, -999, dtype="int16"), src_g, dst_g, "nearest", dst_nodata=-999)
        except Exception as ex:  # pylint: disable=broad-except
            R.oracle(False, "paste-or-warp-raises", case, f"{type(ex).__name__}: {ex}", sig="plan|raises")
            continue
        if r.paste_ok and r.read_shrink == 1:
            p = do_paste(src, dshape, r, r.transform.back.linear, -999)
            drift, has_res = drift_of(faff(D), 1, dshape)
            key = "paste-scale-drift-differs-from-warp" if (has_res and drift >= Fraction(1, 2)) else "paste-differs-from-warp"
            neq = p != w
            R.oracle(not neq.any(), key, case, f"{int(neq.sum())} of {neq.size} pixels differ; roi_src={r.roi_src} roi_dst={r.roi_dst}",
                     sig="plan|paste1|drift")

    for k, v in stats.items():
        R.count("plans|" + k, v)
    R.searchers.append(searcher)
    R.exhaustive = False
    R.assumptions.append("GDAL (rasterio.warp.reproject, nearest, XSCALE=YSCALE=1) is the reference for Spec/Warp and for the "
                         "pasted image; coordinates within 1e-6 of a pixel edge are excluded (GDAL adds 1e-10 before floor)")
    R.assumptions.append("the paste operation itself (block copy, reversed on mirrored axes) is consumer code, modelled by "
                         "C10.pasted and executed by the harness with numpy")


def searcher(R: Run, mismatches):
    """After a broken proof / correspondence: around the scales and tolerances of the disagreeing snap_scale / snap_affine /
    _can_paste lines, try the cross product placement class x read-shrink x residue and evaluate the paste contract
    (shape(roi_src) == read_shrink * shape(roi_dst); pasted image == GDAL nearest warp) on the real code."""
    O, M, GeoBox, wh_, rio_reproject = _import()
    rng = R.rng
    cands = []
    for m in mismatches[:60]:
        tk = m["line"].split(" ")
        try:
            if tk[1] == "snapscale":
                cands.append((float(Fraction(tk[2])), float(Fraction(tk[2])), float(Fraction(tk[3])), 0.05))
            elif tk[1] in ("snap", "canpaste"):
                a = [float(Fraction(v)) for v in tk[2].split(";")]
                stol, ttol = (float(Fraction(tk[4])), float(Fraction(tk[3]))) if tk[1] == "snap" else (float(Fraction(tk[3])), float(Fraction(tk[4])))
                cands.append((a[0], a[4], stol, ttol))
        except Exception:  # pylint: disable=broad-except
            continue
    for (sx, sy, stol, ttol) in cands[:25]:
        k = max(1, round(min(abs(sx), abs(sy))))
        for px_ in ("contained", "low", "high", "both", "disjoint"):
            for py_ in ("contained", "high"):
                for rt in (0, 0.9 * min(ttol, 0.49), -0.5 * min(ttol, 0.49)):
                    Ls = (rng.randint(5, 14), rng.randint(5, 14))
                    Nd = tuple((L + 3) if p_ == "both" else rng.randint(2, L) for L, p_ in zip(Ls, (py_, px_)))
                    Ns = tuple(k * L - rng.randint(0, k - 1) for L in Ls)
                    oy, ox = c03.place_axis(rng, py_, Ls[0], Nd[0]), c03.place_axis(rng, px_, Ls[1], Nd[1])
                    Mx = Affine(sx, 0, k * (ox + rt) + (k * Nd[1] if sx < 0 else 0), 0, sy, k * oy + (k * Nd[0] if sy < 0 else 0))
                    src_g, dst_g = GeoBox(wh_(Ns[1], Ns[0]), Affine.identity(), CRS0), GeoBox(wh_(Nd[1], Nd[0]), Mx, CRS0)
                    case = {"fn": "compute_reproject_roi", "src_shape": Ns, "dst_shape": Nd, "src_affine": [1, 0, 0, 0, 1, 0],
                            "dst_affine": list(Mx)[:6], "ttol": ttol, "stol": stol, "crs": CRS0, "dtype": "int16"}
                    try:
                        r = O.compute_reproject_roi(src_g, dst_g, ttol=ttol, stol=stol)
                    except Exception as ex:  # pylint: disable=broad-except
                        return {"key": "plan-raises", "case": case, "what": f"{type(ex).__name__}: {ex}"}
                    if not r.paste_ok:
                        continue
                    rs = int(r.read_shrink)
                    (ys, xs), (yd, xd) = r.roi_src, r.roi_dst
                    if (ys.stop - ys.start, xs.stop - xs.start) != (rs * (yd.stop - yd.start), rs * (xd.stop - xd.start)):
                        return {"key": "paste-src-shape-not-shrink-times-dst", "case": case,
                                "what": f"paste_ok read_shrink={rs} roi_src={r.roi_src} roi_dst={r.roi_dst} ({px_}/{py_} placement)"}
                    if rs == 1:
                        src = make_src(rng, Ns, "int16")
                        w = rio_reproject(src, np.full(Nd, -999, dtype="int16"), src_g, dst_g, "nearest", dst_nodata=-999)
                        p_img = do_paste(src, Nd, r, r.transform.back.linear, -999)
                        xx, yy = c03.centres(Nd)
                        qx, qy = c03.apply_np(faff(Mx), xx, yy)
                        edge = (np.abs(qx - np.round(qx)) < 1e-6) | (np.abs(qy - np.round(qy)) < 1e-6)
                        drift, has_res = drift_of(faff(Mx), rs, Nd)
                        if ((p_img != w) & ~edge).any() and not (has_res and drift >= Fraction(1, 2)):
                            return {"key": "paste-differs-from-warp", "case": case,
                                    "what": f"{int(((p_img != w) & ~edge).sum())} pixels differ; roi_src={r.roi_src} roi_dst={r.roi_dst}"}
    # grids sharing a rotation / shear (off-diagonal rounding dust), every calling convention
    for i in range(150):
        Ns, Nd = (rng.randint(4, 24), rng.randint(4, 24)), (rng.randint(3, 20), rng.randint(3, 20))
        S, Mx, _ = shared_rotation_pair(rng, Ns, Nd)
        D = S * Mx
        src_g, dst_g = GeoBox(wh_(Ns[1], Ns[0]), S, CRS0), GeoBox(wh_(Nd[1], Nd[0]), D, CRS0)
        conv = i % 3 == 0
        case = {"fn": "compute_reproject_roi", "src_shape": Ns, "dst_shape": Nd, "src_affine": list(S)[:6],
                "dst_affine": list(D)[:6], "ttol": 0.05, "stol": 1e-3, "crs": CRS0, "dtype": "int16", "positional": conv}
        try:
            r = c03.call_plan(O, conv, src_g, dst_g, ttol=0.05, stol=1e-3)
        except Exception as ex:  # pylint: disable=broad-except
            return {"key": "plan-raises", "case": case, "what": f"{type(ex).__name__}: {ex}"}
        if not (r.paste_ok and r.read_shrink == 1):
            continue
        (ys, xs), (yd, xd) = r.roi_src, r.roi_dst
        if (ys.stop - ys.start, xs.stop - xs.start) != (yd.stop - yd.start, xd.stop - xd.start):
            return {"key": "paste-roi-shape-mismatch", "case": case, "what": f"roi_src={r.roi_src} roi_dst={r.roi_dst}"}
        src = make_src(rng, Ns, "int16")
        w = rio_reproject(src, np.full(Nd, -999, dtype="int16"), src_g, dst_g, "nearest", dst_nodata=-999)
        p_img = do_paste(src, Nd, r, r.transform.back.linear, -999)
        A6 = fmul(finv(faff(S)), faff(D))
        xx, yy = c03.centres(Nd)
        qx, qy = c03.apply_np(A6, xx, yy)
        edge = (np.abs(qx - np.round(qx)) < 1e-6) | (np.abs(qy - np.round(qy)) < 1e-6)
        if ((p_img != w) & ~edge).any():
            return {"key": "paste-differs-from-warp", "case": case,
                    "what": f"{int(((p_img != w) & ~edge).sum())} pixels differ; roi_src={r.roi_src} roi_dst={r.roi_dst}"}
    return None


def replay(R: Run, rec) -> int:
    O, M, GeoBox, wh_, rio_reproject = _import()
    case = rec.get("case") or {}
    key = rec.get("key", "")
    print("replay case:", case)
    if case.get("fn") == "_can_paste":
        A = Affine(*case["A"])
        print("_can_paste ->", c03.call_private(O, "_can_paste", A, stol=case["stol"], ttol=case["ttol"]))
        return 1
    if case.get("fn") == "mosaic":
        from ast import literal_eval

        def val(t):
            return float("nan") if t == "nan" else literal_eval(t)

        dt, ds, nb = case["dtype"], tuple(case["dst_shape"]), case["bands"]
        sn, dn = val(case["src_nodata"]), val(case["dst_nodata"])
        D = Affine(*case["dst_affine"])
        dst_g = GeoBox(wh_(ds[1], ds[0]), D, case["crs"])
        pre = [content_src(R.rng, ds, dt, sn, dn) for _ in range(max(1, nb))]
        wlay = case.get("layout", "own")
        ydim0 = wlay == "ydim0"
        if nb:
            W = np.stack(pre)
            Wcall = np.moveaxis(W, 0, -1) if ydim0 else W
        else:
            W = dst_alloc(R.rng, pre[0], wlay)[0]
            Wcall = W
        E, COL = [p_.copy() for p_ in pre], [None] * max(1, nb)
        for st in case["steps"]:
            ss = tuple(st["src_shape"])
            src_g = GeoBox(wh_(ss[1], ss[0]), Affine(*st["src_affine"]), case["crs"])
            r = O.compute_reproject_roi(src_g, dst_g)
            srcs = [content_src(R.rng, ss, dt, sn, dn) for _ in range(max(1, nb))]
            s_in = (np.moveaxis(np.stack(srcs), 0, -1) if ydim0 else np.stack(srcs)) if nb else srcs[0]
            rio_reproject(s_in, Wcall, src_g, dst_g, "nearest", src_nodata=sn, dst_nodata=dn,
                          init_dest_nodata=st["init_dest_nodata"], **({"ydim": 0} if ydim0 else {}))
            for b_ in range(max(1, nb)):
                E[b_], COL[b_] = ref_paste_into(E[b_], srcs[b_], r, r.transform.back.linear, sn, dn, st["init_dest_nodata"], COL[b_])
        Es = np.stack(E) if nb else E[0]
        W = np.array(W)
        neq = ~((Es == W) | ((Es != Es) & (W != W)))
        cm = np.stack(COL) if nb else COL[0]
        other = neq & ~cm
        print(f"{int(neq.sum())} of {neq.size} pixels differ between sequential warps and sequential pastes "
              f"({int(other.sum())} of them are not valid-pixel-equals-dst-nodata collisions)")
        return 1 if (other.any() if key == "mosaic-warp-differs-from-paste" else neq.any()) else 0
    if case.get("fn") == "resampling_s2rio":
        from odc.geo.warp import resampling_s2rio

        try:
            print("resampling_s2rio ->", repr(resampling_s2rio(case["name"]))[:80])
            return 1
        except ValueError:
            print("ValueError")
            return 0
    if case.get("fn") in ("warp_affine", "rio_reproject", "rio_reproject-nd"):
        from odc.geo import warp as W

        dt, nanc = case["dtype"], case["nan_code"]
        isf = dt.startswith("float")

        def arr(data, shape):
            a = np.array(data, dtype="float64").reshape(shape)
            if isf:
                a[a == nanc] = np.nan
            return a.astype(dt)

        def val(v):
            return None if v is None else (bool(v) if dt == "bool" else (float("nan") if (isf and v == nanc) else v))

        ss, ds, A = tuple(case["src_shape"]), tuple(case["dst_shape"]), Affine(*case["A"])
        src, dst = arr(case["src"], ss), arr(case["dst"], ds)
        kw = dict(src_nodata=val(case["src_nodata"]), dst_nodata=val(case["dst_nodata"]), init_dest_nodata=case["init_dest_nodata"])
        if case["fn"] == "rio_reproject-nd":
            yd = len(ss) - 2 if case["ydim"] is None else case["ydim"]
            s_g = GeoBox(wh_(ss[yd + 1], ss[yd]), Affine.identity(), CRS0)
            d_g = GeoBox(wh_(ds[yd + 1], ds[yd]), A, CRS0)
            got = dst.copy()
            try:
                rio_reproject(src, got, s_g, d_g, "nearest", **kw, **({} if case["ydim"] is None else {"ydim": case["ydim"]}))
            except Exception as ex:  # pylint: disable=broad-except
                print("N-d rio_reproject raises", type(ex).__name__, ex)
                return 1
            want = dst.copy()
            for idx in np.ndindex(*(ss[:yd] + ss[yd + 2:])):
                sel = idx[:yd] + (slice(None), slice(None)) + idx[yd:]
                pl = np.ascontiguousarray(dst[sel])
                rio_reproject(np.ascontiguousarray(src[sel]), pl, s_g, d_g, "nearest", **kw)
                want[sel] = pl
            bad = not _same(got, want)
            print("N-d result", "differs from" if bad else "equals", "the plane-by-plane 2-D warps")
            return 1 if bad else 0
        got = dst.copy()
        if case["fn"] == "warp_affine":
            W.warp_affine(src, got, A, "nearest", **kw)
        else:
            rio_reproject(src, got, GeoBox(wh_(ss[1], ss[0]), Affine.identity(), CRS0), GeoBox(wh_(ds[1], ds[0]), A, CRS0), "nearest", **kw)
        print(case["fn"], "->", got.tolist())
        fill_ = case["dst_nodata"] if case["dst_nodata"] is not None else (
            (nanc if case["fn"] == "rio_reproject" else (case["src_nodata"] if case["src_nodata"] is not None else 0)) if isf
            else (case["src_nodata"] if case["src_nodata"] is not None else 0))
        es = np.array(case["src"], dtype="int64").reshape(ss)
        ref = np.full(ds, fill_, dtype="int64") if case["init_dest_nodata"] else np.array(case["dst"], dtype="int64").reshape(ds)
        a6 = faff(A)
        for iy in range(ds[0]):
            for ix in range(ds[1]):
                qx = a6[0] * Fraction(2 * ix + 1, 2) + a6[1] * Fraction(2 * iy + 1, 2) + a6[2]
                qy = a6[3] * Fraction(2 * ix + 1, 2) + a6[4] * Fraction(2 * iy + 1, 2) + a6[5]
                if 0 <= qx < ss[1] and 0 <= qy < ss[0]:
                    v_ = int(es[math.floor(qy), math.floor(qx)])
                    if case["src_nodata"] is None or v_ != case["src_nodata"]:
                        ref[iy, ix] = v_
        g_ = np.where(np.isnan(got), nanc, got).astype("int64") if isf else got.astype("int64")
        print("nearest-neighbour reference:", ref.tolist())
        return 1 if (g_ != ref).any() else 0
    if case.get("fn") != "compute_reproject_roi":
        return 0
    from odc.geo.crs import CRS

    ss, ds = tuple(case["src_shape"]), tuple(case["dst_shape"])
    S, D = Affine(*case["src_affine"]), Affine(*case["dst_affine"])
    mk_crs = lambda k_: None if (k_ in case and case[k_] is None) else CRS(case.get(k_, case.get("crs", CRS0)))  # noqa: E731
    ca, cb = mk_crs("src_crs"), mk_crs("dst_crs")
    if ca is not None and cb is not None:
        c03.apply_history(case.get("history", []), ca, cb)
    src_g, dst_g = GeoBox(wh_(ss[1], ss[0]), S, ca), GeoBox(wh_(ds[1], ds[0]), D, cb)
    try:
        r = c03.call_plan(O, case.get("positional", False), src_g, dst_g, ttol=case.get("ttol", 0.05), stol=case.get("stol", 1e-3),
                          padding=case.get("padding"), align=case.get("align"))
    except Exception as ex:  # pylint: disable=broad-except
        print("raises", type(ex).__name__, ex)
        return 0 if (ca is None or cb is None) else 1
    if key in ("paste-ok-for-different-crs", "crs-sameness-misjudged"):
        print("paste_ok", r.paste_ok, "planned as same-CRS pair:", r.transform.linear is not None)
        return 1 if (r.paste_ok or r.transform.linear is not None) else 0
    print("roi_src", r.roi_src, "roi_dst", r.roi_dst, "paste_ok", r.paste_ok, "read_shrink", r.read_shrink)
    if case.get("overview") and r.paste_ok and r.read_shrink > 1:
        k = int(r.read_shrink)
        (ys, xs), (yd, xd) = r.roi_src, r.roi_dst
        law = (all(v % k == 0 for v in (ys.start, ys.stop, xs.start, xs.stop))
               and ((ys.stop - ys.start) // k, (xs.stop - xs.start) // k) == (yd.stop - yd.start, xd.stop - xd.start))
        print("roi_src = read_shrink x overview block of the shape of roi_dst:", law)
        if not law:
            return 1
        A = r.transform.back.linear
        ov_g = src_g.zoom_out(k)
        ov = make_src(R.rng, tuple(ov_g.shape), "int16")
        w = rio_reproject(ov, np.full(ds, -999, dtype="int16"), ov_g, dst_g, "nearest", dst_nodata=-999)
        blk = ov[ys.start // k:ys.stop // k, xs.start // k:xs.stop // k]
        if A.e < 0:
            blk = blk[::-1, :]
        if A.a < 0:
            blk = blk[:, ::-1]
        p_img = np.full(ds, -999, dtype="int16")
        p_img[r.roi_dst] = blk
        neq = p_img != w
        print(f"{int(neq.sum())} of {neq.size} pixels differ between the pasted overview block and the nearest-neighbour warp of the "
              f"whole {k}-fold overview")
        return 1 if neq.any() else 0
    if not (r.paste_ok and r.read_shrink == 1):
        return 1 if key in ("paste-ok-outside-tolerance", "shrink-roi-not-scaled") else 0
    dt = case.get("dtype", "int16")
    nodata = NODATA[dt]
    src = make_src(R.rng, ss, dt)
    p = do_paste(src, ds, r, r.transform.back.linear, nodata)
    rc = 0
    for lay in sorted(set(DST_LAYOUTS)):
        w, prob, _ = warp_nearest(rio_reproject, R.rng, src, np.full(ds, nodata, dtype=dt), src_g, dst_g, None, nodata, lay=lay)
        neq = ~((p == w) | ((p != p) & (w != w)))
        print(f"destination layout {lay}: {int(neq.sum())} of {neq.size} pixels differ between the pasted image and "
              f"rio_reproject nearest" + (f"; {prob}" if prob else ""))
        rc = 1 if (neq.any() or prob) else rc
    return rc
