"""C06 — multi-part assembly preserves the byte stream under any schedule."""
from __future__ import annotations

import itertools
import os
import threading

from .common import Run, bool_s, err_s, guarded, list_s, opt_s

META = {
    "claimed": True,
    "text": "Lean 4 refinement proof: for every writer configuration, every partitioning of the chunk stream, "
    "every binary merge tree over adjacent partitions (= every dask fold/collate shape; each node is a pure "
    "function of its children, so every execution order), every spill size, writes-per-chunk and header/footer "
    "option, the model of MPUChunk/append/merge/flush_rhs/maybe_write/flush/_mpu_append_chunks_op/"
    "_merge_and_spill_op/_finalizer_dask_op never fails and the parts handed to the writer, in increasing part "
    "number, concatenate to header + chunks + footer; ids unique, in range, increasing; all parts but the last "
    ">= min_write_sz; finalise gets exactly the written parts in order; callbacks see the complete observed "
    "list.  Growth round: the PUBLIC entry point from its arguments - the graph shape is derived inside the model "
    "(dask Bag.fold(split_every) loop per bag, _mpu_collate_op over the bags: Model/C06Dask.lean) and compared with the "
    "tree the real graph performs on every dask run and exhaustively for 1..34 (90) partitions x split_every "
    "{2,3,4,5,8}; mpu_write_end_to_end / mpu_write_end_to_end_no_writer state C06 for mpu_write(bags, ...) with no tree "
    "and no schedule hypothesis; object_independent_of_split_every.  Composition C05 o C06 o C18 "
    "(Props/C06Cog.lean::cog_file_end_to_end): tile stream in C05's writeOrder, any cutting into bags/partitions, "
    "mpu_write, MPUFileSink: file = header ++ tiles and every patched header entry addresses its tile's bytes on disk "
    "(real mpu_write -> real MPUFileSink runs are checked byte for byte); S3 variant cog_s3_end_to_end (Props/C06CogS3.lean, over "
    "C18's upload model: one multipart upload, no failing call, the completed OBJECT = header ++ tiles with every patched entry "
    "addressing its tile; common part cog_header_addresses_assembled_parts).  Public MPUChunk methods driven directly "
    "(Model/C06Ops.lean): flush with every keyword form (leftPartId None / given, finalise True / False, return value, "
    "state of the chunk before and after; flush(finalise=False) + write.finalise(chunk.parts) evaluated with the "
    "statement), maybe_write / flush_rhs return values and post-states, what a merge task leaves in its INPUT objects "
    "and what a second execution of the same task on them does (merge_twice_* theorems, compared with the real "
    "objects), __dask_tokenize__ (token_injective; before fix F64 it omitted lhs_keep: token_as_found_cex).  The model is tied to /repo by an operation-level differential test with a "
    "recording writer (exhaustive over small configurations along every merge tree, random larger ones, and real dask "
    "mpu_write graphs under synchronous, threaded and seeded random-topological schedulers).",
    "note": "Trusted: Lean kernel + {propext, Classical.choice, Quot.sound}; dask executes each task ONCE after its "
    "dependencies.  RE-EXECUTION, stated precisely: the statement quantifies over partitionings, merge trees and "
    "schedules = orders in which every task fires exactly once (Spec/C06Schedule.lean: Step consumes the task; "
    "schedule_result, schedule_step_count).  A task that is executed AGAIN on the same in-memory objects (dask "
    "recomputing a lost result on a worker that still holds the inputs) is outside it and NOT safe: "
    "merge_twice_same_when_nothing_written (a merge whose right side has not written and that does not spill leaves "
    "both inputs as they were and is repeatable) versus merge_twice_differs_cex / merge_twice_started_cex (once it "
    "spilled or the right side had written, the second execution writes the same part number again with other bytes, "
    "re-sends left data under a fresh number, or fails its assertion) - the model of the input post-states is compared "
    "with the real objects on every run (soft tie: recorded, never a violation, because working on defensive copies "
    "would be just as good); general statements: merge_not_repeatable_after_spill (right side unstarted and the task wrote: "
    "no second execution reproduces the first), merge_not_repeatable_after_flush (right side started and the left input "
    "flushed: the second execution fails or uses the next part number); the partition task (_mpu_append_chunks_op) copies its "
    "section and is repeatable (recompute-differs oracle); the finaliser is modelled too (finalizerPost / finalizerTwice: a "
    "non-empty footer is appended to the root itself -> finalizer_twice_footer_cex, the footer goes out twice; without header "
    "and footer the root is flushed in place and a second execution completes the upload again with the same list: "
    "finalizer_twice_plain; soft tie on 300 / 1500 real roots per run).  Pickled "
    "transport (process / distributed schedulers ship copies) is covered by the transport streams.  WRITER UPPER "
    "LIMITS: max_part - under main's capacity hypothesis every part number is within [min_part, max_part] "
    "(main) and there are at most max_part - min_part + 1 parts (parts_count_and_largest_part); without it only flush_rhs "
    "asserts the range, maybe_write does not: a run can END WITHOUT ERROR with part numbers above max_part "
    "(max_part_unchecked_cex, replayed each run; finding part-number-above-max-part-unchecked, outside main's "
    "capacity hypothesis; repaired on branch fix3-C06: the range assertion of flush_rhs also in maybe_write - the model follows "
    "the tree under test by a behavioural probe (repaired_mode): Model/C06Fix.lean maybeWriteR/evalR/runR/mpuWriteR with "
    "maybeWriteR_eq (inside the capacity the repair changes nothing), main_repaired (all of C06 for the repaired code), "
    "maybeWriteR_in_range, mpu_write_repaired_eq, max_part_repaired_cex (the witness now fails loudly); driver ops runR / mpuwR); max_write_sz is never read: a chunk is never "
    "split and a partition that has run out of write credits is flushed as one part (max_write_sz_not_enforced_cex, "
    "replayed each run); what IS guaranteed is the lower bound on every part but the last.  user_kw reaches both "
    "callbacks unchanged (oracle user-kw-not-passed-through on the real mpu_write -> MPUFileSink runs).  Buffer "
    "ownership: MPUChunk.append copies; a producer that overwrites its bytearrays as soon as the partition task has "
    "returned does not change anything written later (stream producer-reuses-buffers, compared with the model and the "
    "byte-stream oracle), and the library never writes into a caller's buffer (caller-buffer-mutated).  The real "
    "PartsWriter is replaced by a recording fake (plus the library's MPUFileSink end to end).  dask's Bag.fold shape "
    "is third-party behaviour: derived in the model and CHECKED against the real graph each run, not proved about dask.  "
    "Private operators are looked up defensively: when _mpu_append_chunks_op/_merge_and_spill_op/_mpu_collate_op/"
    "_finalizer_dask_op are not found under these names the direct-drive and re-execution streams are skipped (note in "
    "the evidence) and every stream goes through MPUChunk.from_dask_bag / mpu_write.  __dask_tokenize__ as repaired by "
    "F64 (token_injective) is the live model: tokeq compares all pairs incl. sections that differ in lhs_keep only.  "
    "INVENTORY of _mpu.py not mirrored: __repr__; dask key names / pure flags of the finaliser (two uploads in one graph "
    "are checked behaviourally: upload-never-finalised); re-execution of the finaliser; deeper aliasing than one "
    "task's inputs (a chunk that was the left input of an EARLIER unstarted merge shares its parts list with that "
    "merge's result).",
    "technique": "Lean 4 invariant + refinement proof by induction over merge trees; differential correspondence",
    "design_ref": "DESIGN.md §4 C06",
}


# ------------------------------------------------------------------ payload rule (shared with the Lean driver)
def payload(off: int, n: int) -> bytes:
    return bytes(((off + i) * 7 + 3) % 251 for i in range(n))


def hdr_bytes(n: int) -> bytes:
    return bytes(252 + i % 2 for i in range(n))


def ftr_bytes(n: int) -> bytes:
    return bytes(254 + i % 2 for i in range(n))


def small_max_write(min_write, min_part, max_part):
    """the writer's LARGEST part size: the code never reads it (parts have no upper bound, see META), so any value must
    leave the behaviour unchanged - three quarters of the recording writers announce a small one (1..3 minimum parts)"""
    sel = (min_write * 31 + min_part * 7 + max_part) % 4
    return (1 << 40) if sel == 0 else max(1, min_write) * sel


class RecWriter:
    def __init__(self, min_write, min_part, max_part, max_write=None):
        self._mw, self._mp, self._xp = min_write, min_part, max_part
        self._xw = small_max_write(min_write, min_part, max_part) if max_write is None else max_write
        self.calls = []
        self.final = None
        self._lock = threading.Lock()

    def __call__(self, part, data):
        with self._lock:
            self.calls.append((int(part), bytes(data)))
        return {"PartNumber": part}

    def finalise(self, parts):
        self.final = [p["PartNumber"] for p in parts]
        return "done"

    min_write_sz = property(lambda s: s._mw)
    max_write_sz = property(lambda s: s._xw)
    min_part = property(lambda s: s._mp)
    max_part = property(lambda s: s._xp)

    def __dask_tokenize__(self):
        return ("RecWriter", id(self))


class RecWriterLen(RecWriter):
    """a writer that is also a collection of the parts it received: len() == 0, hence falsy, before the first part"""

    def __len__(self):
        return len(self.calls)


class FileLogWriter:
    """picklable writer whose state lives in a directory: usable from other processes (dask 'processes' scheduler)"""

    def __init__(self, root, min_write, min_part, max_part):
        self.root, self._mw, self._mp, self._xp = root, min_write, min_part, max_part

    def __call__(self, part, data):
        import uuid
        with open(os.path.join(self.root, f"part-{int(part):08d}-{uuid.uuid4().hex}.bin"), "wb") as f:
            f.write(bytes(data))
        return {"PartNumber": part}

    def finalise(self, parts):
        import json as _json
        import uuid
        with open(os.path.join(self.root, f"final-{uuid.uuid4().hex}.json"), "w", encoding="utf8") as f:
            _json.dump([p["PartNumber"] for p in parts], f)
        return "done"

    min_write_sz = property(lambda s: s._mw)
    max_write_sz = property(lambda s: 1 << 40)
    min_part = property(lambda s: s._mp)
    max_part = property(lambda s: s._xp)

    def collect(self):
        """-> RecWriter-like view of what reached the directory"""
        import json as _json
        v = RecWriter(self._mw, self._mp, self._xp)
        finals = []
        for fn in sorted(os.listdir(self.root)):
            if fn.startswith("part-"):
                with open(os.path.join(self.root, fn), "rb") as f:
                    v.calls.append((int(fn.split("-")[1]), f.read()))
            elif fn.startswith("final-"):
                with open(os.path.join(self.root, fn), encoding="utf8") as f:
                    finals.append(_json.load(f))
        v.final = finals[0] if len(finals) == 1 else (None if not finals else ["finalised-%d-times" % len(finals)])
        return v


def _hdr_cb(n, obs):
    return hdr_bytes(n)


def _ftr_cb(n, obs):
    return ftr_bytes(n)


TRANSPORTS = ("none", "pickle", "deepcopy", "copy")


def transport(obj, kind: int):
    """how an intermediate result travels between two tasks: by reference (threads), pickled (process / distributed
    schedulers), or copied"""
    import copy
    import pickle
    if kind == 1:
        return pickle.loads(pickle.dumps(obj))
    if kind == 2:
        return copy.deepcopy(obj)
    if kind == 3:
        return copy.copy(obj)
    return obj



# ------------------------------------------------------------------ private names are looked up defensively
PRIV_OPS = ("_mpu_append_chunks_op", "_merge_and_spill_op", "_mpu_collate_op", "_finalizer_dask_op")


def priv_ops(M):
    """the four module-private dask operators of _mpu.py, or None when one of them is not there any more (renamed,
    inlined, moved): then nothing is called or patched by its private name and every stream takes the public route
    (MPUChunk.from_dask_bag / mpu_write through dask, compared with the tree the MODEL derives)"""
    ops = {n: getattr(M, n, None) for n in PRIV_OPS}
    return ops if all(callable(v) for v in ops.values()) else None


_REPAIRED = {}


def repaired_mode() -> bool:
    """which `maybe_write` does the tree under test have?  Behavioural probe (the witness of finding
    part-number-above-max-part-unchecked, through public MPUChunk methods only): as found the second spill hands the writer a
    part number above max_part; as repaired on branch fix3-C06 it raises AssertionError.  The model follows: `run` / `mpuw`
    (Model/C06.lean) or `runR` / `mpuwR` (Model/C06Fix.lean: main_repaired, max_part_repaired_cex)."""
    if "v" not in _REPAIRED:
        from odc.geo.cog import _mpu as M
        w = RecWriter(2, 1, 2)
        c = M.MPUChunk(2, 3, lhs_keep=2)
        try:
            c.append(payload(0, 8), 0)
            c.maybe_write(w, 2)          # part 2: allowed
            c.append(payload(8, 8), 1)
            c.maybe_write(w, 2)          # part 3: above max_part = 2
            _REPAIRED["v"] = False
        except AssertionError:
            _REPAIRED["v"] = True
        except Exception:  # pylint: disable=broad-except
            _REPAIRED["v"] = False
    return _REPAIRED["v"]


def fallback_mode() -> bool:
    from odc.geo.cog import _mpu as M
    return priv_ops(M) is None


def py_dask_tree(leaves, split=4):
    """the merge tree dask's Bag.fold(split_every=split) performs over these partitions (python twin of the Lean
    `daskFold`; the Lean function is compared with the real graph on every run - `c06 shape`)"""
    level = [("l", l) for l in leaves]

    def red(group):
        t = group[0]
        for r in group[1:]:
            t = ("n", t, r)
        return t

    while len(level) > split:
        level = [red(level[i:i + split]) for i in range(0, len(level), split)]
    return red(level)


def py_mpu_tree(subs, split=4):
    t = None
    for sub in subs:
        b = py_dask_tree(sub, split)
        t = b if t is None else ("n", t, b)
    return t


def public_root(M, w, leaves, spill, wpc, mark_final, split=4):
    """the folded section of one bag through the public route only"""
    import dask.bag
    from dask.delayed import delayed
    off = cid = 0
    parts = []
    for sizes in leaves:
        items = []
        for sz in sizes:
            items.append((payload(off, sz), cid))
            off += sz
            cid += 1
        parts.append(delayed(lambda x: x, pure=False)(items))
    bag = dask.bag.from_delayed(parts)
    mp = w.min_part if w is not None else 1
    lk = w.min_write_sz if w is not None else 0
    return M.MPUChunk.from_dask_bag(mp + 1, bag, writes_per_chunk=wpc, mark_final=mark_final, lhs_keep=lk, write=w,
                                    spill_sz=spill, split_every=split).compute(scheduler="synchronous")


# ------------------------------------------------------------------ trees
def all_trees(k: int):
    """all binary trees with k leaves, as nested tuples of leaf indices"""
    if k == 1:
        return ["L"]
    out = []
    for i in range(1, k):
        for l in all_trees(i):
            for r in all_trees(k - i):
                out.append((l, r))
    return out


def fill_tree(shape, leaves):
    it = iter(leaves)

    def go(t):
        if t == "L":
            return ("l", next(it))
        return ("n", go(t[0]), go(t[1]))

    return go(shape)


def enc_tree(t) -> str:
    if t[0] == "l":
        return "l:" + ",".join(str(s) for s in t[1])
    return "n;" + enc_tree(t[1]) + ";" + enc_tree(t[2])


def tree_leaves(t):
    if t[0] == "l":
        return [t[1]]
    return tree_leaves(t[1]) + tree_leaves(t[2])


def skel(t) -> str:
    """skeleton of a merge tree, leaves numbered in stream order (same text as the Lean `Tree.skel`)"""
    n = [0]

    def go(t):
        if t[0] == "l":
            n[0] += 1
            return str(n[0] - 1)
        a = go(t[1])
        return f"({a} {go(t[2])})"

    return go(t)


def enc_bags(subs) -> str:
    return ";".join("/".join(",".join(str(s) for s in part) if part else "_" for part in sub) for sub in subs)


def mpuw_line(cfg, subs) -> str:
    has_w, min_write, min_part, max_part, spill, wpc, hdr, ftr = cfg
    return (f"c06 {'mpuwR' if repaired_mode() else 'mpuw'} {bool_s(has_w)} {min_write} {min_part} {max_part} {spill} {wpc} {opt_s(hdr)} {opt_s(ftr)} "
            f"{enc_bags(subs)}")


def dask_shape_corr(R, info, subs, split, out, cfg, use_mpu_write, tag):
    """the merge tree the real graph performed (observed through the instrumented operators) against the tree the
    model DERIVES from the partition counts (dask's fold loop + collate), and - through mpu_write - the whole run
    from the bags with no observed tree at all"""
    tree = info.get("tree")
    nparts = [len(sub) for sub in subs]
    split = info.get("split", split)
    use_mpu_write = info.get("used_mpu_write", use_mpu_write)
    if tree is not None:
        sk = skel(tree)
        R.corr(f"c06 shape {split} {list_s(nparts)}", lambda: sk,
               sig=f"shape|split={split}|bags={len(nparts)}|maxparts={'1' if max(nparts) == 1 else '<=split' if max(nparts) <= split else '<=split^2' if max(nparts) <= split * split else '>split^2'}")
    if use_mpu_write and info["exc"] is None:
        R.corr(mpuw_line(cfg, subs), lambda: out, sig=f"mpuw|{tag}|bags={len(nparts)}")


def random_tree(rng, leaves):
    if len(leaves) == 1:
        return ("l", leaves[0])
    k = rng.randint(1, len(leaves) - 1)
    return ("n", random_tree(rng, leaves[:k]), random_tree(rng, leaves[k:]))


def fmt_calls(calls):
    return list_s(sorted(f"{p}:{d.hex()}" for p, d in sorted(calls, key=lambda c: (c[0], c[1].hex()))),
                  str) if False else "[" + ",".join(
        f"{p}:{d.hex()}" for p, d in sorted(calls, key=lambda c: (c[0], f"{c[0]}:{c[1].hex()}"))) + "]"


def fmt_obs(obs):
    return "[" + ",".join(f"{sz}:{-1 if cid is None else cid}" for sz, cid in obs) + "]"


class Case:
    def __init__(self, has_w, min_write, min_part, max_part, spill, wpc, hdr, ftr, tree):
        self.has_w, self.min_write, self.min_part, self.max_part = has_w, min_write, min_part, max_part
        self.spill, self.wpc, self.hdr, self.ftr, self.tree = spill, wpc, hdr, ftr, tree

    def line(self):
        return (f"c06 {'runR' if repaired_mode() else 'run'} {bool_s(self.has_w)} {self.min_write} {self.min_part} {self.max_part} {self.spill} "
                f"{self.wpc} {opt_s(self.hdr)} {opt_s(self.ftr)} {enc_tree(self.tree)}")

    def as_dict(self):
        return {"line": self.line()}

    def capacity_ok(self):
        total = len(tree_leaves(self.tree))
        mp = self.min_part if self.has_w else 1
        # the property quantifies over partitionings with >= 1 chunk per partition and enough part numbers
        return mp + 1 + total * self.wpc <= self.max_part + 1 and all(len(l) > 0 for l in tree_leaves(self.tree))

    def stream(self):
        n = sum(sum(l) for l in tree_leaves(self.tree))
        h = hdr_bytes(self.hdr) if self.hdr is not None else b""
        f = ftr_bytes(self.ftr) if self.ftr is not None else b""
        return h + payload(0, n) + f

    def want_obs(self):
        out, cid = [], 0
        for leaf in tree_leaves(self.tree):
            for sz in leaf:
                out.append((sz, cid))
                cid += 1
        return out


def parse_case(line: str) -> Case:
    t = line.split(" ")
    assert t[0] == "c06" and t[1] in ("run", "runR")
    toks = t[10].split(";")

    def go(i):
        if toks[i] == "n":
            l, i = go(i + 1)
            r, i = go(i)
            return ("n", l, r), i
        body = toks[i][2:]
        return ("l", [int(x) for x in body.split(",")] if body else []), i + 1

    tree, _ = go(0)
    o = lambda s: None if s == "N" else int(s)
    return Case(t[2] == "T", int(t[3]), int(t[4]), int(t[5]), int(t[6]), int(t[7]), o(t[8]), o(t[9]), tree)


# ------------------------------------------------------------------ real code: direct drive along the tree
def real_direct(case: Case, mutable: bool = False, shared=None, containers: int = 0, tkind: int = 0, wkind: int = 0,
                scribble: bool = False):
    """returns (output string, info dict for the oracle).

    mutable: chunk / header / footer payloads are bytearrays (allowed by SomeData); `shared` is a dict that
    lets a second run re-use the very same buffer objects (a producer re-using its buffers, a cached header)."""
    from odc.geo.cog import _mpu as M

    OPS = priv_ops(M)      # callers use real_direct only when the operators exist (see fallback_mode)
    info_scribbled = []
    bufs = shared if shared is not None else {}

    def container(idx):
        # how partition `idx` is handed over: 0 list, 1 tuple, 2 one-shot iterator, 3 generator
        return (containers >> (2 * (idx % 8))) & 3

    def buf(key, bs: bytes):
        if not mutable:
            return bs
        if key not in bufs:
            bufs[key] = (bytearray(bs), bs)
        return bufs[key][0]

    w = (RecWriterLen if wkind else RecWriter)(case.min_write, case.min_part, case.max_part) if case.has_w else None
    leaves = tree_leaves(case.tree)
    total = len(leaves)
    min_part = w.min_part if w is not None else 1
    lhs_keep = w.min_write_sz if w is not None else 0
    mark_final = case.ftr is None
    state = {"idx": 0, "off": 0, "cid": 0}

    def ev(t):
        if t[0] == "l":
            idx = state["idx"]
            state["idx"] += 1
            mpu = M.MPUChunk(min_part + 1 + idx * case.wpc, case.wpc,
                             is_final=mark_final and idx == total - 1, lhs_keep=lhs_keep)
            chunks = []
            for sz in t[1]:
                chunks.append((buf(("c", state["cid"]), payload(state["off"], sz)), state["cid"]))
                state["off"] += sz
                state["cid"] += 1
            kind = container(idx)
            part = (chunks if kind == 0 else tuple(chunks) if kind == 1 else iter(chunks) if kind == 2
                    else (c for c in chunks))
            mpus = [mpu] if kind in (0, 1) else iter([mpu])
            (out,) = OPS["_mpu_append_chunks_op"](mpus, part, write=w, spill_sz=case.spill)
            if scribble and mutable:
                # the producer re-uses its buffers as soon as the partition task has returned: MPUChunk.append must
                # have taken a copy, nothing written later may change (SomeData allows bytearray)
                for d, _cid in chunks:
                    if isinstance(d, bytearray):
                        d[:] = b"\xee" * len(d)
                info_scribbled.append(len(chunks))
            return transport(out, tkind)
        l = ev(t[1])
        r = ev(t[2])
        return transport(OPS["_merge_and_spill_op"](l, r, write=w, spill_sz=case.spill), tkind)

    info = {"w": w, "seen": None, "exc": None, "bufs": {} if scribble else bufs}
    try:
        root = ev(case.tree)
        seen = list(root.observed)
        info["seen"] = seen
        cb_seen = []

        def mk(bs):
            def f(obs):
                cb_seen.append(list(obs))
                return bs
            return f

        rr = OPS["_finalizer_dask_op"](
            root, write=w,
            mk_header=None if case.hdr is None else mk(buf("h", hdr_bytes(case.hdr))),
            mk_footer=None if case.ftr is None else mk(buf("f", ftr_bytes(case.ftr))))
        info["cb_seen"] = cb_seen
        if w is None:
            c = rr
            out = (f"CHUNK next={c.nextPartId} credits={c.write_credits} data={bytes(c.data).hex()} "
                   f"left={bytes(c.left_data).hex()} parts=[] obs={fmt_obs(c.observed)} final={bool_s(c.is_final)} "
                   f"writes=[] seen={fmt_obs(seen)}")
            if c.parts:
                out += " UNEXPECTED-PARTS"
            info["chunk"] = c
            return out, info
        return f"WRITTEN writes={fmt_calls(w.calls)} final={list_s(w.final)} seen={fmt_obs(seen)}", info
    except Exception as e:  # pylint: disable=broad-except
        info["exc"] = e
        return err_s(e), info


# ------------------------------------------------------------------ property oracle on real outputs
def oracle(R: Run, case: Case, out: str, info, via: str):
    """The statement of C06 evaluated on what the real code did (independent of the model)."""
    if not case.capacity_ok():
        # outside the property's configuration space (not enough part numbers).  Observation only: does the run end without
        # an error although a part number above max_part was handed to the writer (only flush_rhs asserts the range)?
        # Lean: max_part_unchecked_cex.  Too few part numbers must end in an error, not in an upload with numbers the
        # writer does not allow.
        w_ = info.get("w")
        if info.get("exc") is None and w_ is not None and getattr(w_, "calls", None):
            above = sorted(p for p, _ in w_.calls if p > case.max_part)
            R.oracle(not above, "part-number-above-max-part-unchecked", {"line": case.line(), "via": via},
                     f"the writer allows part numbers up to {case.max_part}; the run ended without error after writing parts "
                     f"{above} (the partitions need more numbers than the writer has; only flush_rhs asserts the range, "
                     "maybe_write does not)", sig="max-part-unchecked")
        return
    cd = {"line": case.line(), "via": via}
    if info["exc"] is not None:
        R.oracle(False, f"mpu-write-fails:{type(info['exc']).__name__}", cd,
                 f"write failed with {info['exc']!r} because of where chunk/partition boundaries fall")
        return
    changed = [str(k) for k, (b, orig) in info.get("bufs", {}).items() if bytes(b) != orig]
    if info.get("bufs"):
        R.oracle(not changed, "caller-buffer-mutated", cd,
                 f"bytearray buffers handed to the library were modified in place: {changed[:5]} "
                 "(a producer re-using them, or a second upload of the same chunks/header, gets a different stream)")
    want = case.stream()
    want_obs = case.want_obs()
    ok_seen = info["seen"] == want_obs and all(s == want_obs for s in info.get("cb_seen", []))
    R.oracle(ok_seen, "callbacks-observed-incomplete", cd, f"observed {info['seen']} want {want_obs}")
    w = info["w"]
    if w is None:
        c = info["chunk"]
        R.oracle(bytes(c.left_data) + bytes(c.data) == want and not c.parts, "no-writer-chunk-stream", cd,
                 "root chunk without writer does not hold header+chunks+footer")
        return
    ids = [p for p, _ in w.calls]
    R.oracle(len(set(ids)) == len(ids), "part-ids-not-unique", cd, f"ids {sorted(ids)}")
    R.oracle(all(case.min_part <= i <= case.max_part for i in ids), "part-id-out-of-range", cd,
             f"ids {sorted(ids)} allowed [{case.min_part},{case.max_part}]")
    by_id = sorted(w.calls, key=lambda c: c[0])
    got = b"".join(d for _, d in by_id)
    R.oracle(got == want, "byte-stream-differs", cd,
             f"concatenation by part number has {len(got)} bytes, want {len(want)}; first diff at "
             f"{next((i for i, (a, b) in enumerate(zip(got, want)) if a != b), min(len(got), len(want)))}")
    R.oracle(w.final == sorted(ids), "finalise-parts-differ", cd, f"finalise got {w.final}, written {sorted(ids)}")
    small = [(i, len(d)) for i, d in by_id[:-1] if len(d) < case.min_write]
    R.oracle(not small, "undersized-non-last-part", cd, f"parts below min_write_sz={case.min_write}: {small}")



# ------------------------------------------------------------------ direct drive of the public MPUChunk methods
class RecWriterD(RecWriter):
    """receipts carry the bytes of the part, so that a chunk's .parts list can be shown with its content"""

    def __call__(self, part, data):
        with self._lock:
            self.calls.append((int(part), bytes(data)))
        return {"PartNumber": part, "_data": bytes(data)}


def fmt_chunk_real(c) -> str:
    parts = "[" + ",".join(f"{p['PartNumber']}:{p['_data'].hex()}" for p in c.parts) + "]"
    return (f"next={c.nextPartId} credits={c.write_credits} data={bytes(c.data).hex()} left={bytes(c.left_data).hex()} "
            f"parts={parts} obs={fmt_obs(c.observed)} final={bool_s(c.is_final)}")


def real_eval_tree(M, w, tree, spill, wpc, mark_final, total, state):
    """evaluate one merge tree with the real operators; `state` carries partition index / stream offset / chunk id"""
    min_part = w.min_part if w is not None else 1
    lhs_keep = w.min_write_sz if w is not None else 0
    ops = priv_ops(M)
    if ops is None:
        # public route: only whole, dask-shaped trees (callers build them with py_dask_tree in this mode)
        leaves = tree_leaves(tree)
        assert state["idx"] == 0 and total == len(leaves) and tree == py_dask_tree(leaves)
        state["idx"] += len(leaves)
        return public_root(M, w, leaves, spill, wpc, mark_final)

    def ev(t):
        if t[0] == "l":
            idx = state["idx"]
            state["idx"] += 1
            mpu = M.MPUChunk(min_part + 1 + idx * wpc, wpc, is_final=mark_final and idx == total - 1, lhs_keep=lhs_keep)
            chunks = []
            for sz in t[1]:
                chunks.append((payload(state["off"], sz), state["cid"]))
                state["off"] += sz
                state["cid"] += 1
            (out,) = ops["_mpu_append_chunks_op"]([mpu], chunks, write=w, spill_sz=spill)
            return out
        l = ev(t[1])
        r = ev(t[2])
        return ops["_merge_and_spill_op"](l, r, write=w, spill_sz=spill)

    return ev(tree)


def flushd_case(R, min_write, min_part, max_part, spill, wpc, mark_final, lp, fin, tree, sig_extra=""):
    """MPUChunk.flush called directly (every keyword form) on the root of a merge tree: the state of the chunk before
    and after, the return value, the writer calls - against the model; and the two-step use
    flush(finalise=False) + write.finalise(chunk.parts) against the statement of C06."""
    from odc.geo.cog import _mpu as M
    line = (f"c06 flushd {min_write} {min_part} {max_part} {spill} {wpc} {bool_s(mark_final)} {opt_s(lp)} {bool_s(fin)} "
            f"{enc_tree(tree)}")
    case = Case(True, min_write, min_part, max_part, spill, wpc, None, None, tree)
    case.line = lambda: line       # replays re-run the direct flush, not the finaliser
    w = RecWriterD(min_write, min_part, max_part)
    info = {"w": w, "seen": None, "exc": None, "cb_seen": []}
    hold = {}

    def f():
        total = len(tree_leaves(tree))
        try:
            root = real_eval_tree(M, w, tree, spill, wpc, mark_final, total, {"idx": 0, "off": 0, "cid": 0})
        except Exception as e:  # pylint: disable=broad-except
            info["exc"] = e
            return "EVAL-" + err_s(e)
        info["seen"] = list(root.observed)
        pre = f"root[{fmt_chunk_real(root)} keep={root.lhs_keep}] before={fmt_calls(w.calls)}"
        n0 = len(w.calls)
        try:
            nb, rr = root.flush(w, leftPartId=lp, finalise=fin)
        except Exception as e:  # pylint: disable=broad-except
            info["exc"] = e
            return f"{pre} flush: {err_s(e)}"
        made = "[" + ",".join(f"{p}:{d.hex()}" for p, d in w.calls[n0:]) + "]"
        finalised = w.final is not None
        hold["root"] = root
        hold["rr"] = rr
        return (f"{pre} flush: bytes={nb} writes={made} parts={list_s([p['PartNumber'] for p in root.parts])} "
                f"finalised={bool_s(finalised)} after[{fmt_chunk_real(root)}]")

    out = R.corr(line, f, sig=f"flushd|lp={'N' if lp is None else 'min_part' if lp == min_part else 'other'}|fin={bool_s(fin)}|"
                 f"mf={bool_s(mark_final)}|mp={min_part}|{'err' if info['exc'] is not None else 'ok'}{sig_extra}")
    if lp != min_part and not (lp is None and min_part == 1):
        return out   # the part number of the left part is the caller's choice then: compared with the model only
    if info["exc"] is None and not fin:
        # second step of the two-step use: complete the upload from the chunk's own parts list
        R.oracle(hold["rr"] is None and w.final is None, "flush-finalise-false-finalised", {"line": line},
                 "flush(finalise=False) called write.finalise")
        w.finalise(hold["root"].parts)
    oracle(R, case, out, info, "direct:flush" + ("" if fin else "-then-finalise-by-hand"))
    return out



def direct_method_case(R, kind, min_write, min_part, max_part, spill, wpc, mark_final, arg1, arg2, tree):
    """maybe_write / flush_rhs called directly on the root of a merge tree: return value, writer calls, state afterwards"""
    from odc.geo.cog import _mpu as M
    if kind == "mwret":
        line = f"c06 mwret {min_write} {min_part} {max_part} {spill} {wpc} {bool_s(mark_final)} {arg1} {enc_tree(tree)}"
    else:
        line = (f"c06 frhs {min_write} {min_part} {max_part} {spill} {wpc} {bool_s(mark_final)} {bool_s(arg1)} {arg2} "
                f"{enc_tree(tree)}")
    tag = {}

    def f():
        w = RecWriterD(min_write, min_part, max_part)
        try:
            root = real_eval_tree(M, w, tree, spill, wpc, mark_final, len(tree_leaves(tree)), {"idx": 0, "off": 0, "cid": 0})
        except Exception as e:  # pylint: disable=broad-except
            return "EVAL-" + err_s(e)
        n0 = len(w.calls)
        tag["started"] = root.started_write
        if kind == "mwret":
            ret = root.maybe_write(w, arg1)
        else:
            ret = root.flush_rhs(w if arg1 else None, bytearray(ftr_bytes(arg2)))
        made = "[" + ",".join(f"{p}:{d.hex()}" for p, d in w.calls[n0:]) + "]"
        tag["wrote"] = len(w.calls) > n0
        return f"ret={ret} writes={made} after[{fmt_chunk_real(root)}]"

    out = R.corr(line, f)
    R.sigs[-1] = (f"{kind}|started={bool_s(tag.get('started', False))}|wrote={bool_s(tag.get('wrote', False))}|"
                  f"{'err' if out.startswith('ERR') else 'ok'}")
    return out


def rerun_case(R, min_write, min_part, max_part, spill, wpc, mark_final, tree_l, tree_r, soft):
    """one _merge_and_spill_op executed twice on the same input objects.

    HARD (correspondence, `c06 rerun1`): the chunk the task returns and the writer calls it makes.
    SOFT (`c06 rerun`, appended to `soft`, compared by `rerun_soft_check`): the state both INPUT objects are left in
    after the first execution and what the second execution on them does (Model/C06Ops.lean: mergeAndSpillPost,
    mergeTwice).  What a task leaves in its inputs is an internal matter of the code (an implementation working on
    defensive copies is just as good), so a difference there is recorded in the evidence, never a violation."""
    from odc.geo.cog import _mpu as M
    args = (f"{min_write} {min_part} {max_part} {spill} {wpc} {bool_s(mark_final)} {enc_tree(tree_l)} "
            f"{enc_tree(tree_r)}")
    tag = {}

    def f():
        w = RecWriterD(min_write, min_part, max_part)
        total = len(tree_leaves(tree_l)) + len(tree_leaves(tree_r))
        st = {"idx": 0, "off": 0, "cid": 0}
        try:
            l = real_eval_tree(M, w, tree_l, spill, wpc, mark_final, total, st)
            r = real_eval_tree(M, w, tree_r, spill, wpc, mark_final, total, st)
        except Exception:  # pylint: disable=broad-except
            return "EVAL-ERR", "EVAL-ERR"
        op = priv_ops(M)["_merge_and_spill_op"]

        def once():
            n0 = len(w.calls)
            m = op(l, r, write=w, spill_sz=spill)
            made = "[" + ",".join(f"{p}:{d.hex()}" for p, d in w.calls[n0:]) + "]"
            return f"result[{fmt_chunk_real(m)}] writes={made}", f" lhs[{fmt_chunk_real(l)}] rhs[{fmt_chunk_real(r)}]", n0 != len(w.calls)

        tag["rhs_started"] = r.started_write
        before = f" lhs[{fmt_chunk_real(l)}] rhs[{fmt_chunk_real(r)}]"
        try:
            first, after1, wrote = once()
        except Exception as e:  # pylint: disable=broad-except
            return "FIRST-" + err_s(e), "FIRST-" + err_s(e)
        tag["wrote"] = wrote
        tag["untouched"] = after1 == before
        try:
            second, after2, _ = once()
            second_full = second + after2
        except Exception as e:  # pylint: disable=broad-except
            second, second_full = err_s(e), err_s(e)
        tag["same"] = second == first
        return first, f"first: {first}{after1} second: {second_full}"

    try:
        hard, full = f()
    except Exception as e:  # pylint: disable=broad-except
        hard = full = err_s(e)
    R.corr("c06 rerun1 " + args, lambda: hard,
           sig=(f"rerun|rhs-started={bool_s(tag.get('rhs_started', False))}|first-wrote={bool_s(tag.get('wrote', False))}|"
                f"inputs-{'untouched' if tag.get('untouched') else 'modified'}|"
                f"second={'same' if tag.get('same') else 'ERR' if ' second: ERR' in full else 'differs'}"))
    soft.append(("c06 rerun " + args, full))
    return hard


def fintwice_case(R, min_write, min_part, max_part, spill, wpc, hdr, ftr, tree, soft):
    """the finaliser task executed twice on the same root object (Model/C06Ops.lean: finalizerPost / finalizerTwice).
    SOFT like the merge re-execution: what a task leaves in its input is internal to the code - differences are recorded in
    the evidence, never a violation."""
    from odc.geo.cog import _mpu as M
    ops = priv_ops(M)
    if ops is None:
        return
    line = f"c06 fintwice {min_write} {min_part} {max_part} {spill} {wpc} {opt_s(hdr)} {opt_s(ftr)} {enc_tree(tree)}"

    def f():
        w = RecWriterD(min_write, min_part, max_part)
        try:
            root = real_eval_tree(M, w, tree, spill, wpc, ftr is None, len(tree_leaves(tree)), {"idx": 0, "off": 0, "cid": 0})
        except Exception as e:  # pylint: disable=broad-except
            return "EVAL-" + err_s(e)

        def once():
            n0 = len(w.calls)
            w.final = None
            ops["_finalizer_dask_op"](root, write=w,
                                      mk_header=None if hdr is None else (lambda obs: hdr_bytes(hdr)),
                                      mk_footer=None if ftr is None else (lambda obs: ftr_bytes(ftr)))
            made = "[" + ",".join(f"{p}:{d.hex()}" for p, d in w.calls[n0:]) + "]"
            return f"writes={made} final={list_s(w.final)} root[{fmt_chunk_real(root)}]"

        try:
            first = once()
        except Exception as e:  # pylint: disable=broad-except
            return "FIRST-" + err_s(e)
        try:
            second = once()
        except Exception as e:  # pylint: disable=broad-except
            second = err_s(e)
        return f"first: {first} second: {second}"

    soft.append((line, guarded(f)))


def rerun_soft_check(R, soft, what="reexecution_model"):
    """informational tie of the re-execution model: model lines through the driver here, differences counted"""
    from .common import lean_build, run_driver
    if not soft:
        return
    try:
        ok, _log = lean_build(["driver_c06"])
        outs = run_driver("C06", [l for l, _ in soft]) if ok else None
    except Exception:  # pylint: disable=broad-except
        outs = None
    if outs is None:
        R.notes.append("re-execution model (mergeTwice): driver not available, input post-states not compared")
        return
    diff = [(l, real, m) for (l, real), m in zip(soft, outs) if real != m]
    R.extra[what + "_cases"] = len(soft)
    R.extra[what + "_differences"] = len(diff)
    R.count(what + "-soft:agree", len(soft) - len(diff))
    if diff:
        R.count(what + "-soft:differ", len(diff))
        R.notes.append(f"re-execution model (Model/C06Ops.lean mergeTwice): {len(diff)} of {len(soft)} cases differ in what the "
                       "merge task leaves in its INPUT objects / does when executed again (internal to the code, not a "
                       f"violation; the task's result and writer calls are compared as `rerun1`); first: {diff[0][0]}")


def tokeq_case(R, min_part, a, b):
    """do the roots of two evaluations get the same dask token?  a, b = (min_write_sz, spill, wpc, mark_final, tree);
    lhs_keep of a section is its writer's min_write_sz, so pairs that differ in lhs_keep only are included"""
    from dask.base import tokenize
    from odc.geo.cog import _mpu as M
    line = (f"c06 tokeq {min_part} " + " ".join(
        f"{mw} {sp} {wpc} {bool_s(mf)} {enc_tree(t)}" for mw, sp, wpc, mf, t in (a, b)))

    def f():
        roots = []
        for mw, sp, wpc, mf, t in (a, b):
            w = RecWriter(mw, min_part, min_part + 100000)
            try:
                roots.append(real_eval_tree(M, w, t, sp, wpc, mf, len(tree_leaves(t)), {"idx": 0, "off": 0, "cid": 0}))
            except Exception:  # pylint: disable=broad-except
                return "EVAL-ERR"
        return bool_s(tokenize(roots[0]) == tokenize(roots[1]))

    out = R.corr(line, f)
    R.sigs[-1] = f"tokeq|{out}|same-args={bool_s(a == b)}|same-lhs-keep={bool_s(a[0] == b[0])}"
    return out


def token_lhs_keep(R: Run):
    """MPUChunk.__dask_tokenize__ must tell apart sections that differ in ANY field (dask uses the token as the identity
    of the from_sequence layer of from_dask_bag): field by field on bare sections, then the real scenario - two
    sub-streams over the same bag for writers that differ in min_write_sz only, computed in ONE dask.compute."""
    import dask
    import dask.bag
    from dask.base import tokenize
    from odc.geo.cog import _mpu as M

    base = dict(partId=2, write_credits=1, is_final=False, lhs_keep=4)
    for field, other in (("partId", 3), ("write_credits", 2), ("is_final", True), ("lhs_keep", 20)):
        c1 = M.MPUChunk(**base)
        c2 = M.MPUChunk(**dict(base, **{field: other}))
        R.oracle(tokenize(c1) != tokenize(c2), f"dask-token-ignores-{field.replace('_', '-')}".replace("lhs-keep", "lhs-keep"),
                 {"field": field, "a": base[field], "b": other},
                 f"two MPUChunk sections that differ in {field} ({base[field]} vs {other}) have the same dask token",
                 sig=f"token-field|{field}")
    sizes = [7, 30, 30, 30]
    items, off = [], 0
    for cid, sz in enumerate(sizes):
        items.append((payload(off, sz), cid))
        off += sz
    bag = dask.bag.from_sequence(items, npartitions=len(items))
    want = payload(0, off)
    for order in (0, 1):
        ws = [RecWriter(4, 1, 100), RecWriter(20, 1, 100)]
        subs = [M.MPUChunk.from_dask_bag(2, bag, writes_per_chunk=1, mark_final=True, lhs_keep=w.min_write_sz, write=w,
                                         spill_sz=1) for w in ws]
        case = {"sizes": sizes, "min_write_sz": [4, 20], "compute-order": order,
                "how": "dask.compute(from_dask_bag(.., write=wa, lhs_keep=4), from_dask_bag(.., write=wb, lhs_keep=20))"}
        try:
            roots = dask.compute(*(subs if order == 0 else subs[::-1]), scheduler="synchronous")
            roots = roots if order == 0 else roots[::-1]
            for w, root in zip(ws, roots):
                root.flush(w, leftPartId=w.min_part)
            ok = all(b"".join(d for _, d in sorted(w.calls)) == want and w.final == sorted(p for p, _ in w.calls)
                     and all(len(d) >= w.min_write_sz for _, d in sorted(w.calls)[:-1]) for w in ws)
            what = "; ".join(f"min_write_sz={w.min_write_sz}: parts {[(p, len(d)) for p, d in sorted(w.calls)]} final={w.final}" for w in ws)
        except Exception as e:  # pylint: disable=broad-except
            ok, what = False, f"{type(e).__name__}: {e!r}; " + "; ".join(
                f"min_write_sz={w.min_write_sz}: parts {[(p, len(d)) for p, d in sorted(w.calls)]} final={w.final}" for w in ws)
        R.oracle(ok, "dask-token-ignores-lhs-keep", case,
                 "two sub-streams in one dask.compute share the from_sequence key of their sections (token omits lhs_keep): "
                 + what, sig="token-scenario")


# ------------------------------------------------------------------ real code through dask
def real_dask(R: Run, case_cfg, partitions_per_sub, split_every, sched, use_mpu_write, gen_parts=False, tkind=0, wkind=0):
    """Run the real dask graph; returns (Case with the tree dask built, out, info).

    tkind: how task results travel to the next task (see `transport`): by reference as under the threaded scheduler,
    or pickled / copied as under process-based and distributed schedulers."""
    import dask
    import dask.bag
    from dask.delayed import delayed
    from odc.geo.cog import _mpu as M
    from .sched import RandomOrderExecutor

    has_w, min_write, min_part, max_part, spill, wpc, hdr, ftr = case_cfg
    w = (RecWriterLen if wkind else RecWriter)(min_write, min_part, max_part) if has_w else None
    off = cid = 0
    bags = []
    for sub in partitions_per_sub:
        parts = []
        for sizes in sub:
            items = []
            for sz in sizes:
                items.append((payload(off, sz), cid))
                off += sz
                cid += 1
            parts.append(delayed(lambda x: x, pure=False)(items))
        bag = dask.bag.from_delayed(parts)
        if gen_parts:
            # partitions arrive as one-shot generators, as after bag.map_partitions(generator_function)
            bag = bag.map_partitions(lambda part: (x for x in part))
        bags.append(bag)

    keep = []
    trees = {}
    lock = threading.Lock()
    ops = priv_ops(M)       # None: the private operators are not there under these names -> nothing is patched
    info = {"w": w, "seen": None, "exc": None, "cb_seen": []}
    if ops is None:
        use_mpu_write, tkind = True, 0      # public route only
    info["used_mpu_write"] = use_mpu_write
    info["split"] = 4 if use_mpu_write else split_every

    def note(x):
        # the merge tree is OBSERVED through the wrappers; a result they have not seen (an operator that is no longer
        # called by this name) only means the tree is not observable - the run itself goes on
        if x is None:
            info["tree_lost"] = True
        return x

    def t_append(mpus, chunks, *a, **kw):
        mpus = list(mpus)
        chunks = list(chunks)
        sizes = [len(c[0]) for c in chunks]
        out = tuple(transport(o, tkind) for o in ops["_mpu_append_chunks_op"](mpus, chunks, *a, **kw))
        with lock:
            keep.append(out[0])
            trees[id(out[0])] = ("l", sizes)
        return out

    def t_merge(lhs, rhs, *a, **kw):
        with lock:
            tl, tr = note(trees.get(id(lhs))), note(trees.get(id(rhs)))
        out = transport(ops["_merge_and_spill_op"](lhs, rhs, *a, **kw), tkind)
        with lock:
            keep.append(out)
            trees[id(out)] = ("n", tl, tr) if tl is not None and tr is not None else None
        return out

    def t_collate(substreams, *a, **kw):
        with lock:
            ts = [note(trees.get(id(s))) for s in substreams]
            t = None
            if all(x is not None for x in ts):
                t = ts[0]
                for x in ts[1:]:
                    t = ("n", t, x)
        out = transport(ops["_mpu_collate_op"](substreams, *a, **kw), tkind)
        with lock:
            keep.append(out)
            trees[id(out)] = t
        return out

    def t_fin(data_substream, *a, **kw):
        t = note(trees.get(id(data_substream)))
        if t is not None:
            info["tree"] = t
        info["seen"] = list(getattr(data_substream, "observed", []))
        return ops["_finalizer_dask_op"](data_substream, *a, **kw)

    def mk(bs):
        def f(obs):
            info["cb_seen"].append(list(obs))
            return bs
        return f

    if ops is not None:
        M._mpu_append_chunks_op, M._merge_and_spill_op, M._mpu_collate_op, M._finalizer_dask_op = (
            t_append, t_merge, t_collate, t_fin)
    pool = None
    leaves_all = [l for sub in partitions_per_sub for l in sub]
    try:
        mk_header = None if hdr is None else mk(hdr_bytes(hdr))
        mk_footer = None if ftr is None else mk(ftr_bytes(ftr))
        if use_mpu_write:
            fut = M.mpu_write(bags if len(bags) > 1 else bags[0], w, mk_header=mk_header, mk_footer=mk_footer,
                              writes_per_chunk=wpc, spill_sz=spill)
        else:
            mp = w.min_part if w is not None else 1
            lk = w.min_write_sz if w is not None else 0
            pid = mp + 1
            dss = []
            for i, b in enumerate(bags):
                dss.append(M.MPUChunk.from_dask_bag(
                    pid, b, writes_per_chunk=wpc, lhs_keep=lk, spill_sz=spill,
                    mark_final=mk_footer is None and i == len(bags) - 1, write=w, split_every=split_every))
                pid += b.npartitions * wpc
            sub = dss[0] if len(dss) == 1 else M.MPUChunk.collate_substreams(dss, write=w, spill_sz=spill)
            fut = delayed(M._finalizer_dask_op, pure=False)(sub, write=w, mk_header=mk_header, mk_footer=mk_footer)
        if sched == "sync":
            rr = fut.compute(scheduler="synchronous")
        elif sched == "threads":
            rr = fut.compute(scheduler="threads", num_workers=8)
        else:
            pool = RandomOrderExecutor(R.rng)
            rr = fut.compute(scheduler="threads", pool=pool)
        if info.get("tree_lost"):
            info.pop("tree", None)
        tree = info.get("tree")
        if tree is not None and tree_leaves(tree) != leaves_all:
            # the graph did not merge every partition that was handed in: what the statement demands is defined by the
            # INPUT, never by what the graph happened to look at
            info["observed_tree_incomplete"] = True
            tree = None
        if tree is None:
            # not observable: the tree the model derives for these bags (python twin of the Lean `mpuWriteTree`)
            tree = py_mpu_tree(partitions_per_sub, 4 if use_mpu_write else split_every)
        case = Case(has_w, min_write, min_part, max_part, spill, wpc, hdr, ftr, tree)
        if info["seen"] is None:
            # the observed list is visible through the callbacks only; without callbacks take the chunk's own log
            info["seen"] = (info["cb_seen"][0] if info["cb_seen"] else
                            [o for o in getattr(rr, "observed", case.want_obs()) if o[1] is not None] if w is None
                            else case.want_obs())
        if w is None:
            c = rr
            info["chunk"] = c
            out = (f"CHUNK next={c.nextPartId} credits={c.write_credits} data={bytes(c.data).hex()} "
                   f"left={bytes(c.left_data).hex()} parts=[] obs={fmt_obs(c.observed)} final={bool_s(c.is_final)} "
                   f"writes=[] seen={fmt_obs(info['seen'])}")
        else:
            out = f"WRITTEN writes={fmt_calls(w.calls)} final={list_s(w.final)} seen={fmt_obs(info['seen'])}"
        return case, out, info
    except Exception as e:  # pylint: disable=broad-except
        info["exc"] = e
        # tree of the failing run when it was not observed: the one the model derives for these bags
        tree = None if info.get("tree_lost") else info.get("tree")
        if tree is None:
            tree = py_mpu_tree(partitions_per_sub, info.get("split", 4))
        return Case(has_w, min_write, min_part, max_part, spill, wpc, hdr, ftr, tree), err_s(e), info
    finally:
        if ops is not None:
            for n_, f_ in ops.items():
                setattr(M, n_, f_)
        if pool is not None:
            pool.shutdown(wait=False)



def real_dask_processes(R: Run, cfg, subs):
    """The real mpu_write graph under dask's process-based scheduler: every task argument and result is pickled,
    the writer's state lives in a directory.  Only the property oracle applies (the merge tree is not observable)."""
    import functools
    import shutil
    import tempfile
    import dask
    import dask.bag
    from odc.geo.cog import _mpu as M

    _, min_write, min_part, max_part, spill, wpc, hdr, ftr = cfg
    root = tempfile.mkdtemp(prefix="c06-proc-")
    try:
        w = FileLogWriter(root, min_write, min_part, max_part)
        off = cid = 0
        bags = []
        leaves = []
        for sub in subs:
            parts = []
            for sizes in sub:
                items = []
                for sz in sizes:
                    items.append((payload(off, sz), cid))
                    off += sz
                    cid += 1
                parts.append(items)
                leaves.append(sizes)
            bags.append(dask.bag.from_sequence([x for p_ in parts for x in p_], npartitions=len(parts))
                        if all(len(p_) == len(parts[0]) and len(p_) > 0 for p_ in parts)
                        else dask.bag.from_delayed([dask.delayed(list)(p_) for p_ in parts]))
        # from_sequence may repartition: recover the partition sizes dask really uses
        leaves = []
        for b in bags:
            for part in dask.compute(*b.to_delayed(), scheduler="synchronous"):
                leaves.append([len(d) for d, _ in part])
        tree = ("l", leaves[0])
        for l in leaves[1:]:
            tree = ("n", tree, ("l", l))
        case = Case(True, min_write, min_part, max_part, spill, wpc, hdr, ftr, tree)
        info = {"w": None, "seen": case.want_obs(), "exc": None, "cb_seen": []}
        try:
            fut = M.mpu_write(bags if len(bags) > 1 else bags[0], w,
                              mk_header=None if hdr is None else functools.partial(_hdr_cb, hdr),
                              mk_footer=None if ftr is None else functools.partial(_ftr_cb, ftr),
                              writes_per_chunk=wpc, spill_sz=spill)
            fut.compute(scheduler="processes", num_workers=3)
            info["w"] = w.collect()
        except Exception as e:  # pylint: disable=broad-except
            info["exc"] = e
        oracle(R, case, "", info, "dask:processes")
    finally:
        shutil.rmtree(root, ignore_errors=True)



def real_file_sink(R: Run, cfg, subs, sched):
    """End to end through the library's own file sink (the C18 writer): mpu_write -> MPUFileSink -> bytes on disk.
    Lean: Props/C06Cog.lean::cog_file_end_to_end / Props/C18C06.lean."""
    import shutil
    import tempfile
    import dask.bag
    from dask.delayed import delayed
    from odc.geo.cog import _mpu as M
    from odc.geo.cog._mpu_fs import MPUFileSink

    _, min_write, min_part, max_part, spill, wpc, hdr, ftr = cfg
    root = tempfile.mkdtemp(prefix="c06-sink-")
    try:
        dst = os.path.join(root, "out.bin")
        w = MPUFileSink(dst, min_write_sz=min_write, min_part=min_part, max_part=max_part)
        off = cid = 0
        bags = []
        for sub in subs:
            parts = []
            for sizes in sub:
                items = []
                for sz in sizes:
                    items.append((payload(off, sz), cid))
                    off += sz
                    cid += 1
                parts.append(delayed(lambda x: x, pure=False)(items))
            bags.append(dask.bag.from_delayed(parts))
        seen, kws = [], []
        # user_kw: the same keyword arguments reach BOTH callbacks (`op(observed, **user_kw)`); the sizes travel that way
        user_kw = {"hn": hdr, "fn": ftr, "tag": ("t", 1)} if (hdr is not None or ftr is not None) and sched == "sync" else None

        def cb(which):
            def f(obs, **kw):
                seen.append(list(obs))
                kws.append(kw)
                n = kw[which] if user_kw is not None else (hdr if which == "hn" else ftr)
                return hdr_bytes(n) if which == "hn" else ftr_bytes(n)
            return f

        mk_header = None if hdr is None else cb("hn")
        mk_footer = None if ftr is None else cb("fn")
        leaves = [l for sub in subs for l in sub]
        tree = ("l", leaves[0])
        for l in leaves[1:]:
            tree = ("n", tree, ("l", l))
        case = Case(True, min_write, min_part, max_part, spill, wpc, hdr, ftr, tree)
        cd = {"line": mpuw_line(cfg, subs), "via": f"file-sink:{sched}"}
        try:
            M.mpu_write(bags if len(bags) > 1 else bags[0], w, mk_header=mk_header, mk_footer=mk_footer, user_kw=user_kw,
                        writes_per_chunk=wpc, spill_sz=spill).compute(scheduler="synchronous" if sched == "sync" else "threads")
        except Exception as e:  # pylint: disable=broad-except
            R.oracle(False, f"mpu-write-fails:{type(e).__name__}", cd, f"mpu_write to MPUFileSink failed with {e!r}")
            return
        R.oracle(all(k == (user_kw or {}) for k in kws), "user-kw-not-passed-through", cd,
                 f"callbacks received {kws[:2]}, user_kw={user_kw}", sig="user-kw|" + ("given" if user_kw else "none"))
        got = open(dst, "rb").read() if os.path.exists(dst) else None
        want = case.stream()
        R.oracle(got == want, "file-sink-object-differs", cd,
                 f"file has {None if got is None else len(got)} bytes, want {len(want)}")
        left = [f for f in os.listdir(root) if f != "out.bin"]
        R.oracle(not left, "file-sink-parts-left-behind", cd, f"left in the directory: {left}")
        R.oracle(all(s_ == case.want_obs() for s_ in seen), "callbacks-observed-incomplete", cd, f"observed {seen[:1]}")
    finally:
        shutil.rmtree(root, ignore_errors=True)


def real_dask_pair(R: Run, cfg, subs_a, subs_b, sched):
    """Two uploads with equal callbacks / options but different writers and data, computed in ONE dask graph."""
    import dask
    import dask.bag
    from dask.delayed import delayed
    from odc.geo.cog import _mpu as M
    from .sched import RandomOrderExecutor

    has_w, min_write, min_part, max_part, spill, wpc, hdr, ftr = cfg
    mk_header = None if hdr is None else (lambda obs, _b=hdr_bytes(hdr): _b)
    mk_footer = None if ftr is None else (lambda obs, _b=ftr_bytes(ftr): _b)
    futs, cases, infos = [], [], []
    for subs in (subs_a, subs_b):
        w = RecWriter(min_write, min_part, max_part)
        off = cid = 0
        bags = []
        for sub in subs:
            parts = []
            for sizes in sub:
                items = []
                for sz in sizes:
                    items.append((payload(off, sz), cid))
                    off += sz
                    cid += 1
                parts.append(delayed(lambda x: x, pure=False)(items))
            bags.append(dask.bag.from_delayed(parts))
        futs.append(M.mpu_write(bags if len(bags) > 1 else bags[0], w, mk_header=mk_header, mk_footer=mk_footer,
                                writes_per_chunk=wpc, spill_sz=spill))
        leaves = [l for sub in subs for l in sub]
        tree = ("l", leaves[0])
        for l in leaves[1:]:
            tree = ("n", tree, ("l", l))
        c = Case(True, min_write, min_part, max_part, spill, wpc, hdr, ftr, tree)
        cases.append(c)
        infos.append({"w": w, "seen": c.want_obs(), "exc": None, "cb_seen": []})
    pool = None
    try:
        if sched == "sync":
            dask.compute(*futs, scheduler="synchronous")
        elif sched == "threads":
            dask.compute(*futs, scheduler="threads", num_workers=8)
        else:
            pool = RandomOrderExecutor(R.rng)
            dask.compute(*futs, scheduler="threads", pool=pool)
    except Exception as e:  # pylint: disable=broad-except
        for i in infos:
            i["exc"] = e
    finally:
        if pool is not None:
            pool.shutdown(wait=False)
    for c, info in zip(cases, infos):
        if info["exc"] is None and info["w"].final is None:
            R.oracle(False, "upload-never-finalised", {"line": c.line(), "via": f"dask-pair:{sched}"},
                     "two uploads computed in one dask graph: finalise() was never called for one destination "
                     f"({len(info['w'].calls)} parts written)")
            continue
        oracle(R, c, "", info, f"dask-pair:{sched}")


def real_dask_recompute(R: Run, cfg, subs, sched):
    """The same Delayed computed twice (a retry, or a user re-running the graph): the second run must hand
    the writer exactly the same parts as the first."""
    import dask
    import dask.bag
    from dask.delayed import delayed
    from odc.geo.cog import _mpu as M

    has_w, min_write, min_part, max_part, spill, wpc, hdr, ftr = cfg
    w = RecWriter(min_write, min_part, max_part)
    off = cid = 0
    bags = []
    for sub in subs:
        parts = []
        for sizes in sub:
            items = []
            for sz in sizes:
                items.append((payload(off, sz), cid))
                off += sz
                cid += 1
            parts.append(delayed(lambda x: x, pure=False)(items))
        bags.append(dask.bag.from_delayed(parts))
    mk_header = None if hdr is None else (lambda obs, _b=hdr_bytes(hdr): _b)
    mk_footer = None if ftr is None else (lambda obs, _b=ftr_bytes(ftr): _b)
    fut = M.mpu_write(bags if len(bags) > 1 else bags[0], w, mk_header=mk_header, mk_footer=mk_footer,
                      writes_per_chunk=wpc, spill_sz=spill)
    leaves = [l for sub in subs for l in sub]
    tree = ("l", leaves[0])
    for l in leaves[1:]:
        tree = ("n", tree, ("l", l))
    c = Case(True, min_write, min_part, max_part, spill, wpc, hdr, ftr, tree)
    runs = []
    for attempt in (1, 2):
        w.calls, w.final = [], None
        info = {"w": w, "seen": c.want_obs(), "exc": None, "cb_seen": []}
        try:
            fut.compute(scheduler="synchronous" if sched == "sync" else "threads")
        except Exception as e:  # pylint: disable=broad-except
            info["exc"] = e
        oracle(R, c, "", info, f"dask-recompute:{sched}:run{attempt}")
        runs.append(sorted(w.calls))
    R.oracle(runs[0] == runs[1], "recompute-differs", {"line": c.line(), "via": f"dask-recompute:{sched}"},
             f"second compute of the same graph wrote {[(p, len(d)) for p, d in runs[1]]}, first wrote "
             f"{[(p, len(d)) for p, d in runs[0]]}")


SIZES = [0, 3, 10, 25]


def _cfgs():
    out = []
    for spill in (1, 10, 20):
        for wpc in (1, 2):
            for hdr in (None, 0, 5):
                for ftr in (None, 0, 4):
                    for mp_ in (0, 1, 5):
                        out.append((True, 10, mp_, 100, spill, wpc, hdr, ftr))
    return out


def _domain_desc(tier):
    return ("<=4 partitions x 1-2 chunks of sizes {0,3,10,25} x every binary merge tree x spill {1,10,20} x wpc {1,2} "
            "x header {none,empty,5} x footer {none,empty,4} x min_part {0,1,5} x partition container {list,tuple,iterator,generator}, min_write_sz 10; "
            + ("quick: 3 partitions (inner ones 1 chunk), every 7th configuration"
               if tier == "quick" else
               "thorough: 1-2 partitions complete, 3 partitions every 5th, 4 partitions (<=5 chunks) every 9th configuration"))


def _enum(tier):
    """yield (stride, Case) over the small domain"""
    quick = tier == "quick"
    leaf_opts = [[a] for a in SIZES] + [[a, b] for a in SIZES for b in SIZES]
    cfgs = _cfgs()
    maxp = 3 if quick else 4
    for np_ in range(1, maxp + 1):
        shapes = all_trees(np_)
        stride = 7 if quick else {1: 1, 2: 1, 3: 5, 4: 9}[np_]
        for leaves in itertools.product(leaf_opts, repeat=np_):
            if quick and np_ == 3 and any(len(l) == 2 for l in leaves[1:-1]):
                continue
            if np_ == 4 and sum(len(l) for l in leaves) > 5:
                continue
            for shape in shapes:
                tree = fill_tree(shape, leaves)
                for cfg in cfgs:
                    yield stride, Case(*cfg, tree)


class _Collector:
    """minimal stand-in for Run inside worker processes"""

    def __init__(self):
        self.oracle_evals = 0
        self.oracle_failures = []
        self.dist = {}
        self.sigs = [None]

    def corr(self, line, fn, sig=None):
        """real side only (the searcher looks for a failing input of the STATEMENT, nothing is compared with the model)"""
        try:
            return fn()
        except Exception as e:  # pylint: disable=broad-except
            return err_s(e)

    def oracle(self, ok, key, case, what="", sig=None, trivial=False):
        self.oracle_evals += 1
        self.dist["oracle:" + key] = self.dist.get("oracle:" + key, 0) + 1
        if not ok:
            if len(self.oracle_failures) < 50:
                self.oracle_failures.append({"key": key, "case": case, "what": what})
        return ok


def public_case(c: "Case", sched="sync"):
    """one configuration through the public route only (mpu_write + dask, one bag, the tree the model derives):
    -> (line, out, Case, info)"""
    leaves = tree_leaves(c.tree)
    cfg = (c.has_w, c.min_write, c.min_part, c.max_part, c.spill, c.wpc, c.hdr, c.ftr)
    case, out, info = real_dask(None, cfg, [leaves], 4, sched, True)
    return (mpuw_line(cfg, [leaves]) if info["exc"] is None else case.line()), out, case, info


def _exhaustive_worker(job):
    tier, seed, w, nworkers = job
    col = _Collector()
    lines = []
    k = seed % 7
    fb = fallback_mode()
    for stride, c in _enum(tier):
        k += 1
        if k % stride:
            continue
        if (k // stride) % nworkers != w:
            continue
        j = k // stride
        if fb:
            # private operators not available: a sample of the domain through mpu_write (public), model-derived tree
            if (j // nworkers) % 40:
                continue
            line, o, case, info = public_case(c)
            lines.append((line, o, "public-route|" + sig_of(case, o)))
            oracle(col, case, o, info, "public:mpu_write")
            col.dist["public-route"] = col.dist.get("public-route", 0) + 1
            continue
        tk = (j // 3) % 6 if (j // 3) % 6 < 4 else 0     # by reference half of the time, else pickled / copied
        wk = 1 if j % 5 == 2 else 0
        o, info = real_direct(c, mutable=j % 3 == 0, containers=(k * 2654435761) & 0xFFFF, tkind=tk, wkind=wk)
        lines.append((c.line(), o, sig_of(c, o)))
        oracle(col, c, o, info, "direct" + (f":transport={TRANSPORTS[tk]}" if tk else "") + (":writer-with-len" if wk else ""))
        col.dist[f"transport:{TRANSPORTS[tk]}"] = col.dist.get(f"transport:{TRANSPORTS[tk]}", 0) + 1
        col.dist[f"writer-kind:{wk}"] = col.dist.get(f"writer-kind:{wk}", 0) + 1
    return lines, col.oracle_failures, col.oracle_evals, col.dist


def substream_case(rng):
    """mpu_write over a LIST of bags, every sub-stream drawn from a size class of its own: tiny (less than one
    minimum part in total), small, spilling (several parts' worth), mixed; short / long / no header"""
    min_write = rng.choice([4, 10])
    nsub = rng.choice([2, 2, 3, 4])
    subs = []
    for _ in range(nsub):
        kind = rng.choice(["tiny", "tiny", "small", "spilling", "spilling", "mixed"])
        if kind == "tiny":
            sub = [[rng.randint(1, max(1, min_write - 1))]]
        elif kind == "small":
            sub = [[rng.choice([1, 3, min_write])] for _ in range(rng.randint(1, 2))]
        elif kind == "spilling":
            sub = [[rng.choice([2 * min_write, 3 * min_write + 1, 4 * min_write]) for _ in range(rng.choice([1, 2]))]
                   for _ in range(rng.randint(1, 3))]
        else:
            sub = [[rng.choice([0, 1, 3, min_write, 2 * min_write + 5, rng.randint(0, 40)]) for _ in range(rng.choice([1, 2, 3]))]
                   for _ in range(rng.randint(1, 4))]
        subs.append(sub)
    wpc = rng.choice([1, 2, 3])
    mp = rng.choice([0, 1, 3])
    total = sum(len(x) for x in subs)
    cfg = (True, min_write, mp, mp + total * wpc + rng.choice([0, 50]), rng.choice([1, min_write, 2 * min_write + 1, 25]), wpc,
           rng.choice([None, None, 0, 3, 16]), rng.choice([None, None, 5]))
    return cfg, subs


def searcher(R: Run, mismatches):
    """proof or correspondence broke and no oracle failed in the main run: look harder for an input on which the
    STATEMENT fails on the real code - sub-stream size classes through the real mpu_write graph, then random direct
    drive over the size classes of the main run with more cases."""
    import random
    rng = random.Random(R.seed * 7919 + 13)
    col = _Collector()
    for _ in range(1500):
        cfg, subs = substream_case(rng)
        case, out, info = real_dask(R, cfg, subs, 2, "sync", True, gen_parts=rng.random() < 0.2, tkind=rng.choice([0, 1]))
        oracle(col, case, out, info, "searcher:dask:mpu_write")
        if col.oracle_failures:
            return col.oracle_failures[0]
    # the public multi-step use: flush(finalise=False) / flush(finalise=True) called directly, then finalise by hand
    fb = fallback_mode()
    for _ in range(6000):
        min_write = rng.choice([10, 4, 1])
        leaves = [[rng.choice([0, 1, min_write // 2, min_write, 2 * min_write + 3, 5 * min_write + 1])
                   for _ in range(rng.choice([1, 1, 2, 3]))] for _ in range(rng.randint(1, 5))]
        wpc = rng.choice([1, 2, 3])
        mp = rng.choice([0, 1, 5])
        flushd_case(col, min_write, mp, mp + len(leaves) * wpc + 3, rng.choice([0, 1, min_write, 2 * min_write + 1, 40]), wpc,
                    rng.random() < 0.7, mp, rng.random() < 0.5, py_dask_tree(leaves) if fb else random_tree(rng, leaves))
        if col.oracle_failures:
            return col.oracle_failures[0]
    for _ in range(40000):
        min_write = rng.choice([1, 4, 10])
        leaves = [[rng.choice([0, 1, min_write // 2, min_write, min_write + 1, 2 * min_write + 3, 5 * min_write + 1])
                   for _ in range(rng.choice([1, 1, 2, 3]))] for _ in range(rng.randint(1, 6))]
        wpc = rng.choice([1, 1, 2, 3])
        mp = rng.choice([0, 1, 2, 7])
        c = Case(True, min_write, mp, mp + len(leaves) * wpc + 5, rng.choice([0, 1, min_write, 2 * min_write + 1, 40]), wpc,
                 rng.choice([None, 0, 1, min_write, 3 * min_write + 2]), rng.choice([None, None, 0, 1, min_write + 3]),
                 random_tree(rng, leaves))
        if fallback_mode():
            if _ > 1500:
                break
            _l, o, c, info = public_case(c)
        else:
            o, info = real_direct(c, tkind=rng.choice([0, 0, 1]))
        oracle(col, c, o, info, "searcher:direct")
        if col.oracle_failures:
            return col.oracle_failures[0]
    return None


def sig_of(case: Case, out: str) -> str:
    leaves = tree_leaves(case.tree)
    sizes = [s for l in leaves for s in l]
    cls = "".join(sorted({("0" if s == 0 else "s" if s < case.min_write else "m" if s < 2 * case.min_write else "L")
                          for s in sizes}))
    nparts = out.count(":") if out.startswith("WRITTEN") else 0
    kind = out.split(" ")[0]
    return (f"run|{kind}|leaves={len(leaves)}|sizes={cls}|hdr={opt_s(case.hdr)}|ftr={opt_s(case.ftr)}|"
            f"w={bool_s(case.has_w)}|spill{'<' if case.spill < case.min_write else '>='}min|wpc={case.wpc}|"
            f"mp={case.min_part}|multi={'y' if nparts > 6 else 'n'}")


def run(R: Run):
    rng = R.rng
    R.searchers.append(searcher)
    import time as _time
    _stages, _last = {}, [_time.time(), "corpus"]

    def mark(name):
        now = _time.time()
        _stages[_last[1]] = round(_stages.get(_last[1], 0) + now - _last[0], 1)
        _last[0], _last[1] = now, name
        R.extra["stage_s"] = dict(_stages)

    FB = fallback_mode()
    R.extra["maybe_write_asserts_part_range"] = repaired_mode()
    R.count("tree:maybe_write-" + ("repaired(fix3-C06)" if repaired_mode() else "as-found"))
    if FB:
        R.notes.append("odc.geo.cog._mpu no longer has (all of) the private operators " + ", ".join(PRIV_OPS) + ": nothing "
                       "is called or patched by private name; direct drive along arbitrary merge trees and the re-execution "
                       "stream are skipped, every other stream goes through MPUChunk.from_dask_bag / mpu_write (public) and is "
                       "compared with the model on the tree the model derives")
    pick_tree = (lambda rng_, leaves_: py_dask_tree(leaves_)) if FB else random_tree
    # ---------------- corpus: replays of the repaired findings (F7, F8, F9) run first
    corpus = [
        Case(True, 10, 1, 100, 20, 1, None, None, ("n", ("l", [30]), ("l", [30, 30]))),          # F7
        Case(True, 10, 1, 100, 1, 2, None, None, ("n", ("l", [3, 10]), ("l", [25]))),            # F8
        Case(True, 10, 5, 100, 20, 1, 5, None, ("n", ("l", [30]), ("l", [30]))),                 # F9
        Case(True, 10, 5, 100, 10, 2, None, 4, ("n", ("n", ("l", [25, 25]), ("l", [0])), ("l", [25, 3]))),
        # Lean max_write_sz_not_enforced_cex: a 40-byte chunk goes out as one 32-byte part, three credits stay unused
        Case(True, 4, 1, 100, 8, 4, None, None, ("n", ("l", [40]), ("l", [8]))),
        # Lean max_part_unchecked_cex: writer range 1..3, two partitions x three credits: parts 5 and 6 written, no error
        Case(True, 2, 1, 3, 2, 3, None, None, ("n", ("l", [8]), ("l", [8]))),
    ]
    for c in corpus:
        res = []
        if FB:
            line, o, case, info = public_case(c)
            R.corr(line, lambda: o, sig="corpus|public-route")
            oracle(R, case, o, info, "public:mpu_write")
            continue

        def f():
            o, info = real_direct(c)
            res.append((o, info))
            return o

        out = R.corr(c.line(), f, sig="corpus")
        oracle(R, c, res[0][0], res[0][1], "direct")

    mark("exhaustive")
    # ---------------- exhaustive small domain, direct drive along every merge tree (parallel workers)
    import multiprocessing as mp

    nworkers = min(14, os.cpu_count() or 2)
    jobs = [(R.tier, R.seed, w, nworkers) for w in range(nworkers)]
    with mp.get_context("fork").Pool(nworkers) as pool:
        results = pool.map(_exhaustive_worker, jobs)
    n_ex = 0
    for lines, fails, nor, dist in results:
        for line, out, sig in lines:
            R.corr(line, (lambda o=out: o), sig=sig)
        n_ex += len(lines)
        R.oracle_evals += nor
        R.oracle_failures += fails
        for k_, v_ in dist.items():
            R.count(k_, v_)
    R.extra["exhaustive_small_cases"] = n_ex
    R.extra["exhaustive_domain"] = _domain_desc(R.tier)
    R.exhaustive = False

    mark("random-direct")
    # ---------------- random larger configurations, direct drive
    for _ in range(R.pick(3000, 30000)):
        min_write = rng.choice([0, 1, 4, 10, 16])
        has_w = rng.random() < 0.93
        npart = rng.randint(1, 9)
        leaves = []
        for _ in range(npart):
            nch = rng.choice([0, 1, 1, 2, 3, 5])
            leaves.append([rng.choice([0, 1, min_write // 2, min_write, min_write + 1, 2 * min_write + 3,
                                       5 * min_write + 1, rng.randint(0, 60)]) for _ in range(nch)])
        wpc = rng.choice([0, 1, 1, 2, 3])
        mp = rng.choice([0, 1, 1, 2, 7])
        cap = mp + npart * wpc
        max_part = rng.choice([cap, cap, cap + 5, 10000]) if rng.random() < 0.95 else max(mp, cap - 1)
        spill = rng.choice([0, 1, min_write, 2 * min_write + 1, 40, 1000])
        hdr = rng.choice([None, 0, 1, min_write, 3 * min_write + 2])
        ftr = rng.choice([None, None, 0, 1, min_write + 3])
        c = Case(has_w, min_write, mp, max_part, spill, wpc, hdr, ftr, random_tree(rng, leaves))
        if FB:
            if rng.random() < 0.08 and leaves:
                line, o, case, info = public_case(c)
                R.corr(line, lambda: o, sig="public-route|" + sig_of(case, o))
                oracle(R, case, o, info, "public:mpu_write")
            continue
        mutable = rng.random() < 0.4
        tk = rng.choice([0, 0, 1, 1, 2, 3])
        wk = int(rng.random() < 0.25)
        scrib = mutable and rng.random() < 0.4
        o, info = real_direct(c, mutable=mutable, containers=rng.getrandbits(16), tkind=tk, wkind=wk, scribble=scrib)
        R.corr(c.line(), lambda: o, sig=sig_of(c, o) + ("|bytearray" if mutable else "") + ("|producer-reuses-buffers" if scrib else "")
               + (f"|transport={TRANSPORTS[tk]}" if tk else "") + ("|writer-with-len" if wk else ""))
        oracle(R, c, o, info, "direct" + (f":transport={TRANSPORTS[tk]}" if tk else "") + (":writer-with-len" if wk else ""))
        if mutable and not scrib and rng.random() < 0.5:
            # the same buffer objects (chunks, cached header/footer) go through a second upload
            o2, info2 = real_direct(c, mutable=True, shared=info["bufs"])
            R.corr(c.line(), lambda: o2, sig="second-upload-shared-buffers")
            oracle(R, c, o2, info2, "direct:second-upload-shared-buffers")

    mark("direct-methods")
    # ---------------- public MPUChunk methods driven directly: flush with every keyword form (state before / after,
    #                  return value, two-step finalise), a merge task executed twice, dask tokens
    leaf_small = [[a] for a in SIZES] + [[a, b] for a in (0, 3, 25) for b in (3, 10, 25)]
    for _ in range(R.pick(2500, 10000)):
        min_write = rng.choice([10, 10, 4, 1])
        nleaf = rng.choice([1, 1, 2, 2, 3, 4])
        leaves = [[(s_ * min_write) // 10 if min_write != 10 else s_ for s_ in rng.choice(leaf_small)] for _ in range(nleaf)]
        mp = rng.choice([0, 1, 1, 5])
        wpc = rng.choice([1, 1, 2, 3])
        flushd_case(R, min_write, mp, mp + nleaf * wpc + rng.choice([0, 0, 7]), rng.choice([0, 1, min_write, 2 * min_write, 1000]),
                    wpc, rng.random() < 0.7, rng.choice([None, mp, mp, mp, 1, 3]), rng.random() < 0.5,
                    pick_tree(rng, leaves))
    flushd_case(R, 10, 1, 100, 10, 2, True, 1, False,
                ("n", ("n", ("l", [23, 23, 23]), ("l", [23, 23, 23])), ("l", [23, 23, 23])), "|corpus")   # seeded C06-17
    soft_rerun = []
    for _ in range(0 if FB else R.pick(2000, 8000)):
        min_write = rng.choice([10, 4, 2])
        mk_leaves = lambda n: [[rng.choice([0, 1, min_write // 2, min_write, 2 * min_write, 3 * min_write + 1, 5 * min_write])
                                for _ in range(rng.choice([1, 1, 2]))] for _ in range(n)]
        ll, lr = mk_leaves(rng.choice([1, 1, 2])), mk_leaves(rng.choice([1, 1, 2]))
        mp = rng.choice([0, 1, 5])
        wpc = rng.choice([1, 2, 2, 3])
        rerun_case(R, min_write, mp, mp + (len(ll) + len(lr)) * wpc + rng.choice([0, 9]),
                   rng.choice([0, 1, min_write, 2 * min_write, 1000]), wpc, rng.random() < 0.5,
                   random_tree(rng, ll), random_tree(rng, lr), soft_rerun)
    rerun_soft_check(R, soft_rerun)
    soft_fin = []
    for _ in range(0 if FB else R.pick(300, 1500)):
        min_write = rng.choice([10, 4, 1])
        leaves = [[rng.choice([0, 1, min_write, 2 * min_write, 3 * min_write + 1]) for _ in range(rng.choice([1, 2]))]
                  for _ in range(rng.choice([1, 1, 2, 3]))]
        mp = rng.choice([0, 1, 5])
        wpc = rng.choice([1, 2])
        fintwice_case(R, min_write, mp, mp + len(leaves) * wpc + 3, rng.choice([0, 1, min_write, 2 * min_write]), wpc,
                      rng.choice([None, 0, 3, 2 * min_write]), rng.choice([None, None, 0, 2, min_write + 1]),
                      random_tree(rng, leaves), soft_fin)
    rerun_soft_check(R, soft_fin, "finaliser_reexecution_model")
    for _ in range(R.pick(1500, 6000)):
        min_write = rng.choice([10, 4, 2])
        leaves = [[rng.choice([0, 1, min_write // 2, min_write, 2 * min_write, 3 * min_write + 1, 5 * min_write])
                   for _ in range(rng.choice([1, 1, 2]))] for _ in range(rng.choice([1, 1, 2, 3]))]
        mp = rng.choice([0, 1, 5])
        wpc = rng.choice([1, 2, 2, 3])
        args = (min_write, mp, mp + len(leaves) * wpc + rng.choice([0, 9]), rng.choice([0, 1, min_write, 2 * min_write, 1000]),
                wpc, rng.random() < 0.5)
        if rng.random() < 0.5:
            direct_method_case(R, "mwret", *args, rng.choice([0, 1, min_write, 2 * min_write, 50]), None, pick_tree(rng, leaves))
        else:
            direct_method_case(R, "frhs", *args, rng.random() < 0.8, rng.choice([0, 0, 1, min_write, 3 * min_write]),
                               pick_tree(rng, leaves))
    for _ in range(R.pick(400, 2000)):
        min_write = rng.choice([10, 4])
        mk = lambda: (min_write, rng.choice([0, 1, min_write, 1000]), rng.choice([1, 2]), rng.random() < 0.5,
                      pick_tree(rng, [[rng.choice([0, 3, min_write, 3 * min_write])
                                       for _ in range(rng.choice([1, 2]))] for _ in range(rng.choice([1, 2, 3]))]))
        a = mk()
        r_ = rng.random()
        if r_ < 0.35:
            b = a
        elif r_ < 0.7:
            b = list(a)
            k = rng.randrange(5)
            b[k] = mk()[k] if k else rng.choice([4, 10, 11, 20])     # k == 0: the same stream for a writer with another min_write_sz
            b = tuple(b)
        else:
            b = mk()
        tokeq_case(R, rng.choice([0, 1, 5]), a, b)
    token_lhs_keep(R)
    # no bag at all: mpu_write([]) fails while the graph is built
    from odc.geo.cog import _mpu as M0
    R.corr(f"c06 {'mpuwR' if repaired_mode() else 'mpuw'} T 10 1 100 20 1 N N -", lambda: str(M0.mpu_write([], RecWriter(10, 1, 100)).compute(scheduler="synchronous")),
           sig="mpuw|no-bags")
    mark("dask")
    # ---------------- real dask graphs (mpu_write / from_dask_bag / fold / collate / finaliser)
    ndask = R.pick(60, 300)
    for i in range(ndask):
        min_write = rng.choice([4, 10])
        nsub = rng.choice([1, 1, 2, 3])
        subs = []
        for _ in range(nsub):
            npart = rng.randint(1, 9)
            subs.append([[rng.choice([0, 3, min_write, 2 * min_write + 5, rng.randint(0, 40)])
                          for _ in range(rng.choice([1, 1, 2, 3]))] for _ in range(npart)])
        wpc = rng.choice([1, 2])
        mp = rng.choice([0, 1, 3])
        if i % 25 == 7:
            # a long stream: more partitions than dask's default from_sequence partition cap (100)
            subs = [[[rng.choice([0, 3, min_write, 2 * min_write + 5])] for _ in range(rng.randint(101, R.pick(140, 260)))]]
        total = sum(len(s) for s in subs)
        cfg = (rng.random() < 0.9, min_write, mp, mp + total * wpc + rng.choice([0, 50]),
               rng.choice([0, 1, min_write, 25, 1000]), wpc, rng.choice([None, 0, 6]), rng.choice([None, None, 5]))
        sched = ["sync", "threads", "random"][i % 3]
        use_mpu_write = rng.random() < 0.5
        split_every = rng.choice([2, 3, 4, 8])
        gen_parts = rng.random() < 0.35
        tk = rng.choice([0, 1, 1, 2, 3])
        wk = int(rng.random() < 0.25)
        case, out, info = real_dask(R, cfg, subs, split_every, sched, use_mpu_write, gen_parts=gen_parts, tkind=tk, wkind=wk)
        if not (wk and nsub > 1):
            dask_shape_corr(R, info, subs, 4 if use_mpu_write else split_every, out, cfg, use_mpu_write, sched)
        if wk and nsub > 1:
            # _mpu_collate_op alone tests the writer's truth value (`if write and spill_sz`): a writer that is still
            # empty when sub-streams are collated skips that opportunistic spill.  Which parts exist then depends on
            # how many parts were written before the collate task ran (the schedule) - outside the model, which has
            # no notion of a writer's truth value; the statement of C06 is evaluated by the oracle all the same
            R.count("dask-oracle-only:falsy-writer-at-collate")
        else:
            R.corr(case.line(), lambda: out, sig=f"dask|{sched}|{'mpu_write' if use_mpu_write else f'split{split_every}'}|subs={nsub}"
                   + ("|generator-partitions" if gen_parts else "") + ("|>100-partitions" if total > 100 else "")
                   + (f"|transport={TRANSPORTS[tk]}" if tk else "") + ("|writer-with-len" if wk else ""))
        oracle(R, case, out, info, f"dask:{sched}" + (f":transport={TRANSPORTS[tk]}" if tk else "") + (":writer-with-len" if wk else ""))
        R.count(f"dask-sched:{sched}")
        R.count(f"dask-transport:{TRANSPORTS[tk]}")
    mark("shape-sweep")
    # ---------------- the fold shape on a complete small domain: every partition count up to N for every split_every
    #                  (the boundaries k == split_every, k == split_every**2 (+1) are where the loop of Bag.reduction turns)
    t_sweep = __import__("time").time()
    for split in (2, 3, 4, 5, 8):
        for npart in range(1, R.pick(34, 90) + 1):
            subs = [[[1]] * npart]
            cfg = (False, 4, 1, 10**6, 0, 1, None, None)
            case, out, info = real_dask(R, cfg, subs, split, "sync", split == 4 and npart % 2 == 0)
            dask_shape_corr(R, info, subs, split, out, cfg, False, "sweep")
            R.corr(case.line(), lambda: out, sig="dask|sync|shape-sweep")
            R.count("dask-shape-sweep")
    R.extra["shape_sweep_s"] = round(__import__("time").time() - t_sweep, 2)
    mark("seeds")
    # ---------------- how mpu_write seeds the partitions of its bags (part ids, credits, final flag, lhs_keep)
    import dask.bag
    from odc.geo.cog import _mpu as M_

    def real_seeds(has_w, min_write, min_part, wpc, mark_final, nparts):
        seen = []
        orig = M_.MPUChunk.gen_bunch

        def rec(partId, n, **kw):
            out = list(orig(partId, n, **kw))
            seen.append([f"{c.nextPartId}#{c.write_credits}/{bool_s(c.is_final)}/{c.lhs_keep}" for c in out])
            return iter(out)

        M_.MPUChunk.gen_bunch = staticmethod(rec)
        try:
            bags = [dask.bag.from_sequence([(b"x", 0)] * n, npartitions=n) for n in nparts]
            assert [b.npartitions for b in bags] == list(nparts)
            w = RecWriter(min_write, min_part, min_part + 10**6) if has_w else None
            M_.mpu_write(bags if len(bags) > 1 else bags[0], w, mk_footer=None if mark_final else (lambda obs: b"f"),
                         writes_per_chunk=wpc, spill_sz=0)
        finally:
            M_.MPUChunk.gen_bunch = staticmethod(orig)
        if len(seen) != len(nparts):
            raise LookupError("sections are not made through MPUChunk.gen_bunch")
        return list_s(seen, lambda b: list_s(b))

    def direct_bunch(has_w, min_write, min_part, wpc, mark_final, nparts):
        # the public static method itself, one call per bag as mpu_write documents the numbering
        out, pid = [], min_part + 1 if has_w else 2
        for i, n in enumerate(nparts):
            out.append([f"{c.nextPartId}#{c.write_credits}/{bool_s(c.is_final)}/{c.lhs_keep}" for c in M_.MPUChunk.gen_bunch(
                pid, n, writes_per_chunk=wpc, mark_final=mark_final and i == len(nparts) - 1, lhs_keep=min_write if has_w else 0)])
            pid += n * wpc
        return list_s(out, lambda b: list_s(b))

    for _ in range(R.pick(150, 1500)):
        nparts = [rng.randint(1, 6) for _ in range(rng.choice([1, 1, 2, 3, 4, 5]))]
        if rng.random() < 0.2:
            nparts[rng.randrange(len(nparts))] = rng.randint(7, 40)
        has_w = rng.random() < 0.85
        a = (has_w, rng.choice([0, 4, 10]), rng.choice([0, 1, 3, 7]), rng.choice([1, 2, 3, 5]), rng.random() < 0.5, nparts)
        line_ = f"c06 seeds {bool_s(a[0])} {a[1]} {a[2]} {a[3]} {bool_s(a[4])} {list_s(nparts)}"
        try:
            got_ = real_seeds(*a)
            R.corr(line_, lambda: got_, sig=f"seeds|bags={len(nparts)}|w={bool_s(has_w)}")
        except LookupError:
            # mpu_write does not go through gen_bunch (any more): the numbering stays covered by every dask run
            # (part ids of all writes are compared with the model); the static method is compared on its own
            R.count("seeds-not-observable")
            R.corr(line_, lambda: direct_bunch(*a), sig=f"seeds|gen_bunch-direct|bags={len(nparts)}")
    mark("substreams")
    # ---------------- mpu_write over several bags, each sub-stream from its own size class
    for i in range(R.pick(80, 600)):
        cfg, subs = substream_case(rng)
        sched = ["sync", "sync", "threads", "random"][i % 4]
        tk = rng.choice([0, 0, 1])
        case, out, info = real_dask(R, cfg, subs, 2, sched, True, gen_parts=rng.random() < 0.2, tkind=tk)
        R.corr(case.line(), lambda: out, sig=f"dask|{sched}|mpu_write|substream-classes|subs={len(subs)}")
        dask_shape_corr(R, info, subs, 4, out, cfg, True, "substream-classes")
        oracle(R, case, out, info, f"dask:{sched}:substream-classes")
        R.count("dask-substream-classes")
    # ---------------- mpu_write over MANY bags (5..10 sub-streams; the collate step is a plain left fold over all of them), every
    #                  count on every run, sub-streams that spilled in their own fold and are spilled again at collate
    mark("many-substreams")
    for nsub in list(range(1, 11)) * R.pick(2, 8):
        min_write = rng.choice([4, 10])
        subs = []
        for j in range(nsub):
            kind = rng.choice(["tiny", "small", "spilling", "spilling"]) if j < nsub - 1 else rng.choice(["small", "spilling", "spilling"])
            if kind == "tiny":
                subs.append([[rng.randint(1, max(1, min_write - 1))]])
            elif kind == "small":
                subs.append([[rng.choice([1, 3, min_write])] for _ in range(rng.randint(1, 2))])
            else:
                subs.append([[rng.choice([2 * min_write, 3 * min_write + 1, 5 * min_write]) for _ in range(rng.choice([1, 2]))]
                             for _ in range(rng.randint(1, 3))])
        wpc = rng.choice([1, 2, 3])
        mp = rng.choice([0, 1, 3])
        total = sum(len(x) for x in subs)
        cfg = (True, min_write, mp, mp + total * wpc + rng.choice([0, 0, 50]), rng.choice([1, min_write, 2 * min_write + 1]), wpc,
               rng.choice([None, None, 0, 3, 16]), rng.choice([None, None, 5]))
        sched = ["sync", "threads", "random"][nsub % 3]
        case, out, info = real_dask(R, cfg, subs, 2, sched, True, tkind=rng.choice([0, 0, 1]))
        R.corr(case.line(), lambda: out, sig=f"dask|{sched}|mpu_write|many-substreams|subs={nsub}")
        dask_shape_corr(R, info, subs, 4, out, cfg, True, f"many-substreams|subs={nsub}")
        oracle(R, case, out, info, f"dask:{sched}:many-substreams")
        R.count("dask-many-substreams")
    mark("processes")
    # ---------------- the real graph under the process-based scheduler (everything pickled, writer state on disk)
    for i in range(R.pick(3, 10)):
        min_write = rng.choice([4, 10])
        subs = [[[rng.choice([3, min_write, 2 * min_write + 5, rng.randint(1, 40)]) for _ in range(rng.choice([1, 2, 3]))]
                 for _ in range(rng.randint(2, 6))] for _ in range(rng.choice([1, 2, 3]))]
        wpc = rng.choice([1, 2])
        mp = rng.choice([1, 3])
        total = sum(len(x) for x in subs)
        cfg = (True, min_write, mp, mp + total * wpc + 20, rng.choice([1, min_write, 25]), wpc,
               rng.choice([None, 6]), rng.choice([None, 5]))
        real_dask_processes(R, cfg, subs)
        R.count("dask-sched:processes")
    mark("file-sink")
    # ---------------- end to end through the library's file sink: bytes on disk
    for i in range(R.pick(10, 80)):
        cfg, subs = substream_case(rng)
        if rng.random() < 0.5:
            subs = [[[rng.choice([0, 3, cfg[1], 2 * cfg[1] + 5, rng.randint(0, 40)]) for _ in range(rng.choice([1, 2]))]
                     for _ in range(rng.randint(1, 6))]]
            total = len(subs[0])
            cfg = cfg[:3] + (cfg[2] + total * cfg[5] + 7,) + cfg[4:]
        real_file_sink(R, cfg, subs, ["sync", "threads"][i % 2])
        R.count("dask-file-sink")
    mark("pairs")
    # ---------------- several uploads inside one dask graph (equal options, different destinations / data)
    for i in range(R.pick(12, 90)):
        min_write = rng.choice([4, 10])
        mk_subs = lambda: [[[rng.choice([0, 3, min_write, 2 * min_write + 5, rng.randint(0, 40)])
                             for _ in range(rng.choice([1, 2]))] for _ in range(rng.randint(1, 5))]
                           for _ in range(rng.choice([1, 1, 2]))]
        sa, sb = mk_subs(), mk_subs()
        wpc = rng.choice([1, 2])
        total = max(sum(len(x) for x in sa), sum(len(x) for x in sb))
        cfg = (True, min_write, 1, 1 + total * wpc + 20, rng.choice([1, min_write, 25, 1000]), wpc,
               rng.choice([None, 6]), rng.choice([None, None, 5]))
        real_dask_pair(R, cfg, sa, sb, ["sync", "threads", "random"][i % 3])
        R.count("dask-pair")
        if i % 2 == 0:
            real_dask_recompute(R, cfg, sa, ["sync", "threads"][(i // 2) % 2])
            R.count("dask-recompute")
    mark("end")
    R.assumptions.append("dask runs every task once after its dependencies; tasks are pure functions of their inputs")


def parse_tree_tokens(text):
    toks = text.split(";")

    def go(i):
        if toks[i] == "n":
            l, i = go(i + 1)
            r, i = go(i)
            return ("n", l, r), i
        body = toks[i][2:]
        return ("l", [int(x) for x in body.split(",")] if body else []), i + 1

    return go(0)[0]


def replay(R: Run, rec) -> int:
    key = rec.get("key", "")
    before = len(R.oracle_failures)
    line = (rec.get("case") or {}).get("line", "")
    if key.startswith("dask-token-ignores") or not line:
        token_lhs_keep(R)
        for f in R.oracle_failures[before:]:
            print("FAILS:", f["key"], f["what"])
        return 1 if len(R.oracle_failures) > before else 0
    if line.startswith("c06 flushd "):
        t = line.split(" ")
        o = lambda x: None if x == "N" else int(x)
        out = flushd_case(R, int(t[2]), int(t[3]), int(t[4]), int(t[5]), int(t[6]), t[7] == "T", o(t[8]), t[9] == "T",
                          parse_tree_tokens(t[10]))
        print("real :", out)
        R.proof_stage()
        from .common import run_driver
        print("model:", run_driver("C06", [line])[0])
        for f in R.oracle_failures[before:]:
            print("FAILS:", f["key"], f["what"])
        return 1 if len(R.oracle_failures) > before else 0
    if line.startswith("c06 mpuw ") or line.startswith("c06 mpuwR "):
        t = line.split(" ")
        o = lambda x: None if x == "N" else int(x)
        cfg = (t[2] == "T", int(t[3]), int(t[4]), int(t[5]), int(t[6]), int(t[7]), o(t[8]), o(t[9]))
        subs = [[[int(x) for x in part.split(",")] if part != "_" else [] for part in bag.split("/")] for bag in t[10].split(";")]
        if (rec.get("case") or {}).get("via", "").startswith("file-sink"):
            real_file_sink(R, cfg, subs, "sync")
        else:
            case, out, info = real_dask(R, cfg, subs, 4, "sync", True)
            print("real :", out)
            oracle(R, case, out, info, "replay:mpu_write")
        for f in R.oracle_failures[before:]:
            print("FAILS:", f["key"], f["what"])
        return 1 if len(R.oracle_failures) > before else 0
    case = parse_case(rec["case"]["line"])
    via = rec["case"].get("via", "")
    if key == "recompute-differs" or via.startswith("dask-recompute"):
        subs = [[l for l in tree_leaves(case.tree)]]
        cfg = (True, case.min_write, case.min_part, case.max_part, case.spill, case.wpc, case.hdr, case.ftr)
        real_dask_recompute(R, cfg, subs, "sync")
    elif key == "upload-never-finalised" or via.startswith("dask-pair"):
        subs = [[l for l in tree_leaves(case.tree)]]
        cfg = (True, case.min_write, case.min_part, case.max_part, case.spill, case.wpc, case.hdr, case.ftr)
        real_dask_pair(R, cfg, subs, subs, "sync")
    else:
        mutable = key == "caller-buffer-mutated" or "shared-buffers" in via
        if fallback_mode():
            _l, out, case, info = public_case(case)
        else:
            out, info = real_direct(case, mutable=mutable)
        print("real :", out)
        oracle(R, case, out, info, "replay")
        if mutable and not fallback_mode():
            out2, info2 = real_direct(case, mutable=True, shared=info["bufs"])
            print("real (second upload, same buffers):", out2)
            oracle(R, case, out2, info2, "replay:second")
        R.proof_stage()
        from .common import run_driver

        print("model:", run_driver("C06", [case.line()])[0])
    for f in R.oracle_failures[before:]:
        print("FAILS:", f["key"], f["what"])
    return 1 if len(R.oracle_failures) > before else 0
