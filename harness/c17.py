"""C17 — ROI (slice) helpers agree with array slicing semantics."""
from __future__ import annotations

import itertools
import math
from collections import abc
from fractions import Fraction

import numpy as np

from .common import Run, bool_s, frac_s, guarded, list_s, opt_s

META = {
    "claimed": True,
    "text": "Lean 4 theorems (unbounded in array length, bounds, pads, scales, point magnitudes) about a "
    "hand model of the ROI helpers: normalisation selects the same elements, 3-way intersection law, "
    "shape/empty/full/centre/pad, scale down-up, region from points (containment, within image, alignment, "
    "non-finite points ignored, no magnitude bound).  Growth round (Model/C17Glue.lean, Props/C17Glue.lean): slices "
    "WITH a step (normalise_step_pos_same_elements for every positive step, normalise_step_neg_same_when_bounds_in_range; "
    "normalise_step_neg_cex / shape_ignores_step_cex = findings normalise-negative-step-open-bound, "
    "shape-empty-full-ignore-step), the one / many dispatch and error branches of roi_normalise / roi_pad / roi_intersect / "
    "roi_intersect3 / roi_is_full / roi_shape / roi_is_empty / roi_center (zip truncation, (shape,) = shape, assert "
    "len(a) == len(b), the empty zip), WindowFromSlice, and the head of roi_from_points from its public arguments (shape_ "
    "spellings incl. XY / float / wrong-length / non-sequence, int() truncation of padding / align, Python % for any sign "
    "of align, align = 0, point arrays that are not (N, 2)): from_points_public_eq reduces the public call to the "
    "modelled core, so containment etc. speak about the public call; from_points_negative_align_cex; norm_slice_2d; "
    "polygon_path (Model/C17Path.lean over C03's edge_index model, Props/C17Path.lean: never fails on non-empty vectors, "
    "every point a border grid point, 2(nx+ny)-4 (+1 closed) of them, closed ring returns to its start; vector lengths "
    "0 and 1, y=None, lists / float32 arrays compared).  The model is tied "
    "to /repo on every run by an exact behavioural correspondence (exhaustive on small lengths, random large) and the "
    "numpy-based property oracle; Spec/PySlice and Spec/PySliceStep are validated against numpy each run.  Every helper "
    "is also called with numpy scalars of every integer dtype (u1..u8, i1..i8) for bounds / lengths / pads / factors - "
    "wherever no quantity the helper has to form leaves the dtype range the answer must equal the python-int answer or "
    "raise - and roi_from_points with point arrays of every integer dtype up to the dtype limits.  That domain is now a "
    "THEOREM over the bounded-width carrier (Model/C17Np.lean over C04's NpT, Props/C17Np.lean): normSliceW_eq, padSliceW_eq, "
    "sliceDimW_eq, alignDownW_eq, alignUpW_eq, scaledDownSliceW_eq, scaledUpSliceW_eq - with every quantity the helper forms "
    "inside the type (wrap_of_fits) the numpy-scalar computation IS the python-int one; numpy_scalars_wrap_cex outside; the "
    "carrier is compared with the real code for all eight integer dtypes (inside the domain as a requirement, 8 000+ cases per "
    "run; on wrapping inputs informationally: 0 differences).  Bounds that are floats / strings are a model with its own error "
    "type (Bnd / BErr: normSliceB_int, normSliceB_str, wrapNegB_float, sliceDimB_cases; ops bnd norm / bnd dim compared "
    "exactly).",
    "note": "Trusted: Lean kernel + {propext, Classical.choice, Quot.sound}; numpy slicing as the reference "
    "semantics.  Known (not repaired): a reversed slice with an open bound is normalised to a slice that selects nothing; "
    "roi_shape / roi_is_empty / roi_is_full ignore the step.  Excluded points run on the real code and compared with the "
    "model: negative align (envelope turned inside out), negative padding (region shrinks), align truncating to 0 "
    "(ZeroDivisionError).  numpy scalars of narrow / unsigned dtypes wrap inside the helpers when an intermediate "
    "(start - pad, n + x, x + align - 1, start * k) leaves the dtype: plain numpy arithmetic, outside the statement; "
    "the spelling oracle is restricted to the no-overflow domain.  NOT mirrored: Tiles / VariableSizedTiles / roi_tiles / "
    "clip_tiles (C04 owns tile indexing), roi_shape of a list (not tuple) roi (AttributeError).  Bounds that are not "
    "integers (floats, strings): the helpers do no validation - float bounds are answered with float results, strings raise "
    "TypeError from the comparison - modelled for roi_normalise / roi_shape (Bnd), counted observations for the other helpers "
    "(non-integer-bound|<fn>|answers / raises).  roi_from_points is 2-D only by construction: a shape "
    "of another length is shape_'s ValueError, a point array that is not (N, 2) the AssertionError (both modelled).",
    "technique": "Lean 4 proof over hand model + exhaustive/random differential correspondence with real code",
    "design_ref": "DESIGN.md §4 C17",
}


def enc(s) -> str:
    if isinstance(s, int):
        return f"i:{s}"
    return f"s:{opt_s(s.start)}:{opt_s(s.stop)}"


def ns(s) -> str:
    return f"{int(s.start)}:{int(s.stop)}"


def enc_coord(v: float) -> str:
    return frac_s(v) if math.isfinite(v) else "nf"


def _import():
    global Shape2d
    from odc.geo import roi as R
    from odc.geo import math as M
    from odc.geo.types import Shape2d

    return R, M


Shape2d = None


class _Seq(abc.Sequence):
    """a plain user-defined Sequence (neither tuple nor list): what ``isinstance(x, abc.Sequence)`` promises to accept"""

    def __init__(self, v):
        self._v = list(v)

    def __len__(self):
        return len(self._v)

    def __getitem__(self, i):
        return self._v[i]


def _canon(o):
    """value of a (possibly failed) N-D region result, independent of the integer type used"""
    return o if isinstance(o, str) else " ".join(ns(x) for x in o)


def shape_spellings(shape):
    """the same N-D shape written the ways callers write shapes"""
    out = {"tuple": tuple(shape), "list": list(shape), "seq": _Seq(shape),
           "npints": tuple(np.int64(v) for v in shape)}
    if len(shape) == 2:
        out["shape2d"] = Shape2d(x=shape[1], y=shape[0])
    return out


# the index types numpy itself hands out (argmax, flatnonzero, shape arithmetic); narrow / unsigned scalar types
# wrap around in plain numpy arithmetic and are outside the statement
NPINTS = (np.int64, np.int32, np.intp)


def npspell(s, rng):
    """the same index expression with numpy integer scalars instead of python ints (where they fit)"""
    def cv(v):
        if v is None or isinstance(v, bool):
            return v
        t = rng.choice(NPINTS)
        try:
            if np.iinfo(t).min <= v <= np.iinfo(t).max:
                return t(v)
        except Exception:  # pylint: disable=broad-except
            pass
        return v
    if isinstance(s, slice):
        return slice(cv(s.start), cv(s.stop))
    if isinstance(s, tuple):
        return tuple(npspell(x, rng) for x in s)
    return cv(s)



def encs(s) -> str:
    """index with its step: i:<k> or s:<a>:<b>:<k>"""
    if isinstance(s, int):
        return f"i:{s}"
    return f"s:{opt_s(s.start)}:{opt_s(s.stop)}:{opt_s(s.step)}"


def sss(s) -> str:
    return f"{int(s.start)}:{int(s.stop)}:{opt_s(None if s.step is None else int(s.step))}"


def enc_arg(x, f) -> str:
    """one value or a sequence of values"""
    if isinstance(x, (tuple, list)):
        return "m|" + list_s(list(x), f)
    return "1|" + f(x)


def fmt_ans(o, f) -> str:
    if isinstance(o, tuple):
        return "many " + list_s(list(o), f)
    return "one " + f(o)


def npw_soft_check(R, soft):
    """informational tie of the wrap-around model outside the no-overflow domain: differences are counted, never a violation"""
    from .common import lean_build, run_driver
    if not soft:
        return
    try:
        ok, _log = lean_build(["driver_c17"])
        outs = run_driver("C17", [l for l, _ in soft]) if ok else None
    except Exception:  # pylint: disable=broad-except
        outs = None
    if outs is None:
        R.notes.append("numpy wrap-around model: driver not available, overflow-domain cases not compared")
        return
    diff = [(l, real, m) for (l, real), m in zip(soft, outs) if real != m]
    R.extra["numpy_wraparound_model_cases"] = len(soft)
    R.extra["numpy_wraparound_model_differences"] = len(diff)
    R.count("npw-soft:agree", len(soft) - len(diff))
    if diff:
        R.count("npw-soft:differ", len(diff))
        R.notes.append(f"numpy wrap-around model (Model/C17Np.lean): {len(diff)} of {len(soft)} overflow-domain cases differ from the "
                       f"bounded-width carrier (outside the statement; not a violation); first: {diff[0][0]} real {diff[0][1]} "
                       f"model {diff[0][2]}")


def sel_set(n, s):
    """reference: indices selected by numpy"""
    return np.arange(n)[s].tolist() if not isinstance(s, int) else [int(np.arange(n)[s])]


# ------------------------------------------------------------------ oracles (numpy is the reference)
def oracle_norm(R: Run, n: int, s, out):
    X = np.arange(n)
    try:
        want = X[s]
    except IndexError:
        return  # original raises; nothing claimed
    got = X[out]
    R.oracle(
        np.array_equal(np.atleast_1d(want), got),
        "normalise-selects-different-elements",
        {"fn": "roi_normalise", "n": n, "s": enc(s), "out": ns(out)},
        f"X[{s}] = {np.atleast_1d(want).tolist()} but X[normalised {out}] = {got.tolist()} for len {n}",
    )


def oracle_int3(R: Run, a, b, out, N: int):
    X = np.arange(N)
    a_, b_, ab = out
    xa, xb, xab = X[a][a_], X[b][b_], X[ab]
    common = sorted(set(X[a].tolist()) & set(X[b].tolist()))
    ok = np.array_equal(xa, xab) and np.array_equal(xb, xab) and xab.tolist() == common
    R.oracle(
        ok,
        "intersect3-law",
        {"fn": "slice_intersect3", "a": enc(a), "b": enc(b), "N": N},
        f"X[a][a']={xa.tolist()} X[b][b']={xb.tolist()} X[ab']={xab.tolist()} common={common}",
    )


def run(R: Run):
    roi, M = _import()
    rng = R.rng
    NMAX = R.pick(6, 8)
    BND = R.pick(9, 12)
    bounds = [None] + list(range(-BND, BND + 1))

    # --- spec validation: PySlice.sel vs numpy (not odc-geo code; validates the reference semantics)
    for n in range(0, NMAX + 1):
        for a in bounds:
            for b in bounds:
                s = slice(a, b)
                R.corr(f"c17 sel {n} {enc(s)}", lambda: list_s(np.arange(n)[s].tolist()), sig="spec-sel|ok")
        for k in range(-BND, BND + 1):
            R.corr(f"c17 sel {n} {enc(k)}", lambda: list_s([int(np.arange(n)[k])]))
    for _ in range(R.pick(2000, 20000)):
        n = rng.randint(0, NMAX)
        a, b = (slice(rng.choice(bounds), rng.choice(bounds)) for _ in range(2))
        R.corr(f"c17 sel2 {n} {enc(a)} {enc(b)}", lambda: list_s(np.arange(n)[a][b].tolist()), sig="spec-sel2|ok")

    # --- roi_normalise: exhaustive over small lengths and bounds
    for n in range(0, NMAX + 1):
        for a in bounds:
            for b in bounds:
                s = slice(a, b)
                res = []

                def f():
                    o = roi.roi_normalise(s, n)
                    res.append(o)
                    return ns(o)

                sig = "norm|" + ("open" if a is None or b is None else "closed") + (
                    "|below-n" if any(v is not None and v < -n for v in (a, b)) else ""
                ) + ("|neg" if any(v is not None and v < 0 for v in (a, b)) else "")
                R.corr(f"c17 norm {n} {enc(s)}", f, sig=sig)
                if res:
                    oracle_norm(R, n, s, res[0])
        for k in range(-n, n):
            res = []

            def g():
                o = roi.roi_normalise(k, n)
                res.append(o)
                return ns(o)

            R.corr(f"c17 norm {n} {enc(k)}", g, sig="norm|int")
            if res:
                oracle_norm(R, n, k, res[0])
    # the same helpers with numpy integer scalars as bounds / indices / lengths / pads / scales
    for _ in range(R.pick(4000, 40000)):
        n = rng.randint(0, 12)
        a, b = (rng.choice([None, rng.randint(-14, 14)]) for _ in range(2))
        s0 = slice(a, b)
        s1 = npspell(s0, rng)
        nn = rng.choice([n, np.int64(n), np.int32(n)])
        R.corr(f"c17 norm {n} {enc(s0)}", lambda: ns(roi.roi_normalise(s1, nn)), sig="norm|numpy-ints")
        o = guarded(lambda: roi.roi_normalise(s1, nn))
        if not isinstance(o, str):
            oracle_norm(R, n, s0, o)
        pad = rng.choice([0, 1, 3])
        R.corr(f"c17 pad {n} {pad} {enc(s0)}", lambda: ns(roi.roi_pad(s1, rng.choice([pad, np.int64(pad)]), nn)), sig="pad|numpy-ints")
        R.corr(f"c17 full {n} {enc(s0)}", lambda: bool_s(roi.roi_is_full(s1, nn)), sig="full|numpy-ints")
        R.corr(f"c17 dim {enc(s0)}", lambda: str(int(roi.roi_shape(s1)[0])), sig="dim|numpy-ints")
        c0, c1 = sorted([rng.randint(0, 12), rng.randint(0, 12)])
        d0, d1 = sorted([rng.randint(0, 12), rng.randint(0, 12)])
        sa, sb = slice(c0, c1), slice(d0, d1)
        R.corr(f"c17 int3 {enc(sa)} {enc(sb)}", lambda: " ".join(ns(v) for v in roi.slice_intersect3(npspell(sa, rng), npspell(sb, rng))), sig="int3|numpy-ints")
        R.corr(f"c17 int {enc(sa)} {enc(sb)}", lambda: ns(roi.roi_intersect(npspell(sa, rng), npspell(sb, rng))), sig="int|numpy-ints")
        R.corr(f"c17 center {enc(sa)}", lambda: frac_s(roi.roi_center(npspell(sa, rng))), sig="center|numpy-ints")
        k = rng.randint(1, 5)
        R.corr(f"c17 down {c0} {c1} {k}", lambda: ns(roi.scaled_down_roi((npspell(sa, rng), npspell(sa, rng)), rng.choice([k, np.int64(k)]))[0]), sig="down|numpy-ints")
        R.corr(f"c17 up {c0} {c1} {k} N", lambda: ns(roi.scaled_up_roi((npspell(sa, rng), npspell(sa, rng)), rng.choice([k, np.int64(k)]))[0]), sig="up|numpy-ints")

    # N-D emptiness incl. inverted regions on every combination of axes: numpy decides
    for nd in (1, 2, 3):
        lim = {1: 5, 2: 4, 3: 2}[nd]
        axes = [slice(a_, b_) for a_ in range(0, lim + 1) for b_ in range(0, lim + 1)]
        X = np.zeros((lim + 1,) * nd)
        for combo in itertools.product(axes, repeat=nd):
            if nd == 3 and rng.random() < R.pick(0.6, 0.0):
                continue
            r_ = guarded(lambda: roi.roi_is_empty(combo if nd > 1 else combo[0]))
            R.oracle(r_ == (X[combo].size == 0), "roi-is-empty-vs-numpy", {"roi": [enc(x) for x in combo]},
                     f"roi_is_empty={r_} but X[roi].size={X[combo].size}")
            R.corr(f"c17 empty {list_s(combo, enc)}", lambda: bool_s(roi.roi_is_empty(combo)), sig=f"empty|{nd}d")

    # large random
    for _ in range(R.pick(500, 5000)):
        n = rng.randint(0, 10**rng.randint(1, 12))
        a, b = (rng.choice([None, rng.randint(-2 * n - 3, 2 * n + 3)]) for _ in range(2))
        s = slice(a, b)
        R.corr(f"c17 norm {n} {enc(s)}", lambda: ns(roi.roi_normalise(s, n)), sig="norm|large")
        # N-D form zips the axes
        o = guarded(lambda: " ".join(ns(x) for x in roi.roi_normalise((s, s), (n, n))))
        R.oracle(o == " ".join([guarded(lambda: ns(roi.roi_normalise(s, n)))] * 2), "normalise-nd-zip",
                 {"s": enc(s), "n": n}, f"N-D normalise differs from per-axis: {o}", trivial=True)

    # --- N-D regions x the ways a shape is written (tuple, list, Shape2d, user Sequence, numpy ints): the answer
    #     depends on the values only, and must mean what numpy means
    for _ in range(R.pick(1500, 15000)):
        nd = rng.choice([1, 2, 2, 2, 3])
        shape = tuple(rng.randint(0, 6) for _ in range(nd))
        X = np.arange(int(np.prod(shape))).reshape(shape) if nd else None
        kind = rng.random()
        if kind < 0.3:      # the full region, spelled in various ways
            r_ = tuple(rng.choice([slice(None), slice(0, n), slice(0, None), slice(None, n)]) for n in shape)
        elif kind < 0.45 and nd > 1:  # fewer axes than the array has: trailing axes are whole
            r_ = tuple(slice(rng.choice([None, 0]), rng.choice([None, n])) for n in shape[:rng.randint(1, nd - 1)])
        elif kind < 0.55 and nd > 1:  # fewer axes, arbitrary bounds on the given ones
            r_ = tuple(slice(rng.choice([None, 0, rng.randint(-n - 1, n + 1)]), rng.choice([None, n, rng.randint(-n - 1, n + 1)]))
                       for n in shape[:rng.randint(1, nd - 1)])
        else:
            r_ = tuple(slice(rng.choice([None, rng.randint(-n - 1, n + 1)]), rng.choice([None, rng.randint(-n - 1, n + 1)]))
                       for n in shape)
        sp = shape_spellings(shape)
        sel = X[r_]
        ref = {}
        nm_ = rng.choice(sorted(sp))      # the model sees the values; the real call gets one of the spellings
        shp_ = sp[nm_]
        sh_s, roi_s = list_s(list(shape), str), list_s(list(r_), enc)
        R.corr(f"c17 normnd {sh_s} {roi_s}", lambda: list_s(list(roi.roi_normalise(r_, shp_)), ns), sig=f"normnd|{nm_}")
        R.corr(f"c17 fullnd {sh_s} {roi_s}", lambda: bool_s(roi.roi_is_full(r_, shp_)), sig=f"fullnd|{nm_}")
        pad = rng.choice([0, 1, 2])
        k = rng.randint(1, 4)
        R.corr(f"c17 padnd {sh_s} {pad} {roi_s}", lambda: list_s(list(roi.roi_pad(r_, pad, shp_)), ns), sig=f"padnd|{nm_}")
        for nm, shp in sp.items():
            case = {"roi": [enc(x) for x in r_], "shape": list(shape), "spelling": nm}
            o = guarded(lambda: roi.roi_normalise(r_, shp))
            okn = (not isinstance(o, str)) and isinstance(o, tuple) and len(o) == len(r_) and np.array_equal(X[o], sel) \
                and all(isinstance(x.start, (int, np.integer)) and isinstance(x.stop, (int, np.integer)) for x in o)
            R.oracle(okn, "normalise-nd-selects-different-elements", case, f"roi_normalise -> {o}", sig=f"norm-nd|{nm}")
            if len(r_) <= nd:   # a roi with fewer entries than axes leaves the trailing axes whole (numpy: X[roi])
                fl = guarded(lambda: roi.roi_is_full(r_, shp))
                want = all((x.start in (0, None)) and (x.stop in (n, None)) for x, n in zip(r_, shape))
                # index-set meaning: whenever the answer is True the selection IS the whole array; and every
                # canonical spelling of "everything" is recognised
                R.oracle(fl is want and (not fl or sel.shape == X.shape), "full-iff-nd", case,
                         f"roi_is_full -> {fl}, X[roi].shape={sel.shape}, X.shape={X.shape}",
                         sig=f"full-nd|{nm}" + ("|fewer-axes" if len(r_) < nd else ""))
            pp = guarded(lambda: roi.roi_pad(r_, pad, shp))
            ref.setdefault("pad", pp if nm == "tuple" else None)
            if nm != "tuple":
                R.oracle(_canon(pp) == _canon(ref["pad"]), "shape-spelling-changes-result:roi_pad", dict(case, pad=pad),
                         f"{pp} vs {ref['pad']} for the tuple spelling", sig=f"pad-nd|{nm}")
            elif not isinstance(pp, str) and len(r_) == nd and all(len(np.arange(n)[x]) for x, n in zip(r_, shape)):
                want_p = tuple(slice(max(0, np.arange(n)[x][0] - pad), min(n, np.arange(n)[x][-1] + 1 + pad))
                               for x, n in zip(r_, shape))
                R.oracle(tuple((int(x.start), int(x.stop)) for x in pp) == tuple((int(x.start), int(x.stop)) for x in want_p),
                         "pad-nd-grows-clamped", dict(case, pad=pad), f"{pp} want {want_p}", sig="pad-nd|tuple")
            if nd == 2 and len(r_) == 2 and not isinstance(o, str) and okn:
                up = guarded(lambda: roi.scaled_up_roi(o, k, shp))
                ref.setdefault("up", up if nm == "tuple" else None)
                if nm != "tuple":
                    R.oracle(_canon(up) == _canon(ref["up"]), "shape-spelling-changes-result:scaled_up_roi", dict(case, k=k),
                             f"{up} vs {ref['up']}", sig=f"up-nd|{nm}")
            ds = guarded(lambda: tuple(int(v) for v in roi.scaled_down_shape(shp, 2)))
            R.oracle(ds == tuple((n + 1) // 2 for n in shape), "scaled-down-shape-nd", case, f"{ds}", sig=f"downshape-nd|{nm}")

    # --- intersections: exhaustive over closed slices with bounds 0..M, plus error branches
    Mx = R.pick(6, 8)
    closed = [slice(a, b) for a in range(0, Mx + 1) for b in range(0, Mx + 1)]
    odd = [slice(None, 3), slice(2, None), slice(-1, 4), slice(1, -2), 3, -1, 0, slice(None, None)]
    for a in closed + odd:
        for b in closed + odd:
            res = []

            def f3():
                o = roi.slice_intersect3(a, b)
                res.append(o)
                return " ".join(ns(x) for x in o)

            sa = a if not isinstance(a, int) else slice(a, a + 1)
            sb = b if not isinstance(b, int) else slice(b, b + 1)
            kind = "err" if (a in odd or b in odd) else (
                "disjoint-l" if sa.stop < sb.start else "disjoint-r" if sa.start > sb.stop else
                "touch" if (sa.stop == sb.start or sb.stop == sa.start) else "overlap")
            R.corr(f"c17 int3 {enc(a)} {enc(b)}", f3, sig=f"int3|{kind}")
            if res:
                for N in (Mx + 2, max(0, Mx - 3)):
                    oracle_int3(R, sa, sb, res[0], N)
            r2 = []

            def f2():
                o = roi.roi_intersect(a, b)
                r2.append(o)
                return ns(o)

            R.corr(f"c17 int {enc(a)} {enc(b)}", f2, sig=f"int|{kind}")
            if r2 and res:
                R.oracle(r2[0] == res[0][2], "intersect-vs-intersect3", {"a": enc(a), "b": enc(b)},
                         f"roi_intersect={r2[0]} slice_intersect3 ab'={res[0][2]}")
    # N-D zip
    for _ in range(R.pick(200, 2000)):
        a = tuple(rng.choice(closed) for _ in range(3))
        b = tuple(rng.choice(closed) for _ in range(3))
        got = roi.roi_intersect3(a, b)
        want = tuple(zip(*[roi.slice_intersect3(x, y) for x, y in zip(a, b)]))
        X = np.arange(9 * 9 * 9).reshape(9, 9, 9)
        ok = got == want and np.array_equal(X[a][got[0]], X[got[2]]) and np.array_equal(X[b][got[1]], X[got[2]])
        R.oracle(ok, "intersect3-nd", {"a": [enc(x) for x in a], "b": [enc(x) for x in b]}, f"{got}")

    # --- shape / empty / full / centre / pad
    some = [slice(a, b) for a in [None] + list(range(-2, 7)) for b in [None] + list(range(-2, 7))] + [0, 2, -1]
    for s in some:
        R.corr(f"c17 dim {enc(s)}", lambda: str(roi.roi_shape(s)[0]))
        R.corr(f"c17 center {enc(s)}", lambda: frac_s(roi.roi_center(s)))
        for n in range(0, 7):
            R.corr(f"c17 full {n} {enc(s)}", lambda: bool_s(roi.roi_is_full(s, n)))
            for pad in (0, 1, 3):
                res = []

                def fp():
                    o = roi.roi_pad(s, pad, n)
                    res.append(o)
                    return ns(o)

                R.corr(f"c17 pad {n} {pad} {enc(s)}", fp)
                if res and not isinstance(s, int):
                    nrm = np.arange(n)[s]
                    X = np.arange(n)
                    got = X[res[0]].tolist()
                    if len(nrm):
                        want = [i for i in range(n) if nrm[0] - pad <= i <= nrm[-1] + pad]
                        R.oracle(got == want, "pad-grows-clamped", {"s": enc(s), "n": n, "pad": pad},
                                 f"got {got} want {want}")
                    R.oracle(0 <= res[0].start and res[0].stop <= n, "pad-within",
                             {"s": enc(s), "n": n, "pad": pad}, f"{res[0]}", trivial=True)
    for s in [x for x in some if not isinstance(x, int) and x.stop is not None and x.stop >= 0 and (x.start or 0) >= 0]:
        # index-set meaning of shape/empty/full for in-range closed regions
        n = 8
        X = np.arange(n)
        if (s.start or 0) <= s.stop:
            R.oracle(roi.roi_shape(s)[0] == len(X[s]), "shape-eq-card", {"s": enc(s)}, "")
            R.oracle(roi.roi_is_empty(s) == (len(X[s]) == 0), "empty-iff", {"s": enc(s)}, "")
        for n in range(1, 8):
            if s.stop <= n:
                R.oracle(roi.roi_is_full(s, n) == (len(np.arange(n)[s]) == n), "full-iff", {"s": enc(s), "n": n}, "")
    for _ in range(R.pick(300, 3000)):
        k = rng.randint(1, 3)
        ss = [rng.choice(some) for _ in range(k)]
        R.corr(f"c17 empty {list_s(ss, enc)}", lambda: bool_s(roi.roi_is_empty(tuple(ss))))

    # --- alignment / scaling (exhaustive small + random large)
    for x in range(-40, 41):
        for a in range(1, 13):
            R.corr(f"c17 alup {x} {a}", lambda: str(M.align_up(x, a)), sig="align|small")
            R.corr(f"c17 aldown {x} {a}", lambda: str(M.align_down(x, a)), sig="align|small")
    for _ in range(R.pick(500, 5000)):
        x = rng.randint(-10**15, 10**15)
        a = rng.randint(1, 10**rng.randint(0, 9))
        u, d = M.align_up(x, a), M.align_down(x, a)
        R.corr(f"c17 alup {x} {a}", lambda: str(u), sig="align|large")
        R.oracle(u % a == 0 and d % a == 0 and d <= x <= u and u - x < a and x - d < a, "align-contract",
                 {"x": x, "a": a}, f"up={u} down={d}")
    for a in range(0, 14):
        for b in range(a, 14):
            for k in range(1, 6):
                res = []

                def fd():
                    o = roi.scaled_down_roi((slice(a, b), slice(a, b)), k)
                    res.append(o)
                    return ns(o[0])

                R.corr(f"c17 down {a} {b} {k}", fd)
                if res:
                    up = roi.scaled_up_roi(res[0], k)[0]
                    R.oracle(up.start <= a and a - up.start < k and b <= up.stop and up.stop - b < k,
                             "scale-down-up", {"a": a, "b": b, "k": k}, f"down={res[0][0]} up={up}")
                for dim in (None, 7, 20):
                    R.corr(f"c17 up {a} {b} {k} {opt_s(dim)}",
                           lambda: ns(roi.scaled_up_roi((slice(a, b), slice(a, b)), k,
                                                        None if dim is None else (dim, dim))[0]))
            R.corr(f"c17 downshape {b} {a + 1}", lambda: str(roi.scaled_down_shape((b,), a + 1)[0]))

    # --- huge integers (beyond 2**53, where a detour through floats would show): scale down/up, shapes,
    #     alignment, intersections, normalisation
    def big():
        e = rng.choice([31, 32, 52, 53, 54, 63, 64, 70, 100])
        return (1 << e) + rng.randint(-3, 3) * rng.choice([1, 1, 7, 1 << 20])

    for _ in range(R.pick(1500, 15000)):
        a = rng.choice([0, rng.randint(0, 50), big()])
        b = a + rng.choice([0, 1, rng.randint(0, 100), big()])
        k = rng.choice([1, 1, 2, 3, 7, 16, rng.randint(1, 1000), (1 << rng.randint(1, 40))])
        res = []

        def fd2():
            o = roi.scaled_down_roi((slice(a, b), slice(a, b)), k)
            res.append(o)
            return ns(o[0])

        R.corr(f"c17 down {a} {b} {k}", fd2, sig="down|big")
        if res:
            up = roi.scaled_up_roi(res[0], k)[0]
            R.oracle(up.start <= a and a - up.start < k and b <= up.stop and up.stop - b < k,
                     "scale-down-up", {"a": a, "b": b, "k": k}, f"down={res[0][0]} up={up}")
        R.corr(f"c17 up {a} {b} {k} N", lambda: ns(roi.scaled_up_roi((slice(a, b), slice(a, b)), k)[0]), sig="up|big")
        R.corr(f"c17 downshape {b} {k}", lambda: str(roi.scaled_down_shape((b,), k)[0]), sig="downshape|big")
        sd = roi.scaled_down_shape((b,), k)[0]
        R.oracle(sd * k >= b and sd * k - b < k, "scaled-down-shape", {"n": b, "k": k}, f"{sd}")
        x = rng.choice([-1, 1]) * big()
        R.corr(f"c17 alup {x} {k}", lambda: str(M.align_up(x, k)), sig="align|big")
        R.corr(f"c17 aldown {x} {k}", lambda: str(M.align_down(x, k)), sig="align|big")
        u, d = M.align_up(x, k), M.align_down(x, k)
        R.oracle(u % k == 0 and d % k == 0 and d <= x <= u and u - x < k and x - d < k, "align-contract",
                 {"x": x, "a": k}, f"up={u} down={d}")
        c, e = sorted([rng.choice([0, big()]), big()])
        sa, sb = slice(a, b), slice(c, e)
        R.corr(f"c17 int3 {enc(sa)} {enc(sb)}", lambda: " ".join(ns(v) for v in roi.slice_intersect3(sa, sb)), sig="int3|big")
        R.corr(f"c17 int {enc(sa)} {enc(sb)}", lambda: ns(roi.roi_intersect(sa, sb)), sig="int|big")
        n = big()
        s_ = slice(rng.choice([None, -big(), a]), rng.choice([None, -big(), b]))
        R.corr(f"c17 norm {n} {enc(s_)}", lambda: ns(roi.roi_normalise(s_, n)), sig="norm|big")
        R.corr(f"c17 pad {n} {k} {enc(s_)}", lambda: ns(roi.roi_pad(s_, k, n)), sig="pad|big")
        # roi_center returns a double: beyond 2**53 only rounding-level agreement can be asked (float stream)
        cc = roi.roi_center(sa)
        R.oracle(abs(Fraction(cc) - Fraction(a + b, 2)) <= Fraction(a + b, 2) * Fraction(1, 2**50), "center-big",
                 {"a": a, "b": b}, f"roi_center={cc!r}")

    # ======================= glue (Model/C17Glue.lean): steps, one / many dispatch, error branches, w_, public from_points
    steps = [None, 1, 2, 3, -1, -2, -3]
    # --- Spec/PySliceStep against numpy, exhaustive on small lengths
    for n in range(0, R.pick(5, 7) + 1):
        for a in [None] + list(range(-n - 2, n + 3)):
            for b in [None] + list(range(-n - 2, n + 3)):
                for k in (1, 2, 3, -1, -2, -3):
                    R.corr(f"c17 selstep {n} {opt_s(a)} {opt_s(b)} {k}", lambda: list_s(np.arange(n)[a:b:k].tolist()),
                           sig=f"spec-selstep|{'pos' if k > 0 else 'neg'}")
    # --- _norm_slice with a step: exhaustive small; numpy decides what "same elements" means
    for n in range(0, R.pick(5, 7) + 1):
        X = np.arange(n)
        for a in [None] + list(range(-n - 2, n + 3)):
            for b in [None] + list(range(-n - 2, n + 3)):
                for k in steps:
                    s_ = slice(a, b, k)
                    res = []

                    def fs():
                        o = roi.roi_normalise(s_, n)
                        res.append(o)
                        return sss(o)

                    R.corr(f"c17 norms {n} {encs(s_)}", fs, sig=f"norms|step={'none' if k is None else 'pos' if k > 0 else 'neg'}")
                    if not res:
                        continue
                    same = np.array_equal(X[s_], X[res[0]])
                    excluded = k is not None and k < 0 and any(v is None or v < -n for v in (a, b))
                    case = {"fn": "roi_normalise", "n": n, "s": encs(s_), "out": sss(res[0])}
                    if excluded:
                        # Lean: normalise_step_neg_cex - an open (or below -n) bound of a reversed slice
                        R.oracle(same, "normalise-negative-step-open-bound", case,
                                 f"X[{s_}] = {X[s_].tolist()} but X[{res[0]}] = {X[res[0]].tolist()} for len {n}", sig="norms-neg-open")
                    else:
                        R.oracle(same, "normalise-selects-different-elements", case,
                                 f"X[{s_}] = {X[s_].tolist()} but X[{res[0]}] = {X[res[0]].tolist()} for len {n}",
                                 sig=f"norms-oracle|{'none' if k is None else 'pos' if k > 0 else 'neg-in-range'}")
                    if k is not None and abs(k) >= 2 and a is not None and b is not None and 0 <= a <= b <= n:
                        # Lean: shape_ignores_step_cex
                        R.oracle(roi.roi_shape(s_)[0] == len(X[s_]) and roi.roi_is_empty(s_) == (len(X[s_]) == 0)
                                 and (not roi.roi_is_full(s_, n) or len(X[s_]) == n), "shape-empty-full-ignore-step",
                                 {"s": encs(s_), "n": n},
                                 f"roi_shape={roi.roi_shape(s_)} roi_is_full={roi.roi_is_full(s_, n)} but X[s] has {len(X[s_])} of {n} elements",
                                 sig="step-shape")
    # --- one / many dispatch of the public helpers (tuple and list containers; scalar or sequence shapes; lengths that do not match)
    def rnd_sidx(n, allow_int=True):
        r = rng.random()
        if allow_int and r < 0.2:
            return rng.randint(-n - 1, n + 1)
        return slice(rng.choice([None, rng.randint(-n - 2, n + 2)]), rng.choice([None, rng.randint(-n - 2, n + 2)]),
                     rng.choice([None, None, None, 1, 2, -1]))

    def rnd_closed(n):
        a, b = rng.randint(0, n), rng.randint(0, n)
        r = rng.random()
        if r < 0.1:
            return rng.randint(-1, n)
        if r < 0.2:
            return slice(rng.choice([None, a]), rng.choice([None, -1, b]), rng.choice([None, 2]))
        return slice(a, b, rng.choice([None, None, 2]))

    cont = lambda xs: rng.choice([tuple, list])(xs)
    for _ in range(R.pick(4000, 40000)):
        nd = rng.choice([0, 1, 1, 2, 2, 3])
        shape = [rng.randint(0, 7) for _ in range(rng.choice([nd, nd, nd, max(0, nd - 1), nd + 1]))]
        roi_one = rng.random() < 0.3
        shape_one = rng.random() < 0.3
        r_ = rnd_sidx(5) if roi_one else cont([rnd_sidx(n) for n in (shape + [4])[:nd]] if nd else [])
        sh_ = rng.randint(0, 7) if shape_one else cont(shape)
        sig_ = f"{'one' if roi_one else 'many'}/{'one' if shape_one else 'many'}"
        pad = rng.choice([0, 1, 2])
        R.corr(f"c17 normarg {enc_arg(r_, encs)} {enc_arg(sh_, str)}", lambda: fmt_ans(roi.roi_normalise(r_, sh_), sss), sig=f"normarg|{sig_}")
        R.corr(f"c17 padarg {enc_arg(r_, encs)} {pad} {enc_arg(sh_, str)}", lambda: fmt_ans(roi.roi_pad(r_, pad, sh_), sss), sig=f"padarg|{sig_}")
        R.corr(f"c17 fullarg {enc_arg(r_, encs)} {enc_arg(sh_, str)}", lambda: bool_s(roi.roi_is_full(r_, sh_)), sig=f"fullarg|{sig_}")
        # intersections / shape / centre: closed operands and the error branches (open right end, negative bounds)
        a_one, b_one = rng.random() < 0.3, rng.random() < 0.3
        na = rng.choice([0, 1, 2, 2, 3])
        nb = rng.choice([na, na, na, na + 1, max(0, na - 1)])
        a_ = rnd_closed(9) if a_one else cont([rnd_closed(9) for _ in range(na)])
        b_ = rnd_closed(9) if b_one else cont([rnd_closed(9) for _ in range(nb)])
        sig2 = f"{'one' if a_one else 'many'}/{'one' if b_one else 'many'}"
        R.corr(f"c17 intarg {enc_arg(a_, encs)} {enc_arg(b_, encs)}", lambda: fmt_ans(roi.roi_intersect(a_, b_), ns), sig=f"intarg|{sig2}")
        if not a_one and not b_one:
            R.corr(f"c17 int3arg {list_s(list(a_), encs)} {list_s(list(b_), encs)}",
                   lambda: " ".join(list_s(list(v), ns) for v in roi.roi_intersect3(tuple(a_), tuple(b_))),
                   sig=f"int3arg|{'len-differs' if na != nb else 'no-axis' if na == 0 else 'ok'}")
        t_ = a_ if a_one else tuple(a_)      # roi_shape tells tuples (N-D) from everything else
        R.corr(f"c17 shapearg {enc_arg(t_, encs)}", lambda: list_s([int(v) for v in roi.roi_shape(t_)]), sig=f"shapearg|{'one' if a_one else 'many'}")
        R.corr(f"c17 emptyarg {enc_arg(t_, encs)}", lambda: bool_s(roi.roi_is_empty(t_)), sig=f"emptyarg|{'one' if a_one else 'many'}")
        R.corr(f"c17 centerarg {enc_arg(a_, encs)}", lambda: fmt_ans(roi.roi_center(a_), lambda v: frac_s(v)), sig=f"centerarg|{'one' if a_one else 'many'}")
    # --- norm_slice_2d: tuple / Index2d / XY spellings of a 2-D index
    from odc.geo.types import Index2d as _Index2d
    from odc.geo.types import xy_ as _xy_
    for _ in range(R.pick(800, 8000)):
        ny, nx = rng.randint(1, 9), rng.randint(1, 9)
        y, x = rng.randint(-ny - 1, ny), rng.randint(-nx - 1, nx)
        r = rng.random()
        if r < 0.3:
            idx_, enc_ = _Index2d(x=x, y=y), f"I|{y}|{x}"
        elif r < 0.45:
            idx_, enc_ = _xy_(x, y), f"I|{y}|{x}"
        elif r < 0.9:
            items = [rng.choice([y, rnd_sidx(ny)]), rng.choice([x, rnd_sidx(nx)])]
            idx_, enc_ = tuple(items), "T|" + list_s(items, encs)
        else:
            idx_, enc_ = rng.choice([[y, x], 5, None, "ab"]), "O"
        R.corr(f"c17 ns2d {enc_} {list_s([ny, nx], str)}", lambda: list_s(list(roi.norm_slice_2d(idx_, (ny, nx))), sss),
               sig=f"ns2d|{enc_[0]}")
        if enc_[0] == "I" and -ny <= y < ny and -nx <= x < nx:
            o = roi.norm_slice_2d(idx_, (ny, nx))
            X = np.arange(ny * nx).reshape(ny, nx)
            R.oracle(X[o].shape == (1, 1) and X[o][0, 0] == X[y, x], "norm-slice-2d-selects-element", {"idx": [y, x], "shape": [ny, nx]},
                     f"{o}")
    # --- polygon_path: ring of grid points in edge_index order, any vector lengths (0 and 1 included), y=None, closed / open
    for _ in range(R.pick(1200, 12000)):
        nx_, ny_ = rng.choice([0, 1, 1, 2, 2, 3, 4, 5, 9]), rng.choice([0, 1, 2, 2, 3, 4, 7])
        xs_ = [rng.randint(-40, 40) / rng.choice([1, 2, 4]) for _ in range(nx_)]
        ys_ = None if rng.random() < 0.2 else [rng.randint(-40, 40) / rng.choice([1, 2, 8]) for _ in range(ny_)]
        closed = rng.random() < 0.5
        as_ = rng.choice(["array", "list", "f32"])
        conv = (lambda v: v) if as_ == "list" else (lambda v: np.asarray(v, dtype="float32" if as_ == "f32" else "float64"))
        res = []

        def fpp_():
            o = roi.polygon_path(conv(xs_), None if ys_ is None else conv(ys_), closed=closed)
            res.append(o)
            return list_s(o.T.tolist(), lambda p: f"{frac_s(float(p[0]))};{frac_s(float(p[1]))}")

        R.corr(f"c17 ppath {list_s(xs_, frac_s)} {'N' if ys_ is None else list_s(ys_, frac_s)} {bool_s(closed)}", fpp_,
               sig=f"ppath|{'closed' if closed else 'open'}|{'y=None' if ys_ is None else 'xy'}|"
                   f"{'empty' if 0 in (nx_, ny_ if ys_ is not None else nx_) else 'line' if 1 in (nx_, ny_ if ys_ is not None else nx_) else 'ring'}")
        Y_ = xs_ if ys_ is None else ys_
        if res and len(xs_) >= 2 and len(Y_) >= 2:
            pts_ = [(float(a_), float(b_)) for a_, b_ in res[0].T.tolist()]
            want_n = 2 * (len(xs_) + len(Y_)) - 4 + (1 if closed else 0)
            on_border = all((px in (xs_[0], xs_[-1]) or py in (Y_[0], Y_[-1])) and px in xs_ and py in Y_ for px, py in pts_)
            R.oracle(len(pts_) == want_n and on_border and (not closed or pts_[0] == pts_[-1]) and pts_[0] == (xs_[0], Y_[0]),
                     "polygon-path-not-the-border-ring", {"x": xs_, "y": ys_, "closed": closed}, f"{pts_[:10]}", sig="ppath-oracle")
    # --- bounds that are not integers: the helpers take them as they come (no TypeError); numpy itself refuses such a slice.
    #     Pinned as an observation (counted in the evidence), not a requirement: validating or converting them is as good
    for s_f in (slice(0.5, 3), slice(1, 2.5), slice(None, 4.0), slice(1.0, None), slice("a", 3), slice(1, "b")):
        for nm_f, call_f in (("roi_normalise", lambda: roi.roi_normalise(s_f, 5)), ("roi_shape", lambda: roi.roi_shape(s_f)),
                             ("roi_pad", lambda: roi.roi_pad(s_f, 1, 5)), ("roi_is_empty", lambda: roi.roi_is_empty(s_f)),
                             ("roi_intersect", lambda: roi.roi_intersect(s_f, slice(0, 4))), ("roi_center", lambda: roi.roi_center(s_f))):
            o_f = guarded(lambda: repr(call_f()))
            R.count(f"non-integer-bound|{nm_f}|{'raises ' + o_f[4:] if o_f.startswith('ERR:') else 'answers'}")
    # --- WindowFromSlice
    def enc_ob(x):
        return f"{opt_s(x.start)}:{opt_s(x.stop)}"

    for _ in range(R.pick(600, 6000)):
        k = rng.choice([2, 2, 2, 2, 0, 1, 3])
        wr = None if rng.random() < 0.05 else cont([slice(rng.choice([None, rng.randint(0, 50)]), rng.choice([None, rng.randint(0, 50)]),
                                                          rng.choice([None, None, 2])) for _ in range(k)])

        def fw():
            o = roi.w_[wr]
            if o is None:
                return "N"
            (y0, y1), (x0, x1) = o
            return f"{y0}:{opt_s(y1)} {x0}:{opt_s(x1)}"

        R.corr("c17 win " + ("N" if wr is None else list_s(list(wr), enc_ob)), fw, sig=f"win|{'none' if wr is None else k}")
        if wr is not None and k == 2 and all(x.start is not None and x.stop is not None and x.start <= x.stop for x in wr):
            o = roi.w_[wr]
            X = np.zeros((60, 60))
            R.oracle(X[wr[0].start:wr[0].stop, wr[1].start:wr[1].stop].shape == (o[0][1] - o[0][0], o[1][1] - o[1][0])
                     and (o[0][0], o[1][0]) == (wr[0].start, wr[1].start), "window-from-slice", {"roi": [enc_ob(x) for x in wr]}, f"{o}")
    # --- roi_from_points from its public arguments: shape spellings (incl. floats, wrong length, non-sequences), float / negative
    #     padding, float / zero / negative align, point arrays that are not (N, 2)

    for _ in range(R.pick(3000, 30000)):
        ny, nx = rng.randint(1, 40), rng.randint(1, 40)
        r = rng.random()
        if r < 0.25:
            shp, shs = Shape2d(x=nx, y=ny), f"S2:{ny}:{nx}"
        elif r < 0.4:
            fx, fy = nx + rng.choice([0, 0.5, 0.75]), ny + rng.choice([0, 0.25])
            shp, shs = _xy_(fx, fy), f"XY:{frac_s(fx)}:{frac_s(fy)}"
        elif r < 0.85:
            vals = [ny + rng.choice([0, 0, 0.5]), nx + rng.choice([0, 0, 0.75])]
            if rng.random() < 0.12:
                vals = vals[:rng.choice([0, 1])] if rng.random() < 0.5 else vals + [3]
            shp, shs = cont(vals), "SEQ:" + list_s(vals, frac_s)
        else:
            shp, shs = rng.choice([7, None, np.array([ny, nx]), 2.5]), "OTHER"
        pad = rng.choice([0, 0, 1, 2, 1.5, 2.75, 0.5, -0.5, -1, -2.5])
        al = rng.choice([None, None, None, 1, 2, 4, 16, 4.5, 0, 0.5, -0.25, -4, -2])
        k = rng.randint(0, 4)
        pts = [(rng.choice([rng.randint(0, 4 * nx) / 4, rng.randint(-8 * nx, 12 * nx) / 8, float("nan"), float("inf")]),
                rng.choice([rng.randint(0, 4 * ny) / 4, rng.randint(-8 * ny, 12 * ny) / 8, float("-inf")])) for _ in range(k)]
        xy_ok = rng.random() < 0.92
        arr_ = np.asarray(pts, dtype="float64").reshape(-1, 2)
        bad_arr = arr_ if xy_ok else rng.choice([np.zeros((3,)), np.zeros((2, 3)), np.zeros((2, 2, 2))])
        line = (f"c17 fromptsp {shs} {frac_s(pad)} {opt_s(None if al is None else frac_s(al))} {bool_s(xy_ok)} "
                + list_s([f"{enc_coord(x)};{enc_coord(y)}" for x, y in pts]))
        res = []

        def fpp():
            o = roi.roi_from_points(bad_arr, shp, padding=pad, align=al)
            res.append(o)
            return f"{ns(o[0])} {ns(o[1])}"

        tagp = ("bad-shape" if shs == "OTHER" or (shs.startswith("SEQ") and len(shp) != 2) else "bad-xy" if not xy_ok else
                "align<=0" if al is not None and int(al) <= 0 else "pad<0" if int(pad) < 0 else "float-args" if (pad != int(pad) or (al and al != int(al))) else "plain")
        R.corr(line, fpp, sig=f"fromptsp|{tagp}|{shs.split(':')[0]}")
        if res and tagp in ("plain", "float-args"):
            ys, xs = res[0]
            ip, ia = int(pad), (None if al is None else int(al))
            ny_, nx_ = (int(ny), int(nx))
            for (x, y) in pts:
                if math.isfinite(x) and math.isfinite(y) and 0 <= x <= nx_ and 0 <= y <= ny_:
                    R.oracle(xs.start <= max(0, x - ip) and min(nx_, x + ip) <= xs.stop and ys.start <= max(0, y - ip)
                             and min(ny_, y + ip) <= ys.stop, "from-points-drops-inside-point", {"line": line, "pt": [x, y]},
                             f"point ({x},{y}) inside the image is not within {res[0]} (padding={pad!r} align={al!r})",
                             sig="fromptsp-contains")
    # --- roi_boundary (model of Model/C03, theorems of Props/C17Boundary): samples on the perimeter, corners
    #     included, 4*(pts_per_side - 1) of them.  Exact stream: step (b - a)/(pps - 1) with pps - 1 a power of two
    #     and small bounds, so that the float32 linspace of the code is exact
    for _ in range(R.pick(600, 6000)):
        pps = rng.choice([2, 2, 3, 5, 9, 17])
        y0, x0 = rng.randint(0, 2000), rng.randint(0, 2000)
        y1, x1 = y0 + rng.choice([0, 1, 2, 7, rng.randint(0, 3000)]), x0 + rng.choice([0, 1, 3, 8, rng.randint(0, 3000)])
        res = []

        def fb():
            o = roi.roi_boundary((slice(y0, y1), slice(x0, x1)), pps)
            res.append(o)
            return list_s(o.tolist(), lambda p: f"{frac_s(float(p[0]))};{frac_s(float(p[1]))}")

        R.corr(f"c17 bnd {y0} {y1} {x0} {x1} {pps}", fb, sig=f"bnd|pps={pps}")
        if res:
            pts_ = [(Fraction(float(a_)), Fraction(float(b_))) for a_, b_ in res[0].tolist()]
            on_perim = all(x0 <= px <= x1 and y0 <= py <= y1 and (px in (x0, x1) or py in (y0, y1)) for px, py in pts_)
            corners = {(x0, y0), (x1, y0), (x1, y1), (x0, y1)} <= set((int(px), int(py)) for px, py in pts_
                                                                      if px.denominator == 1 and py.denominator == 1)
            R.oracle(on_perim and corners and len(pts_) == 4 * (pps - 1), "boundary-not-perimeter-samples",
                     {"roi": [y0, y1, x0, x1], "pps": pps}, f"{pts_[:12]}", sig=f"bnd|pps={pps}")

    # --- roi_from_points
    def pts_case(pts, ny, nx, pad, al, tag, spell=None, int_arr=None):
        """spell: how the SAME mathematical input is spelled — dtype/layout/writeability of the point array,
        container/int type of shape, int type of padding/align.  The expected answer depends on the values only.
        int_arr: the points as an integer ndarray of any integer dtype (values exact, up to the dtype limits)."""
        spell = dict(spell or {})
        if int_arr is not None:
            base = None
            arr = int_arr
            spell["dtype"] = str(int_arr.dtype)
            dt = str(int_arr.dtype)
        else:
            base = np.asarray(pts, dtype="float64").reshape(-1, 2)
            dt = spell.get("dtype", "float64")
            with np.errstate(over="ignore", invalid="ignore"):
                if dt.startswith("int"):
                    if base.size and not (np.isfinite(base).all() and (np.abs(base) < 2.0**(31 if dt == "int32" else 52)).all()
                                          and (base == np.floor(base)).all()):
                        dt = "float64"
                arr = base.astype(dt)
        lay = spell.get("layout", "C")
        if lay == "F":
            arr = np.asfortranarray(arr)
        elif lay == "view":
            big_ = np.zeros((2 * arr.shape[0] + 1, 5), dtype=arr.dtype)
            v_ = big_[1::2, 1:4:2]
            v_[...] = arr
            arr = v_
        if spell.get("ro"):
            arr.flags.writeable = False
        if int_arr is not None:
            vals = [(Fraction(int(x)), Fraction(int(y))) for x, y in arr.tolist()]   # exact python ints
        else:
            with np.errstate(over="ignore", invalid="ignore"):
                vals = arr.astype("float64")  # exact: every float16/32 and |int| < 2**52 is a double
        snapshot = arr.copy()
        shp = {"tuple": lambda: (ny, nx), "list": lambda: [ny, nx], "shape2d": lambda: Shape2d(x=nx, y=ny),
               "npints": lambda: (np.int64(ny), np.int64(nx)), "seq": lambda: _Seq([ny, nx])}[spell.get("shape", "tuple")]()
        pad_ = np.int64(pad) if spell.get("np_pad") else pad
        al_ = np.int64(al) if (spell.get("np_pad") and al is not None) else al
        res = []

        def f():
            o = roi.roi_from_points(arr, shp, padding=pad_, align=al_)
            res.append(o)
            return f"{ns(o[0])} {ns(o[1])}"

        if int_arr is not None:
            line = f"c17 frompts {ny} {nx} {pad} {opt_s(al)} " + list_s([f"{int(x)};{int(y)}" for x, y in vals])
        else:
            line = f"c17 frompts {ny} {nx} {pad} {opt_s(al)} " + list_s(
                [f"{enc_coord(float(x))};{enc_coord(float(y))}" for x, y in vals])
        sp_tag = "|".join(f"{k}={v}" for k, v in sorted(spell.items()) if v not in (False, "float64", "C", "tuple"))
        R.corr(line, f, sig=f"frompts|{tag}" + (f"|{sp_tag}" if sp_tag else ""))
        case = {"line": line, "spell": spell}
        R.oracle(np.array_equal(arr, snapshot, equal_nan=True), "from-points-mutates-caller-array", case,
                 "the caller's point array was modified by the call", trivial=True)
        if not res:
            R.oracle(False, "from-points-raises", case, "roi_from_points raised")
            return
        ys, xs = res[0]
        fin = (list(vals) if int_arr is not None else
               [(Fraction(float(x)), Fraction(float(y))) for x, y in vals if math.isfinite(x) and math.isfinite(y)])
        ok_within = 0 <= ys.start <= ny and 0 <= ys.stop <= ny and 0 <= xs.start <= nx and 0 <= xs.stop <= nx
        R.oracle(ok_within, "from-points-outside-image", case, f"{res[0]}", trivial=True)
        for (x, y) in fin:
            if 0 <= x <= nx and 0 <= y <= ny:
                ok = (xs.start <= max(0, x - pad) and min(nx, x + pad) <= xs.stop
                      and ys.start <= max(0, y - pad) and min(ny, y + pad) <= ys.stop)
                R.oracle(ok, "from-points-drops-inside-point", dict(case, pt=[str(x), str(y)]),
                         f"point ({float(x)},{float(y)}) inside the image is not within {res[0]}")
        if al:
            ok = all((v % al == 0 or v == n) for v, n in
                     ((ys.start, ny), (ys.stop, ny), (xs.start, nx), (xs.stop, nx)))
            R.oracle(ok, "from-points-alignment", case, f"{res[0]}")
        if not fin:
            R.oracle((ys.start, ys.stop, xs.start, xs.stop) == (0, 0, 0, 0), "from-points-nonfinite-only",
                     case, f"{res[0]}")
        else:
            # the region is the envelope of ALL finite points (outliers included), padded, aligned, clipped
            def env(vals, n):
                lo = math.floor(min(vals)) - pad
                hi = math.ceil(max(vals)) + pad
                if al:
                    lo, hi = lo - lo % al, hi + (-hi) % al
                return (min(max(lo, 0), n), min(max(hi, 0), n))

            want = (env([p[1] for p in fin], ny), env([p[0] for p in fin], nx))
            got = ((ys.start, ys.stop), (xs.start, xs.stop))
            R.oracle(got == want, "from-points-not-envelope", case,
                     f"region {got} is not the padded/aligned/clipped envelope {want} of the finite points")

    tiny = [1e-6, 1e-9, 1e-10, 3e-11, 1e-11, 1e-13, 2.0**-40, 2.0**-52]

    def rnd_coord(n, far):
        r = rng.random()
        if r < 0.35:
            return rng.randint(0, 4 * n) / 4
        if r < 0.55:
            # just beside an integer / half integer (a snap-to-int "clean-up" would move it)
            k = rng.randint(0, n) + rng.choice([0, 0, 0.5])
            v = k + rng.choice([-1, 1]) * rng.choice(tiny)
            if rng.random() < 0.3:
                v = float(np.nextafter(k, k + rng.choice([-1, 1])))
            return v
        if r < 0.70:
            return rng.randint(-8 * n, 12 * n) / 8
        if r < 0.80:
            return rng.choice([float("nan"), float("inf"), float("-inf")])
        return rng.choice([-1, 1]) * far

    def rnd_spell(allow_np=True):
        return {"dtype": rng.choice(["float64", "float64", "float32", "float32", "float16", "int64", "int32"]),
                "layout": rng.choice(["C", "C", "F", "view"]), "ro": rng.random() < 0.3,
                "shape": rng.choice(["tuple", "list", "shape2d", "npints", "seq"] if allow_np else
                                    ["tuple", "list", "shape2d", "seq"]),
                "np_pad": rng.random() < 0.3}

    fars = [3e9, 2.0**31, 2.0**31 + 0.5, 2.0**32 + 7, 1e12, 2.0**63, 1e19, 1e300, 2147483647.0, 2147483648.5,
            4294967296.0, 2.0**53 + 2, 9e307, 1e308, 1.7976931348623157e308, 5e-324, 2.0**62]
    for _ in range(R.pick(4000, 40000)):
        ny, nx = rng.randint(1, 40), rng.randint(1, 40)
        k = rng.randint(0, 5)
        far = rng.choice(fars)
        pts = [(rnd_coord(nx, far), rnd_coord(ny, far)) for _ in range(k)]
        if k and rng.random() < 0.15:
            # an outlier that is huge in BOTH coordinates (same or opposite sign)
            sx_, sy_ = rng.choice([-1, 1]), rng.choice([-1, 1])
            pts[rng.randrange(k)] = (sx_ * far, sy_ * rng.choice(fars))
        pad = rng.choice([0, 0, 1, 2, 5])
        al = rng.choice([None, None, 1, 2, 4, 16])
        tag = ("empty" if k == 0 else "far" if any(abs(v) >= 2**31 for p in pts for v in p if math.isfinite(v))
               else "nonfinite" if any(not math.isfinite(v) for p in pts for v in p)
               else "near-int" if any(0 < abs(v - round(v * 2) / 2) < 1e-5 for p in pts for v in p) else "plain")
        pts_case(pts, ny, nx, pad, al, tag, rnd_spell() if rng.random() < 0.5 else None)

    # the same, on images so large that the far edge of the image itself lies where narrower float types lose
    # integer resolution (2**11 for float16, 2**24 for float32, 2**53 for doubles) or beyond 32 / 64 bits
    for _ in range(R.pick(3000, 30000)):
        e = rng.choice([11, 12, 16, 24, 25, 26, 31, 32, 33, 40, 52, 53, 54, 63, 64, 70])
        ny, nx = ((1 << e) + rng.randint(-3, 40) * rng.choice([1, 1, 2, 16]) for _ in range(2))
        k = rng.randint(1, 4)

        def edge_coord(n):
            r = rng.random()
            if r < 0.45:   # near the far edge, inside or just outside
                return float(n - rng.choice([0, 1, 2, 3, 5, 8, 17, 64, 1000]) + rng.choice([0, 0, 0.5, 0.25, 3]))
            if r < 0.6:    # at a precision cliff inside the image
                c = 1 << rng.choice([x for x in (11, 16, 24, 25, 31, 32, 53) if x <= e] or [e])
                return float(c + rng.randint(-4, 4) + rng.choice([0, 0.5]))
            if r < 0.85:
                return rng.randint(0, 400) / 4
            return rng.choice([-1, 1]) * rng.choice(fars)

        pts = [(edge_coord(nx), edge_coord(ny)) for _ in range(k)]
        pad = rng.choice([0, 1, 1, 2, 3, 5, 100])
        al = rng.choice([None, None, 1, 2, 4, 16, 256])
        pts_case(pts, ny, nx, pad, al, f"big-image|2^{e}", rnd_spell(allow_np=e < 62))
    # the point array in every INTEGER dtype (pixel indices from argwhere / nonzero / an offset table), values up to the
    # dtype limits (sentinels), points closer to the origin than the padding: the answer depends on the values only
    INT_DT = ["uint8", "uint16", "uint32", "uint64", "int8", "int16", "int32", "int64"]
    for _ in range(R.pick(2500, 25000)):
        dt_ = rng.choice(INT_DT)
        ii = np.iinfo(dt_)
        ny, nx = rng.randint(1, 60), rng.randint(1, 60)
        pad = rng.choice([0, 1, 2, 3, 5, 100])

        def icoord(n):
            r = rng.random()
            if r < 0.5:
                v = rng.randint(0, n)
            elif r < 0.7:
                v = rng.choice([0, 0, 1, 2, max(0, pad - 1), pad])
            elif r < 0.85:
                v = rng.choice([ii.max, ii.max - 1, ii.max - pad, ii.min, ii.min + 1, ii.min + pad, -1, -pad, n + pad])
            else:
                v = rng.randint(-3 * n, 4 * n)
            return min(max(v, ii.min), ii.max)

        k = rng.randint(0, 4)
        arr_ = np.array([(icoord(nx), icoord(ny)) for _ in range(k)], dtype=dt_).reshape(-1, 2)
        al = rng.choice([None, None, 1, 2, 4, 16])
        lim = bool(k) and bool(((arr_ == ii.max) | (arr_ == ii.min)).any()) and ii.min != 0 or bool(k) and bool((arr_ == ii.max).any())
        pts_case(None, ny, nx, pad, al, f"int-dtype|{'at-limit' if lim else 'below-pad' if k and int(arr_.min()) < pad else 'plain'}",
                 {"layout": rng.choice(["C", "C", "F", "view"]), "ro": rng.random() < 0.2,
                  "shape": rng.choice(["tuple", "list", "shape2d", "npints", "seq"]), "np_pad": rng.random() < 0.3},
                 int_arr=arr_)

    # --- every helper with bounds / lengths / pads / factors spelled as numpy scalars of EVERY integer dtype: wherever all
    #     the quantities the helper has to form (n + x, start - pad, stop + pad, stop - start, x + align - 1, start * k ...)
    #     fit the dtype, the answer must be the answer for python ints (numpy arithmetic is exact there); an exception is
    #     accepted, a different value is not
    def fits(dt_, *vs):
        ii = np.iinfo(dt_)
        return all(ii.min <= v <= ii.max for v in vs)

    def same(got, want):
        return isinstance(got, str) and got.startswith("ERR:") or got == want

    for _ in range(R.pick(6000, 60000)):
        dt_ = getattr(np, rng.choice(INT_DT))
        ii = np.iinfo(dt_)
        top = rng.choice([12, 12, ii.max])
        pick = lambda lo=0: rng.choice([0, 1, 2, 3, 4, 5, 7, rng.randint(lo, 12), min(top, ii.max), min(top, ii.max) - 1,
                                        min(top, ii.max) // 2, min(top, ii.max) // 3])
        a, b = pick(), pick()
        n = pick()
        pad = rng.choice([0, 1, 2, 3])
        k = rng.choice([1, 2, 3, 5, 7, 12])
        sa = slice(a, b)
        sp = slice(dt_(a), dt_(b))
        which = rng.choice(["bounds", "factor", "both"])
        spb = sp if which in ("bounds", "both") else sa
        kk = dt_(k) if which in ("factor", "both") else k
        padk = dt_(pad) if which in ("factor", "both") else pad
        nn = dt_(n) if which in ("factor", "both") else n
        case = {"dtype": dt_.__name__, "a": a, "b": b, "n": n, "pad": pad, "k": k, "spelled": which}
        with np.errstate(all="ignore"):
            import warnings as _w
            with _w.catch_warnings():
                _w.simplefilter("ignore")
                checks = []
                if fits(dt_, n + a, n + b, a - pad, b + pad, n):
                    checks.append(("roi_pad", guarded(lambda: ns(roi.roi_pad(spb, padk, nn))), guarded(lambda: ns(roi.roi_pad(sa, pad, n)))))
                    checks.append(("roi_normalise", guarded(lambda: ns(roi.roi_normalise(spb, nn))), guarded(lambda: ns(roi.roi_normalise(sa, n)))))
                if fits(dt_, b - a, a - b):
                    checks.append(("roi_shape", guarded(lambda: str(int(roi.roi_shape(spb)[0]))), guarded(lambda: str(roi.roi_shape(sa)[0]))))
                    checks.append(("roi_is_empty", guarded(lambda: bool_s(bool(roi.roi_is_empty(spb)))), guarded(lambda: bool_s(roi.roi_is_empty(sa)))))
                checks.append(("roi_is_full", guarded(lambda: bool_s(bool(roi.roi_is_full(spb, nn)))), guarded(lambda: bool_s(roi.roi_is_full(sa, n)))))
                if fits(dt_, b + k - 1, a + k - 1, n + k - 1, k):
                    checks.append(("scaled_down_roi", guarded(lambda: ns(roi.scaled_down_roi((spb, spb), kk)[0])),
                                   guarded(lambda: ns(roi.scaled_down_roi((sa, sa), k)[0]))))
                    checks.append(("scaled_down_shape", guarded(lambda: str(int(roi.scaled_down_shape((nn, nn), kk)[0]))),
                                   guarded(lambda: str(roi.scaled_down_shape((n, n), k)[0]))))
                    checks.append(("align_up", guarded(lambda: str(int(M.align_up(dt_(a) if which != "factor" else a, kk)))),
                                   guarded(lambda: str(M.align_up(a, k)))))
                    checks.append(("align_down", guarded(lambda: str(int(M.align_down(dt_(a) if which != "factor" else a, kk)))),
                                   guarded(lambda: str(M.align_down(a, k)))))
                if fits(dt_, a * k, b * k, k):
                    checks.append(("scaled_up_roi", guarded(lambda: ns(roi.scaled_up_roi((spb, spb), kk)[0])),
                                   guarded(lambda: ns(roi.scaled_up_roi((sa, sa), k)[0]))))
                c, d = sorted([pick(), pick()])
                a2, b2 = sorted([a, b])
                if fits(dt_, b2 - a2, d - c, a2 - c, c - a2, b2 - c, d - a2, -(b2 - a2), -(d - c)):
                    s1, s2 = slice(a2, b2), slice(c, d)
                    p1, p2 = slice(dt_(a2), dt_(b2)), slice(dt_(c), dt_(d))
                    checks.append(("slice_intersect3", guarded(lambda: " ".join(ns(v) for v in roi.slice_intersect3(p1, p2))),
                                   guarded(lambda: " ".join(ns(v) for v in roi.slice_intersect3(s1, s2)))))
                    checks.append(("roi_intersect", guarded(lambda: ns(roi.roi_intersect(p1, p2))), guarded(lambda: ns(roi.roi_intersect(s1, s2)))))
                    case = dict(case, c=c, d=d)
        for fn_, got, want in checks:
            R.oracle(same(got, want), f"numpy-int-spelling-changes-result:{fn_}", dict(case, fn=fn_),
                     f"{fn_} with {dt_.__name__} scalars ({which}) gives {got}, with python ints {want} (no quantity leaves the dtype range)",
                     sig=f"int-spelling|{fn_}|{dt_.__name__}|{'at-limit' if top == ii.max else 'small'}")

    # --- bounds that are floats / strings as a MODEL (Model/C17Np.lean Bnd): floats are answered with floats, strings raise
    #     TypeError; compared exactly (dyadic floats)
    def enc_b(v):
        return "N" if v is None else "s" if isinstance(v, str) else f"f:{frac_s(v)}" if isinstance(v, float) else f"i:{int(v)}"

    def fmt_b(v):
        return "s" if isinstance(v, str) else f"f:{frac_s(float(v))}" if isinstance(v, float) else f"i:{int(v)}"

    for _ in range(R.pick(500, 5000)):
        n = rng.randint(0, 9)
        pickb = lambda: rng.choice([None, rng.randint(-12, 12), rng.randint(-12, 12), rng.randint(-48, 48) / 4, rng.randint(-24, 24) / 2,
                                    float(rng.randint(-12, 12)), "a"])
        a_, b_ = pickb(), pickb()
        sb = slice(a_, b_)
        kind_b = "str" if "a" in (a_, b_) else "float" if any(isinstance(v, float) for v in (a_, b_)) else "int"
        R.corr(f"c17 bnd norm {enc_b(a_)} {enc_b(b_)} {n}",
               lambda: (lambda o: f"{fmt_b(o.start)} {fmt_b(o.stop)}")(roi.roi_normalise(sb, n)), sig=f"bnd-norm|{kind_b}")
        R.corr(f"c17 bnd dim {enc_b(a_)} {enc_b(b_)}", lambda: fmt_b(roi.roi_shape(sb)[0]), sig=f"bnd-dim|{kind_b}")
    # --- every operand a numpy scalar of ONE integer type, INCLUDING the inputs on which the arithmetic wraps around: the
    #     helpers computed in the bounded-width carrier (NpT.wrap) against the real code; Lean: *_W_eq theorems say that inside
    #     the no-overflow domain this is the python-int answer
    import warnings as _w2
    soft_npw = []
    for _ in range(R.pick(1500, 15000)):
        dtn = rng.choice(INT_DT)
        dt_ = getattr(np, dtn)
        ii = np.iinfo(dt_)
        sg, bits = ii.min < 0, ii.bits
        val = lambda lo=None: min(max(rng.choice([0, 1, 2, 3, 5, 7, 12, rng.randint(0, 20), ii.max, ii.max - 1, ii.max // 2, ii.max // 3,
                                                  -1, -3, -rng.randint(0, 20), ii.min, ii.min + 1]), ii.min if lo is None else lo), ii.max)
        a_, b_ = val(), val()
        n_ = val(0)
        pad_ = rng.choice([0, 1, 2, 3])
        k_ = rng.choice([1, 2, 3, 5, 7, 12])
        pre = f"{bool_s(sg)} {bits}"
        with np.errstate(all="ignore"), _w2.catch_warnings():
            _w2.simplefilter("ignore")
            sp_ = slice(dt_(a_), dt_(b_))
            fit = lambda *vs: all(ii.min <= v <= ii.max for v in vs)
            na, nb = (a_ if a_ >= 0 else max(0, n_ + a_)), (b_ if b_ >= 0 else max(0, n_ + b_))
            au = a_ + k_ - 1 - (a_ + k_ - 1) % k_
            bu = b_ + k_ - 1 - (b_ + k_ - 1) % k_
            cases_ = [
                ("norm", f"{a_} {b_} {n_}", lambda: ns(roi.roi_normalise(sp_, dt_(n_))), fit(n_ + a_, n_ + b_)),
                ("pad", f"{a_} {b_} {pad_} {n_}", lambda: ns(roi.roi_pad(sp_, dt_(pad_), dt_(n_))),
                 fit(n_ + a_, n_ + b_, na - pad_, nb + pad_)),
                ("dim", f"{a_} {b_}", lambda: str(int(roi.roi_shape(sp_)[0])), fit(b_ - a_)),
                ("aldown", f"{a_} {k_}", lambda: str(int(M.align_down(dt_(a_), dt_(k_)))), fit(a_ - a_ % k_)),
                ("alup", f"{a_} {k_}", lambda: str(int(M.align_up(dt_(a_), dt_(k_)))), fit(k_ - 1, a_ + k_ - 1, au)),
                ("down", f"{a_} {b_} {k_}", lambda: ns(roi.scaled_down_roi((sp_, sp_), dt_(k_))[0]), fit(k_ - 1, b_ + k_ - 1, bu)),
                ("up", f"{a_} {b_} {k_}", lambda: ns(roi.scaled_up_roi((sp_, sp_), dt_(k_))[0]), fit(a_ * k_, b_ * k_)),
            ]
            for fn_, args_, call_, inside in cases_:
                line_ = f"c17 npw {fn_} {pre} {args_}"
                if inside:
                    # no quantity leaves the type: a requirement (Lean: the answer is the python-int answer)
                    R.corr(line_, call_, sig=f"npw|{fn_}|{dtn}|inside")
                else:
                    # the arithmetic wraps around: how exactly is numpy's business and an implementation that converts to
                    # python ints first is just as good - compared with the wrap-around model informationally
                    soft_npw.append((line_, guarded(call_)))
    npw_soft_check(R, soft_npw)

    # corpus: the replay of finding F11
    pts_case([(5, 5), (1e12, 7)], 100, 100, 0, None, "far")
    pts_case([(5, 5), (-1e12, 7)], 100, 100, 0, None, "far")
    # corpus: seeded changes that once escaped (see seeded/C17-*)
    pts_case([(5, 5), (1e308, 1e308)], 100, 100, 0, None, "far")
    pts_case([(10, 10), (30.00000000001, 20)], 100, 100, 0, None, "near-int")
    pts_case([(9.99999999999, 10), (30, 20)], 100, 100, 0, None, "near-int")

    R.exhaustive = False
    R.assumptions.append("numpy basic slicing is the oracle of Spec/PySlice (validated exhaustively for small n each run)")


def replay(R: Run, rec) -> int:
    roi, M = _import()
    case = rec.get("case") or {}
    print("replay case:", case)
    R.proof_stage()
    if "line" in case:
        line = case["line"]
        print("model:", __import__("harness.common", fromlist=["run_driver"]).run_driver("C17", [line]))
    key = rec.get("key", "")
    o_ = lambda v: None if v == "N" else int(v)

    def dec(sx):
        t = sx.split(":")
        if t[0] == "i":
            return int(t[1])
        return slice(*[o_(v) for v in t[1:]])

    if key.startswith("numpy-int-spelling-changes-result:"):
        import warnings
        warnings.simplefilter("ignore")
        dt_ = getattr(np, case["dtype"])
        fn_ = case["fn"]
        a, b, n, pad, k = (case[x] for x in ("a", "b", "n", "pad", "k"))
        both = case["spelled"] in ("factor", "both")
        bnd = case["spelled"] in ("bounds", "both")
        sa = slice(a, b)
        sp = slice(dt_(a), dt_(b)) if bnd else sa
        kk, pp, nn = (dt_(k), dt_(pad), dt_(n)) if both else (k, pad, n)
        calls = {
            "roi_pad": (lambda: ns(roi.roi_pad(sp, pp, nn)), lambda: ns(roi.roi_pad(sa, pad, n))),
            "roi_normalise": (lambda: ns(roi.roi_normalise(sp, nn)), lambda: ns(roi.roi_normalise(sa, n))),
            "roi_shape": (lambda: str(int(roi.roi_shape(sp)[0])), lambda: str(roi.roi_shape(sa)[0])),
            "roi_is_empty": (lambda: bool_s(bool(roi.roi_is_empty(sp))), lambda: bool_s(roi.roi_is_empty(sa))),
            "roi_is_full": (lambda: bool_s(bool(roi.roi_is_full(sp, nn))), lambda: bool_s(roi.roi_is_full(sa, n))),
            "scaled_down_roi": (lambda: ns(roi.scaled_down_roi((sp, sp), kk)[0]), lambda: ns(roi.scaled_down_roi((sa, sa), k)[0])),
            "scaled_down_shape": (lambda: str(int(roi.scaled_down_shape((nn, nn), kk)[0])), lambda: str(roi.scaled_down_shape((n, n), k)[0])),
            "scaled_up_roi": (lambda: ns(roi.scaled_up_roi((sp, sp), kk)[0]), lambda: ns(roi.scaled_up_roi((sa, sa), k)[0])),
            "align_up": (lambda: str(int(M.align_up(dt_(a) if bnd else a, kk))), lambda: str(M.align_up(a, k))),
            "align_down": (lambda: str(int(M.align_down(dt_(a) if bnd else a, kk))), lambda: str(M.align_down(a, k))),
        }
        if fn_ in ("slice_intersect3", "roi_intersect"):
            a2, b2 = sorted([a, b])
            c, d = case["c"], case["d"]
            p1, p2, s1, s2 = slice(dt_(a2), dt_(b2)), slice(dt_(c), dt_(d)), slice(a2, b2), slice(c, d)
            calls["slice_intersect3"] = (lambda: " ".join(ns(v) for v in roi.slice_intersect3(p1, p2)),
                                         lambda: " ".join(ns(v) for v in roi.slice_intersect3(s1, s2)))
            calls["roi_intersect"] = (lambda: ns(roi.roi_intersect(p1, p2)), lambda: ns(roi.roi_intersect(s1, s2)))
        got, want = guarded(calls[fn_][0]), guarded(calls[fn_][1])
        print(f"{fn_} with {case['dtype']} scalars -> {got}; with python ints -> {want}")
        return 0 if (got == want or got.startswith("ERR:")) else 1
    if key == "full-iff-nd":
        r_ = tuple(dec(x.replace("s:", "s:", 1)) if x.count(":") == 3 else slice(*[o_(v) for v in x.split(":")[1:]]) for x in case["roi"])
        shape = tuple(case["shape"])
        X = np.zeros(shape)
        fl = roi.roi_is_full(r_, shape_spellings(shape)[case.get("spelling", "tuple")])
        want = all((x.start in (0, None)) and (x.stop in (n, None)) for x, n in zip(r_, shape))
        print(f"roi_is_full({r_}, {shape}) -> {fl}; X[roi].shape = {X[r_].shape}, X.shape = {X.shape}")
        return 0 if fl is want else 1
    if key in ("normalise-negative-step-open-bound", "shape-empty-full-ignore-step"):
        s_ = dec(case["s"])
        n = case["n"]
        X = np.arange(n)
        o = roi.roi_normalise(s_, n)
        print(f"X[{s_}] = {X[s_].tolist()}  X[roi_normalise] = X[{o}] = {X[o].tolist()}  roi_shape = "
              f"{guarded(lambda: str(roi.roi_shape(s_)))} roi_is_full = {roi.roi_is_full(s_, n)}")
        if key.startswith("normalise"):
            return 0 if np.array_equal(X[s_], X[o]) else 1
        return 0 if roi.roi_shape(s_)[0] == len(X[s_]) else 1
    if key.startswith("from-points") and case.get("line", "").startswith("c17 frompts "):
        t = case["line"].split(" ")
        ny, nx, pad, al = int(t[2]), int(t[3]), int(t[4]), o_(t[5])
        spell = case.get("spell") or {}
        dt = spell.get("dtype", "float64")

        def cv(v):
            if v == "nf":
                return float("nan")
            fr = Fraction(v)
            return int(fr) if dt.startswith(("int", "uint")) else float(fr)

        body = t[6][1:-1]
        pts = [tuple(cv(v) for v in p_.split(";")) for p_ in body.split(",")] if body else []
        arr = np.array(pts, dtype=dt).reshape(-1, 2)
        o = guarded(lambda: roi.roi_from_points(arr, (ny, nx), padding=np.int64(pad) if spell.get("np_pad") else pad,
                                                align=al))
        fin = [(Fraction(x), Fraction(y)) for x, y in (arr.tolist() if dt.startswith(("int", "uint")) else
                                                         [(float(a_), float(b_)) for a_, b_ in arr.astype("float64")])
               if math.isfinite(x) and math.isfinite(y)]

        def env(vals, n):
            if not vals:
                return (0, 0)
            lo, hi = math.floor(min(vals)) - pad, math.ceil(max(vals)) + pad
            if al:
                lo, hi = lo - lo % al, hi + (-hi) % al
            return (min(max(lo, 0), n), min(max(hi, 0), n))

        want = (env([p_[1] for p_ in fin], ny), env([p_[0] for p_ in fin], nx))
        got = o if isinstance(o, str) else ((int(o[0].start), int(o[0].stop)), (int(o[1].start), int(o[1].stop)))
        print(f"roi_from_points({dt} array {arr.tolist()[:6]}, ({ny},{nx}), padding={pad}, align={al}) -> {got}; envelope {want}")
        return 0 if got == want else 1
    if rec.get("key") == "normalise-selects-different-elements" and case.get("s", "").count(":") == 2:
        n = case["n"]
        _, a, b = case["s"].split(":")
        s = slice(None if a == "N" else int(a), None if b == "N" else int(b))
        out = roi.roi_normalise(s, n)
        X = np.arange(n)
        print("X[s] =", X[s].tolist(), " X[normalised] =", X[out].tolist(), out)
        return 0 if np.array_equal(X[s], X[out]) else 1
    return 0
