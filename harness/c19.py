"""C19 — value objects: equality, hashing, pickling, dask tokens and caches are coherent."""
from __future__ import annotations

import copy
import itertools
import json
import math
import os
import pickle
import subprocess
import sys
from concurrent.futures import ThreadPoolExecutor
from fractions import Fraction
from pathlib import Path
from typing import Any, Dict, List, Optional, Tuple

from . import c19_access as A
from .common import Run, bool_s, frac_s, guarded, list_s

META = {
    "claimed": True,
    "text": "Lean 4 theorems about a hand model of (a) the CRS construction cache, the identity-keyed transformer "
    "cache and CRS eq/hash/pickle/token over a heap with allocation, drop, garbage collection and adversarial id "
    "reuse (the transformer returned for (a,b) converts sys(a)->sys(b) after every history; every cached "
    "transformer converts between the systems of its key while cache entries are immortal, witness of a stale "
    "one when they can be evicted; CRS(spec) always denotes the system of spec even under the key collision; "
    "string form history-free for text/int specs; equality is an equivalence under EPSG coherence; crs == "
    "non-CRS never raises) and (b) eq/hash/dask-token/pickle of BoundingBox, Geometry, GeoBox, GCPGeoBox, Tiles, "
    "VariableSizedTiles, GeoboxTiles (any mix of bases and tilings), XY family, GridSpec, Bin1D written field "
    "by field as the code computes them (equivalence, eq=>hash, unequal=>different token, clone keeps token and "
    "equality), their constructors/normalisers (Resolution, res_, shape_, Shape2d==tuple, roi_tiles / "
    "GeoboxTiles(box, how)), and composition with the C04 / C14 models: equal tokens => same pixel partition / "
    "same grid.  Growth round (Model/C19Glue.lean, Props/C19Glue.lean): the GLUE between the public entry points and "
    "those records - xy_/yx_/ixy_/iyx_/wh_/resxy_/resyx_/res_/shape_ with every error branch, XY.shape/wh/xy/yx, "
    "Shape2d as a sequence (len/iter/index/+/shrink2), == of XY values and of a BoundingBox against any object, "
    "norm_crs / norm_crs_or_error in every branch incl. the utm texts and their +-100 hemisphere arithmetic, the CRS "
    "a Geometry gets (clone / GeoJSON default 4326 / explicit), the constructors BoundingBox, GeoBox, GCPGeoBox, "
    "GCPMapping (CRS defaulting), Tiles, roi_tiles (dispatch on the spelling of how), GeoboxTiles (how / _tiles=), "
    "GridSpec (defaults and the order in which arguments are refused); theorems: normalisers idempotent, equivalent "
    "spellings give one record, what is refused is refused with the stated error before anything is built, and END "
    "TO END GeoBox(shape1, A, spec1) == GeoBox(shape2, A, spec2) / BoundingBox likewise after any two real "
    "histories whenever the shapes normalise alike and pyproj assigns the specs one system; GeoboxTiles(box, how) "
    "and GridSpec(crs, shape, res) reach the modelled cores (mk', C14 grid) with nothing in between.  Second "
    "increment (Model/C19Alias.lean, Props/C19Alias.lean): SHARING of one CRS instance by several values as a heap of "
    "instances and holders that store a reference (norm_crs hands the instance through; CRS(x) / unpickling make a "
    "new instance; the lazy _epsg lives in the instance): values sharing an instance are == with no coherence "
    "hypothesis at all, one .epsg read is seen by every holder and by no copy taken before it, hash / token / "
    "pickle of a holder never move under reads, == between holders of different instances is invariant under reads "
    "exactly under EPSG coherence (the negation of K4; witness of the flip and of the lost transitivity among three "
    "untouched boxes); CRS.authority as a function of the lazy field (history dependent, same root as K4, reported "
    "under its key); the NaN clean-up of the transformer wrapper (arrays: NaN in either coordinate => NaN in both, "
    "finite pairs untouched; scalars handed through); the key-coherence hypotheses of construct_sys_correct are "
    "PROVED for texts that are not EPSG spellings (the key function is the identity there) and remain assumed only "
    "for letter-case variants of EPSG:<code> / the int code (and the pyproj-object keys of K5).  Final increment: ONE "
    "state (Model/C19Unified.lean): the variable table of the history model is the heap of CRS instances, values "
    "(BoundingBox, GeoBox, Geometry, GridSpec, GCPMapping, GeoboxTiles through its base) hold references into it; "
    "every state a unified history reaches is, on its core, a state of the history model (urunFrom_core), so "
    "CRS(spec)-after-any-history, the transformer and pinning theorems hold in the presence of holders, and "
    "holders-see-reads / shared-holders-equal / held-instances-survive-del-and-gc are statements about that same "
    "state; key coherence reduced to pyproj on canonical spellings only (CanonKeyCoherent: an EPSG: spelling reads "
    "like its upper-cased form, 'EPSG:<n>' like the int n; keyCoherent_of_canon); CRS.units / dimensions as a "
    "dispatch over pyproj's axis_info after the polar fix (a projected CRS with >= 2 axes always reports the units of "
    "two different axes); cache accounting for hashable CRS-like objects (an entry per object, never colliding with "
    "text keys).  Tied to /repo on every run: random histories (incl. crs == spec, rejected spellings, cache "
    "capacity) replayed in fresh interpreters and diffed against the model, all pairs of near-identical values "
    "per type (1-ulp neighbours, long lists) diffed against the model, constructors diffed exactly, attribute "
    "sets found by introspection, and model-independent oracles on the real objects (pairs/triples, clones, "
    "read-only use, across interpreters with different hash seeds); the glue functions are driven exhaustively over "
    "small domains of argument forms (numbers of every kind, XY subclasses, tuples and lists of length 0..4, point "
    "geometries, foreign objects) and diffed against the model, a third of the constructions in the histories go "
    "through norm_crs, every copy route of every type (copy constructors, clone(), re-construction from public "
    "accessors, copy, deepcopy, pickle) is judged by oracle and its record diffed against the model, both tiling "
    "representations are compared with each other, authority:code spellings other than EPSG in several letter cases "
    "and with leading white space are part of the history alphabet.  Structural facts (attribute inventories, "
    "private names) are never a verdict: a difference widens the behavioural probing and is noted in the evidence; "
    "private state is read through public accessors or getattr, a stream whose private state is not readable is "
    "skipped with a note.",
    "note": "Known findings (not fixable safely): K1 equal CRSs with different hashes, K2 GCPGeoBox equality by "
    "mapping identity, K4 CRS equality depends on the lazily cached EPSG code, K5/F16 pyproj object / WKT text "
    "cache key collision (a pinned test relies on it); each has a _cex theorem and a replay, the matching "
    "_partial theorem names the excluding hypothesis; K27 BoundingBox == its 4-tuple with a different hash "
    "(BBox.eq_tuple_hash_cex).  GeoboxTiles(box, chunks) follows main after `fix: GeoboxTiles refuses chunk tuples "
    "that do not add up to the GeoBox shape` (GBTiles.ctor_chunks_add_up).  Trusted: pyproj equality/to_epsg/srs as tabulated per "
    "run, CPython id reuse and GC (modelled adversarially, sampled), dask tokenize = injective print of the "
    "normalised tuple, pickle bytes determined by printed field values.  Out of scope and not modelled: "
    "concurrent CRS construction from several threads (cachetools.cached is used without a lock); non-finite "
    "floats (NaN != NaN breaks reflexivity by IEEE).  NOT mirrored in the Lean model (exercised by oracles only "
    "or belonging to other properties): crs.py CRS.__init__ for CRS-like objects with to_wkt (hashable ones are "
    "their own cache key; unhashable ones behave as CRS(obj.to_wkt())) and for bool, CRS.utm itself (pyproj's "
    "database query: its result is an input of the modelled hemisphere arithmetic), _pick_best_crs, "
    "crs_units_per_degree, authority (observed: history dependent through the lazy _epsg, same root as K4) / "
    "units/dimensions/valid_region (units / dimensions / str are checked unchanged by an .epsg read, by oracle); "
    "the instance heap of the sharing model is a layer of its own (the cache histories of part (a) still copy "
    "records; the link is step_epsg_is_fillEpsg); geom.py BoundingBox and Geometry operations (C07/C16), _geojson_to_shapely / "
    "force_2d (only the CRS decision of Geometry.__init__ is modelled), shapely's own ==; geobox.py GeoBox/"
    "GeoboxTiles operations (C02/C12/C16), GeoBox.__rmul__; roi.py tiling look-ups (C04, linked by the composition "
    "theorems); types.py XY.map with an arbitrary function (only map(int) inside shape_), a str / dict / numpy array "
    "given where a sequence is expected, func2map; gridspec.py beyond __init__/__eq__ (C14, linked); gcp.py "
    "_points_to_array numerics (only the CRS defaulting), GCPGeoBox crop/pad/zoom (share the mapping), GCPMapping "
    "p2w/w2p/approx, from_rio.",
    "technique": "Lean 4 proof over hand model + differential correspondence with real code (cache histories run "
    "in processes forked from a job server that imported the modules but never constructed a CRS: pristine caches, "
    "as in a fresh interpreter)",
    "design_ref": "DESIGN.md §4 C19",
}

WORKER = str(Path(__file__).with_name("c19_worker.py"))
PROBE = [[147.0, -35.0], [146.5, -36.25], [148.25, -34.5], [10.0, 50.0], [175.0, -41.0]]

K1 = "crs-eq-hash-differs"
K2 = "gcpgeobox-eq-by-mapping-identity"
K4 = "crs-eq-depends-on-lazy-epsg"
F16 = "crs-str-history-dependent-pyproj-wkt-collision"


# =========================================================================== part (a)
def run_worker(payload: dict, ops: list, timeout: int = 300) -> dict:
    req = dict(payload)
    req["ops"] = ops
    req["probe"] = PROBE
    env = dict(os.environ)
    env["PYTHONPATH"] = os.pathsep.join(p for p in sys.path if p)
    env["PYTHONWARNINGS"] = "ignore"
    p = subprocess.run([sys.executable, WORKER], input=json.dumps(req), capture_output=True, text=True,
                       env=env, timeout=timeout)
    if p.returncode != 0:
        raise RuntimeError("worker failed: " + p.stderr[-800:])
    return json.loads(p.stdout)


def run_jobs(payload: dict, jobs: list, nthreads: int) -> list:
    """All histories through a few job servers (c19_worker.py --serve: modules imported once, every history in a forked
    child with pristine caches).  A history whose server fails is run again the slow way, one interpreter of its own."""
    import queue
    import threading

    q: "queue.Queue" = queue.Queue()
    for i, j in enumerate(jobs):
        q.put((i, j))
    results: list = [None] * len(jobs)
    env = dict(os.environ)
    env["PYTHONPATH"] = os.pathsep.join(p for p in sys.path if p)
    env["PYTHONWARNINGS"] = "ignore"

    def loop():
        proc = None
        while True:
            try:
                i, (_, ops) = q.get_nowait()
            except queue.Empty:
                break
            res = None
            try:
                if proc is None or proc.poll() is not None:
                    proc = subprocess.Popen([sys.executable, WORKER, "--serve"], stdin=subprocess.PIPE,
                                            stdout=subprocess.PIPE, stderr=subprocess.DEVNULL, text=True, env=env)
                req = dict(payload)
                req["ops"] = ops
                req["probe"] = PROBE
                proc.stdin.write(json.dumps(req) + "\n")
                proc.stdin.flush()
                line = proc.stdout.readline()
                res = json.loads(line) if line else None
                if res is not None and "error" in res:
                    res = None
            except Exception:  # pylint: disable=broad-except
                res = None
                if proc is not None:
                    proc.kill()
                    proc = None
            results[i] = res if res is not None else guarded_worker(payload, ops)
        if proc is not None:
            try:
                proc.stdin.close()
                proc.wait(timeout=10)
            except Exception:  # pylint: disable=broad-except
                proc.kill()

    threads = [threading.Thread(target=loop) for _ in range(nthreads)]
    for t in threads:
        t.start()
    for t in threads:
        t.join()
    return results


def lean_ops(ops: list, rng) -> str:
    out = []
    for op in ops:
        k = op[0]
        pick = rng.randint(0, 2)
        if k in ("pt", "pe", "mi", "ms", "md"):
            out.append(f"{k};{op[1]};{op[2]};{pick}")
        elif k == "mp":
            out.append(f"mp;{op[1]};{op[2]};{pick}")
        elif k == "mc":
            out.append(f"mc;{op[1]};{op[2]}")
        elif k == "pk":
            out.append(f"pk;{op[1]};{op[2]};{pick}")
        elif k == "bk":
            out += [f"mi;{op[1]};{c};{rng.randint(0, 2)}" for c in op[2]]
        elif k == "es":
            # `crs == spec`: the model's expansion (Model `eqSpecOps`, variable 99 is used by nothing else)
            out += [f"{'ms' if op[2] == 'str' else 'mi'};99;{op[3]};{pick}", f"eq;{op[1]};99", "dr;99"]
        elif k in ("dr", "pd", "ep"):
            out.append(f"{k};{op[1]}")
        elif k == "gc":
            out.append("gc")
        elif k == "tr":
            out.append(f"tr;{op[1]};{op[2]};{bool_s(op[3])}")
        elif k == "eq":
            out.append(f"eq;{op[1]};{op[2]}")
        else:
            raise ValueError(k)
    return "[" + ",".join(out) + "]"


def spec_ops(W, spec, v: int, pv: int) -> list:
    """ops that build CRS variable v from one spec of the alphabet"""
    kind, x = spec
    if kind == "int":
        return [["mi", v, x, W.einfo[x]["sys"] if W.einfo.get(x) else -1]]
    if kind == "str":
        s = W.sys_of_text(x)
        return [["ms", v, x, -1 if s is None else s]]
    if kind == "dict":
        return [["md", v, x, W.info[x]["sys"]]]
    if kind == "pyproj-epsg":
        return [["pe", pv, x, W.einfo[x]["sys"]], ["mp", v, pv]]
    if kind == "pyproj-text":
        return [["pt", pv, x, W.info[x]["sys"]], ["mp", v, pv]]
    raise ValueError(kind)


def spec_fails(W, spec) -> bool:
    kind, x = spec
    if kind == "int":
        return W.einfo.get(x) is None
    if kind == "str":
        return W.info.get(x) is None
    return False


def rejected_probe(rng, W, spec, others: list, pv: int = 2) -> list:
    """A spec odc-geo rejects today is built into variable 6 (never used otherwise) and then *used*: compared both
    ways with other variables, .epsg read, pickled, a transformer requested.  On the tree as it is every one of
    these steps answers "no such variable" in model and code alike; if the spec starts being accepted the
    correspondence breaks and the oracles judge the value that came out against pyproj."""
    ops = spec_ops(W, spec, 6, pv)
    for x in others[:3]:
        ops += [["eq", 6, x], ["eq", x, 6]]
    ops += [["ep", 6], ["pk", 7, 6], ["eq", 6, 7], ["mc", 7, 6], ["eq", 7, 6]]
    for x in others[:2]:
        ops += [["tr", 6, x, True], ["eq", 7, x]]
    ops += [["dr", 6], ["dr", 7]]
    if ops[0][0] in ("pt", "pe"):
        ops.append(["pd", pv])
    return ops


def gen_history(rng, W, nops: int, nseg: int) -> list:
    ops: list = []
    for _ in range(nseg):
        codes = rng.sample(W.codes, rng.choice([1, 2, 3]))
        pool = [s for c in codes for s in W.lossless[c]]
        exo = [s for c in codes for s in W.exotic.get(c, [])]
        pool += exo + exo   # compound / 3-D / bound spellings of the segment's systems
        # two or three code-less systems in all their spellings: `.epsg` drives them into the looked-up-None state
        for fam in rng.sample(W.codeless, min(len(W.codeless), rng.choice([0, 2, 3]))):
            pool += fam
        # other authorities than EPSG in several letter cases / with leading white space: every spelling is a
        # specification of its own
        for fam in rng.sample(W.authcase, min(len(W.authcase), rng.choice([0, 1, 2]))):
            pool += fam + fam
        lossy = [("str", n) for n in sorted(W.lossy_names)]
        live: set = set()
        plive: set = set()
        seg_end = len(ops) + nops
        while len(ops) < seg_end:
            r = rng.random()
            if r < 0.34 or len(live) < 2:
                q = rng.random()
                spec = rng.choice(lossy) if q < 0.12 else (
                    rng.choice([("str", W.bad_names[0]), ("str", W.bad_names[1]), ("int", 999999)]) if q < 0.16
                    else rng.choice(pool))
                if W.rejected(spec):
                    ops += rejected_probe(rng, W, spec, rng.sample(sorted(live), len(live)))
                    continue
                v = rng.randint(0, 5)
                pv = rng.randint(0, 1)
                new = spec_ops(W, spec, v, pv)
                ops += new
                if new[0][0] in ("pt", "pe"):
                    plive.add(pv)
                if not spec_fails(W, spec):
                    live.add(v)
            elif r < 0.40:
                ops.append(["mc", rng.randint(0, 5), rng.choice(sorted(live))])
                live.add(ops[-1][1])
            elif r < 0.48:
                ops.append(["pk", rng.randint(0, 5), rng.choice(sorted(live))])
                live.add(ops[-1][1])
            elif r < 0.55 and len(live) > 2:
                v = rng.choice(sorted(live))
                live.discard(v)
                ops.append(["dr", v])
            elif r < 0.58 and plive:
                pv = rng.choice(sorted(plive))
                plive.discard(pv)
                ops.append(["pd", pv])
            elif r < 0.65:
                ops.append(["gc"])
            elif r < 0.78:
                a, b, xy = rng.choice(sorted(live)), rng.choice(sorted(live)), rng.random() < 0.8
                ops.append(["tr", a, b, xy])
                if rng.random() < 0.5:   # same pair, other axis convention: the key must tell them apart
                    ops.append(["tr", a, b, not xy])
            elif r < 0.83:
                ops.append(["ep", rng.choice(sorted(live))])
            elif r < 0.88:
                # crs == <something that is not a CRS>: goes through the construction cache, must not raise
                cand = [sp for sp in pool + lossy if sp[0] in ("str", "int")]
                cand += [("str", W.bad_names[0]), ("str", W.bad_names[1]), ("int", 999999)]
                kind, x = rng.choice(cand)
                d = W.einfo.get(x) if kind == "int" else W.info.get(x)
                ops.append(["es", rng.choice(sorted(live)), kind, x, -1 if d is None else d["sys"]])
            else:
                ops.append(["eq", rng.choice(sorted(live)), rng.choice(sorted(live))])
        # end of segment: observe the relation, then drop everything
        ls = sorted(live)
        for a, b in itertools.combinations(ls, 2):
            if rng.random() < 0.5:
                ops.append(["eq", a, b])
        for v in ls:
            ops.append(["dr", v])
        for pv in sorted(plive):
            ops.append(["pd", pv])
        ops.append(["gc"])
    return ops


def gen_churn(rng, W, rounds: int = 2) -> list:
    """allocator churn: request a transformer, drop its source, collect, then build many other systems (CPython
    reuses the freed addresses) and request transformers for them: each must be for the new pair.  This is the
    history on which a bounded / non-pinning `_crs_cache` hands out a stale transformer."""
    codes = list(W.codes)
    rng.shuffle(codes)
    sy = lambda c: W.einfo[c]["sys"]  # noqa: E731
    ops = [["mi", 0, codes[0], sy(codes[0])], ["mi", 1, codes[1], sy(codes[1])], ["tr", 0, 1, True],
           ["tr", 1, 0, True]]
    for c in codes[2:6]:
        ops.append(["ms", 2, rng.choice([f"EPSG:{c}", f"epsg:{c}"]), sy(c)])
    ops += [["dr", 0], ["dr", 2], ["gc"]]
    for c in (codes[2:] * rounds):
        how = rng.random()
        if how < 0.5:
            ops.append(["mi", 0, c, sy(c)])
        elif how < 0.8:
            ops.append(["ms", 0, W.einfo[c]["wkt"], sy(c)])
        else:
            ops += [["pe", 0, c, sy(c)], ["mp", 0, 0], ["pd", 0]]
        ops += [["tr", 0, 1, True], ["tr", 1, 0, rng.random() < 0.7], ["dr", 0], ["gc"]]
    return ops


def gen_capacity(rng, W, n: int) -> list:
    """cache capacity: transformers are requested, their CRS objects dropped, then thousands of further distinct
    specs pass through the process (`_crs_cache` must keep growing: its length is compared with the model's, one
    entry per distinct key) and every new CRS whose pyproj object lands on an address mentioned by a transformer
    key, while the object that owned it is gone, is asked for its transformer (checked against pyproj)."""
    codes = list(W.codes)
    rng.shuffle(codes)
    sy = lambda c: W.einfo[c]["sys"]  # noqa: E731
    ops = []
    for i, c in enumerate(codes[:5]):
        ops += [["mi", 0, c, sy(c)], ["mi", 1, codes[5], sy(codes[5])], ["tr", 0, 1, True], ["tr", 1, 0, True]]
    ops += [["dr", 0], ["gc"]]
    bulk = W.bulk_codes(n, rng)
    k = len(bulk) // 2
    ops += [["bk", 0, bulk[:k]], ["dr", 0], ["gc"]]
    # the first specs again: same strings, same transformers as at the beginning
    for c in codes[:3]:
        ops += [["mi", 0, c, sy(c)], ["tr", 0, 1, True]]
    ops += [["dr", 0], ["gc"], ["bk", 0, bulk[k:]], ["dr", 0], ["gc"]]
    return ops


def known_collision_spec(W, spec) -> bool:
    """input class of finding F16: a pyproj object (or dict → pyproj object) used as a cache key, or the text
    that is the to_wkt() of such an object"""
    kind, x = spec[0], spec[1]
    if kind in ("pyproj-epsg", "pyproj-text", "dict"):
        return True
    return kind == "str" and x in W.wkt_names


def legend(W, obj) -> Dict[str, str]:
    """the stand-in names (#k) used in a case, with the beginning of the text they stand for"""
    import re

    out = {}
    for n in sorted(set(re.findall(r"#d?\d+", json.dumps(obj)))):
        if n in W.texts:
            out[n] = W.texts[n][:90].replace("\n", " ")
        elif n in W.dicts:
            out[n] = "dict " + json.dumps(W.dicts[n])[:80]
    return out


def judge_records(R: Run, W, ops: list, res: dict, fresh: Dict[str, set], hist_id: str):
    """model-independent oracles on what the worker saw"""
    case_base = {"history": ops, "texts": legend(W, ops)}
    for rec in res["records"]:
        k = rec["k"]
        if k == "mk":
            sk = json.dumps(rec["spec"])
            fresh.setdefault(sk, {}).setdefault(rec["str"], hist_id)
            R.oracle(rec["hash_follows_str"] and rec["tok_follows_str"],
                     "crs-hash-token-follow-str", {**case_base, "spec": rec["spec"]},
                     f"CRS({rec['spec']}) and a live instance with the same string form differ in hash / dask token",
                     trivial=rec["twins"] == 0)
        elif k in ("copy", "pickle"):
            ok = rec["eq"] and rec["str_same"] and rec["hash_same"] and rec["tok_same"]
            key = f"crs-{k}-roundtrip"
            if not ok and k == "pickle" and rec["eq"] and rec.get("str") in W.wkt_names:
                # the pickled text is the to_wkt() of a pyproj object: CRS(text) may hit that object's entry
                key = F16
            R.oracle(ok, key, {**case_base, "spec": rec["spec"]},
                     f"CRS {k} of CRS({rec['spec']}): eq={rec['eq']} str_same={rec['str_same']} "
                     f"hash_same={rec['hash_same']} token_same={rec['tok_same']}")
        elif k == "norm-same":
            R.oracle(rec["ok"], "norm_crs-copies-crs-instance", {**case_base, "spec": rec["spec"]},
                     "norm_crs(crs_instance) did not hand back the instance itself")
        elif k == "epsg":
            R.oracle(rec["got"] == rec["want"], "crs-epsg-differs-from-pyproj", {**case_base, "spec": rec["spec"]},
                     f"CRS({rec['spec']}).epsg is {rec['got']} but pyproj's to_epsg() of the same specification is "
                     f"{rec['want']}")
        elif k == "tr":
            R.oracle(rec["ok"], "transformer-converts-wrong-systems",
                     {**case_base, "a": rec["a"], "b": rec["b"], "xy": rec["xy"]},
                     f"transformer for CRS({rec['a']}) -> CRS({rec['b']}) maps probes to {rec['got']} but a fresh "
                     f"pyproj transformer gives {rec['want']}")
        elif k == "eq":
            want = rec["sa"] == rec["sb"]
            ok = rec["r"] == want and rec["r_rev"] == rec["r"] and rec["ne_consistent"]
            key = "crs-eq-wrong"
            # K4 is: a lazily filled EPSG *code* (70 % match) shared by two different systems; a looked-up
            # "no code" (None) is not a code and never makes two systems equal
            if (not ok and rec["r"] and not want and rec["lazy"] and rec["epsg_same"] and rec.get("code") is not None
                    and rec["r_rev"] == rec["r"]):
                key = K4
            R.oracle(ok, key, {**case_base, "a": rec["a"], "b": rec["b"]},
                     f"CRS({rec['a']}) == CRS({rec['b']}) is {rec['r']} (reverse {rec['r_rev']}), pyproj says "
                     f"{'same' if want else 'different'} system; lazily filled _epsg: {rec['lazy']}")
            if rec["r"] and rec["sa"] == rec["sb"]:
                # eq => hash, judged where the equality itself is right (a wrong `==` between different systems is
                # reported above, under K4 or crs-eq-wrong, and not a second time here); K1 is: the SAME system
                # spelled differently
                hk = "crs-eq-hash-same-spelling" if rec["str_same"] else K1
                R.oracle(rec["hash_same"], hk, {**case_base, "a": rec["a"], "b": rec["b"]},
                         f"CRS({rec['a']}) == CRS({rec['b']}) but their hashes differ")
        elif k == "final":
            M, n = rec["M"], len(rec["names"])
            for i in range(n):
                R.oracle(M[i][i], "crs-eq-not-reflexive", {**case_base, "spec": rec["spec"][i]}, "c != c", trivial=True)
            for i, j, l in itertools.product(range(n), repeat=3):
                if M[i][j] and M[j][l] and not M[i][l]:
                    lazy = rec["lazy"][i] or rec["lazy"][j] or rec["lazy"][l]
                    R.oracle(False, K4 if lazy else "crs-eq-not-transitive",
                             {**case_base, "specs": [rec["spec"][i], rec["spec"][j], rec["spec"][l]]},
                             f"a==b and b==c but a!=c for {[rec['spec'][x] for x in (i, j, l)]}")
                    break
            else:
                R.oracle(True, "crs-eq-not-transitive", {"n": n, "h": hist_id}, "", trivial=n < 3)


def part_a(R: Run):
    from .c19_world import EPSG_CODES, World

    rng = R.rng
    W = World(EPSG_CODES)
    ts, es = W.lean_tables()
    payload = W.worker_payload()
    R.extra["crs_alphabet"] = {"codes": W.codes, "texts": len(W.texts), "systems": len(W.reps)}
    R.assumptions.append("pyproj facts (system of a text, srs, to_wkt, to_epsg; `==` is an equivalence on the "
                         "alphabet) are tabulated from pyproj itself on every run and handed to the model")

    jobs: List[Tuple[str, list]] = []
    # every spec alone in a fresh interpreter: the reference for history-freedom
    singles = []
    for c in W.codes[: R.pick(3, len(W.codes))]:
        singles += W.lossless[c]
    singles += [("str", n) for n in sorted(W.lossy_names)]
    for h, ex in sorted(W.exotic.items()):
        singles += [sp for i, sp in enumerate(ex) if sp not in ex[:i]]
    for fam in W.codeless[: R.pick(3, len(W.codeless))]:
        singles += fam[: R.pick(2, len(fam))]
    for fam in W.authcase[: R.pick(1, len(W.authcase))]:
        singles += fam[: R.pick(3, len(fam))]
    for i, spec in enumerate(singles):
        ops = spec_ops(W, spec, 0, 0) + [["ep", 0], ["pk", 1, 0], ["eq", 0, 1], ["tr", 0, 1, True]]
        jobs.append((f"single-{i}", ops))
    # corpus: the replays of findings F16, K1, K4 (shortest histories)
    c0 = W.codes[0]
    wkt0 = W.einfo[c0]["wkt"]
    p4 = sorted(n for n in W.lossy_names if W.info[n]["epsg"] == c0 and W.info[n]["sys"] != W.einfo[c0]["sys"])
    corpus = [
        [["ms", 0, wkt0, 0], ["pe", 0, c0, 0], ["mp", 1, 0], ["eq", 0, 1]],
        [["pe", 0, c0, 0], ["mp", 1, 0], ["ms", 0, wkt0, 0], ["eq", 0, 1]],
        [["mi", 0, c0, 0], ["ms", 1, wkt0, 0], ["eq", 0, 1], ["tr", 0, 1, True]],
    ]
    if p4:
        corpus.append([["ms", 0, p4[0], W.info[p4[0]]["sys"]], ["mi", 1, c0, 0], ["eq", 0, 1], ["ep", 0], ["eq", 0, 1],
                       ["ms", 2, p4[-1], W.info[p4[-1]]["sys"]], ["eq", 2, 0], ["eq", 2, 1]])
        # a copy must carry the *instance's* lazy _epsg, not a freshly computed one
        corpus.append([["ms", 0, p4[0], W.info[p4[0]]["sys"]], ["mc", 1, 0], ["mi", 2, c0, 0], ["eq", 1, 2], ["eq", 0, 2],
                       ["pk", 3, 0], ["eq", 3, 2], ["ep", 0], ["mc", 4, 0], ["eq", 4, 2], ["eq", 1, 2]])
    # every out-of-the-ordinary spelling of a system next to its plain horizontal code, its registered compound
    # code and the WKT twin: accepted ones are compared all round, rejected ones are probed
    for h, ex in sorted(W.exotic.items()):
        ops = [["mi", 0, h, W.einfo[h]["sys"]], ["ms", 1, W.einfo[h]["wkt"], W.einfo[h]["sys"]]]
        held = [0, 1]
        seen = set()
        for spec in ex:
            if json.dumps(spec) in seen:
                continue
            seen.add(json.dumps(spec))
            if W.rejected(spec):
                ops += rejected_probe(rng, W, spec, list(reversed(held)))
            else:
                v = 2 + (len(seen) % 4)
                ops += spec_ops(W, spec, v, 0)
                if v not in held:
                    held.append(v)
                ops += [["eq", v, x] for x in held if x != v] + [["ep", v], ["eq", v, 0]]
        corpus.append(ops)
    # the lazy `_epsg` in every combination of (not looked up | looked up) for both operands of a compared pair,
    # for code-less systems: A, B different systems, A2 another spelling of A, plus copies and pickles
    for i in range(0, len(W.codeless) - 1, 2):
        fa, fb = W.codeless[i], W.codeless[i + 1]
        sa, sb = W.info[fa[0][1]]["sys"], W.info[fb[0][1]]["sys"]
        ops = [["ms", 0, fa[0][1], sa], ["ms", 1, fb[0][1], sb], ["ms", 2, fa[1][1], sa], ["pk", 3, 1]]
        allp = [["eq", a, b] for a in range(4) for b in range(4) if a != b]
        ops += allp
        for v in (0, 1, 2, 3):
            ops += [["ep", v]] + allp
        ops += [["mc", 4, 0], ["pk", 5, 0], ["eq", 4, 1], ["eq", 1, 4], ["eq", 5, 1], ["eq", 4, 3], ["eq", 5, 3],
                ["ep", 5], ["eq", 5, 1], ["eq", 5, 3], ["tr", 0, 1, True], ["tr", 4, 3, True]]
        ops += spec_ops(W, fb[2], 4, 0) + [["ep", 4], ["eq", 4, 0], ["eq", 4, 1], ["eq", 4, 2]]
        corpus.append(ops)
    # authority:code spellings other than EPSG: every letter case / white space variant of a family in one
        # interpreter, in two opposite orders, the earlier ones dropped and collected before the later are built
    fams = list(W.authcase)
    if R.quick and len(fams) > 2:
        fams = [fams[0]] + rng.sample(fams[1:], 1)
    for fam in fams:
        for order in (list(fam), list(reversed(fam))):
            if not R.quick:
                rng.shuffle(order)
            sy = W.info[order[0][1]]["sys"]
            ops = []
            for i, (_, n) in enumerate(order):
                v = i % 3
                ops += [["ms", v, n, sy], ["ep", v] if i % 2 else ["eq", v, v], ["pk", 3, v], ["eq", 3, v]]
                if i >= 1:
                    ops += [["eq", v, (i - 1) % 3], ["tr", v, (i - 1) % 3, True]]
                if i % 3 == 2:
                    ops += [["dr", 0], ["dr", 1], ["gc"], ["ms", 0, order[0][1], sy], ["ms", 1, n, sy], ["eq", 0, 1]]
            ops += [["dr", 0], ["dr", 1], ["dr", 2], ["dr", 3], ["gc"]]
            for _, n in order:
                ops += [["ms", 4, n, sy], ["dr", 4]]
            corpus.append(ops)
    for i, ops in enumerate(corpus):
        jobs.append((f"corpus-{i}", ops))
    for i in range(R.pick(3, 12)):
        jobs.append((f"churn-{i}", gen_churn(rng, W, R.pick(1, 2))))
    for i in range(R.pick(1, 3)):
        jobs.append((f"capacity-{i}", gen_capacity(rng, W, R.pick(2300, 5000))))
    _, es_big = W.lean_tables()   # the capacity histories added codes (table used for those lines only)
    nproc = R.pick(24, 340)
    for i in range(nproc):
        jobs.append((f"rand-{i}", gen_history(rng, W, R.pick(34, 40), R.pick(3, 4))))

    # a third of the constructions go through the argument normaliser of the value types (norm_crs): for the model
    # the same operation (normRun of a .build / .same plan IS construct / the instance; Props/C19Glue.lean)
    for hid, ops in jobs:
        if not hid.startswith(("rand", "corpus")):
            continue
        for i, op in enumerate(ops):
            if op[0] in ("mi", "ms", "md") and len(op) == 4 and rng.random() < 0.33:
                ops[i] = op + ["norm"]
            elif op[0] in ("mp", "mc") and len(op) == 3 and rng.random() < 0.33:
                ops[i] = op + ["norm"]

    # the long histories (cache capacity, allocator churn) are started first: the wall time is that of the longest job
    weight = lambda j: sum(len(o[2]) if o[0] == "bk" else (40 if o[0] == "tr" else 1) for o in j[1])  # noqa: E731
    jobs.sort(key=weight, reverse=True)
    results = _settle_worker_errors(R, payload, jobs, run_jobs(payload, jobs, min(14, os.cpu_count() or 4)))

    fresh: Dict[str, dict] = {}
    hist_ops: Dict[str, list] = {}
    size_lines: list = []
    for (hid, ops), res in zip(jobs, results):
        hist_ops[hid] = ops
        if res is None:
            continue
        line = f"c19 hist {ts} {es_big if hid.startswith('capacity') else es} {lean_ops(ops, rng)}"
        if isinstance(res, str):
            R.corr(line, lambda r=res: r, sig="hist|worker-error")
            continue
        # what a history OBSERVES is the correspondence; the sizes of the two caches are internal state: they are
        # compared with the model's too, but a difference is a note (and whatever it could break - a transformer
        # for recycled ids - is what the churn / capacity histories probe behaviourally), not a verdict
        size_lines.append((hid, line, res["cache"], res["tcache"]))
        line = "c19 histq " + line[len("c19 hist "):]
        real = ",".join(res["obs"])
        kinds = {o[0] for o in ops}
        sig = "hist|" + ("single" if hid.startswith("single") else "corpus" if hid.startswith("corpus") else
                       "churn" if hid.startswith("churn") else "capacity" if hid.startswith("capacity") else "random") \
            + ("|gc" if "gc" in kinds else "") + ("|pyproj-key" if kinds & {"mp", "md"} else "") \
            + ("|err" if any(o.startswith("ERR") for o in res["obs"]) else "")
        R.corr(line, lambda r=real: r, sig=sig)
        R.count("hist-ops", sum(len(o[2]) if o[0] == "bk" else 1 for o in ops))
        judge_records(R, W, ops, res, fresh, hid)

    soft_cache_sizes(R, size_lines)
    # history-freedom: the string form (hence hash and token) of CRS(spec) is the same in every history
    for sk, seen in sorted(fresh.items()):
        spec = json.loads(sk)
        ok = len(seen) == 1
        key = F16 if known_collision_spec(W, spec) else "crs-str-history-dependent"
        hs = list(seen.items())
        case = {"spec": spec, "strs": [s for s, _ in hs], "histories": [hist_ops[h] for _, h in hs[:2]]}
        case["texts"] = legend(W, case)
        R.oracle(ok, key, case,
                 f"str(CRS({spec})) is {hs[0][0][:12]!r} in history {hs[0][1]} but "
                 f"{hs[-1][0][:12]!r} in history {hs[-1][1]}" if not ok else "")
    # lossless equivalent specs give the same system (world sanity, used as the expectation above)
    for c in W.codes:
        systems = set()
        for kind, x in W.lossless[c]:
            systems.add(W.einfo[x]["sys"] if kind in ("int", "pyproj-epsg") else W.info[x]["sys"])
        R.oracle(len(systems) == 1, "pyproj-lossless-specs-differ", {"code": c}, f"systems {systems}", trivial=True)


HOLDER_KINDS = ["bbox", "gbox", "geom", "gridspec", "gcpmap", "gbt"]


def gen_unified(rng, W, nops: int, kind: str) -> list:
    """a history over ONE state: constructions through the cache, copies, unpickled clones, drops, collections,
    transformer requests AND values of one type holding the instances, .epsg read through instances, == of values.
    Instance names are never reused (a value keeps the object, whatever the name is bound to later)."""
    codes = rng.sample(W.codes, 2)
    pool = [s for c in codes for s in W.lossless[c] if s[0] in ("int", "str")] + [("str", n) for n in sorted(W.lossy_names)]
    for fam in rng.sample(W.codeless, min(2, len(W.codeless))):
        pool += [s for s in fam if s[0] == "str"]
    ops: list = []
    live: list = []     # instance names that still have their name
    alive: list = []    # all instances that exist (named or held)
    holders: list = []
    nxt = 0
    while len(ops) < nops:
        r = rng.random()
        if r < 0.22 or len(live) < 2:
            spec = rng.choice(pool)
            if W.rejected(spec) or spec_fails(W, spec):
                continue
            ops += spec_ops(W, spec, nxt, 0)
            live.append(nxt); alive.append(nxt); nxt += 1
        elif r < 0.28:
            ops.append(["mc", nxt, rng.choice(live)]); live.append(nxt); alive.append(nxt); nxt += 1
        elif r < 0.33:
            ops.append(["pk", nxt, rng.choice(live)]); live.append(nxt); alive.append(nxt); nxt += 1
        elif r < 0.50 or len(holders) < 2:
            h = rng.randint(0, 5)
            if rng.random() < 0.1 and kind != "gridspec":
                ops.append(["hn", h, kind])
            else:
                ops.append(["hh", h, rng.choice(live), kind])
            if h not in holders:
                holders.append(h)
        elif r < 0.56:
            h2 = rng.randint(0, 5)
            ops.append(["rh", h2, rng.choice(holders)])
            if h2 not in holders:
                holders.append(h2)
        elif r < 0.70:
            ops.append(["ep", rng.choice(live)])
        elif r < 0.84:
            ops.append(["he", rng.choice(holders), rng.choice(holders)])
        elif r < 0.88 and len(live) > 2:
            v = rng.choice(live)
            live.remove(v)
            ops.append(["dl", v])
        elif r < 0.93:
            ops.append(["gc"])
        elif r < 0.97:
            ops.append(["tr", rng.choice(live), rng.choice(live), True])
        else:
            ops.append(["eq", rng.choice(live), rng.choice(live)])
    return ops


def lean_uops(ops: list, rng) -> str:
    out = []
    for op in ops:
        k = op[0]
        if k == "hh":
            out.append(f"hh;{op[1]};{op[2]}")
        elif k == "hn":
            out.append(f"hn;{op[1]}")
        elif k in ("rh", "he"):
            out.append(f"{k};{op[1]};{op[2]}")
        elif k == "dl":
            out.append(f"dl;{op[1]}")
        else:
            out.append(lean_ops([op], rng)[1:-1])
    return "[" + ",".join(out) + "]"


def part_unified(R: Run):
    """histories over the unified state (Model/C19Unified.lean) in pristine processes"""
    from .c19_world import EPSG_CODES, World

    rng = R.rng
    W = World(EPSG_CODES)
    ts, es = W.lean_tables()
    payload = W.worker_payload()
    kinds = list(HOLDER_KINDS)
    rng.shuffle(kinds)
    jobs = [(f"unified-{i}-{kinds[i % len(kinds)]}", gen_unified(rng, W, R.pick(30, 40), kinds[i % len(kinds)]))
            for i in range(R.pick(6, 60))]
    results = _settle_worker_errors(R, payload, jobs, run_jobs(payload, jobs, min(6, os.cpu_count() or 4)))
    for (hid, ops), res in zip(jobs, results):
        if res is None:
            continue
        line = f"c19 uhist {ts} {es} {lean_uops(ops, rng)}"
        if isinstance(res, str):
            R.corr(line, lambda r=res: r, sig="uhist|worker-error")
            continue
        R.corr(line, lambda r=res: ",".join(r["obs"]), sig="uhist|" + hid.split("-")[-1])
        R.count("uhist-ops", len(ops))
        for rec in res["records"]:
            if rec["k"] == "hold":
                R.oracle(rec["ok"], "value-does-not-hold-the-crs-it-was-given", {"history": ops, "kind": rec["kind"]},
                         f"a {rec['kind']} constructed with crs=<CRS instance> reports another CRS", trivial=True)
        judge_records(R, W, ops, {"records": [r for r in res["records"] if r["k"] != "hold"]}, {}, hid)


def soft_cache_sizes(R: Run, size_lines: list):
    """len(_crs_cache) / size of the transformer cache after each history against the model's: evidence, not verdict"""
    from .common import run_driver

    import re

    if not size_lines or R.proof_break:
        return
    try:
        outs = run_driver(R.prop, [ln for _, ln, _, _ in size_lines])
    except Exception as e:  # pylint: disable=broad-except
        A.note(f"cache sizes not compared: {e}")
        return
    agree = differ = unread = 0
    for (hid, _, c, t), out in zip(size_lines, outs):
        m = re.search(r" cache=(\d+) tcache=(\d+)$", out)
        if c is None or t is None or m is None:
            unread += 1
        elif (int(m.group(1)), int(m.group(2))) == (c, t):
            agree += 1
        else:
            differ += 1
            A.note(f"history {hid}: caches hold {c} / {t} entries, the model's {m.group(1)} / {m.group(2)} (internal state; "
                   "not a verdict)") if differ <= 3 else None
    R.extra["cache_sizes_vs_model"] = {"agree": agree, "differ": differ, "unreadable": unread}
    R.count("cache-sizes-agree", agree)
    if unread:
        A.note("sizes of the CRS construction / transformer caches not readable on this tree: not compared")


def _settle_worker_errors(R, payload, jobs, results):
    """A history whose worker PROCESS failed (server and the one-interpreter fallback both) says nothing about odc-geo:
    it is run once more on its own; if the process fails again and such histories are isolated (at most two of the run)
    they are left out with a note in the evidence instead of being compared with the model as if "ERR:worker" were what
    the code answered.  More than two failing worker processes stay in the correspondence (something systematic)."""
    bad = [i for i, r in enumerate(results) if isinstance(r, str) and r.startswith("ERR:worker")]
    for i in bad:
        results[i] = guarded_worker(payload, jobs[i][1])
    still = [i for i in bad if isinstance(results[i], str) and results[i].startswith("ERR:worker")]
    if bad:
        R.count("history-worker-process-retried", len(bad))
    if 0 < len(still) <= 2:
        for i in still:
            R.notes.append(f"history {jobs[i][0]} not evaluated: worker process failed twice ({results[i][:160]})")
            R.count("history-worker-process-failed|not-evaluated")
            results[i] = None
    return results


def guarded_worker(payload, ops):
    try:
        return run_worker(payload, ops)
    except Exception as e:  # pylint: disable=broad-except
        return "ERR:worker " + str(e)[-300:].replace("\n", " ")


# =========================================================================== part (b)
class Enc:
    """reads the fields of real objects into the records of the Lean model"""

    _W = None

    def __init__(self):
        from .c19_world import World

        # (building the table of pyproj facts takes seconds: one per process, shared by every encoder)
        if Enc._W is None:
            Enc._W = World([4326, 3857, 3577])
        self.W = Enc._W
        self.obj_ids: Dict[int, int] = {}
        self.keep: list = []
        self.sys_cache: Dict[int, int] = {}
        self.map_ids: Dict[int, int] = {}

    def num(self, v) -> str:
        if type(v) is bool:  # pylint: disable=unidiomatic-typecheck
            return "b1" if v else "b0"
        if type(v) is int:  # pylint: disable=unidiomatic-typecheck
            return f"i{v}"
        if type(v) is float:  # pylint: disable=unidiomatic-typecheck
            if not math.isfinite(v):
                raise ValueError("non-finite")
            if v == 0 and math.copysign(1.0, v) < 0:
                return "z"
            return "f" + frac_s(v)
        raise TypeError(f"unexpected scalar type {type(v).__name__}")

    def crs(self, c) -> str:
        if c is None:
            return "N"
        p = A.pyproj_of(c)
        if id(p) not in self.obj_ids:
            self.obj_ids[id(p)] = len(self.obj_ids)
            self.keep.append(p)
            for i, r in enumerate(self.W.reps):
                if r == p:
                    self.sys_cache[id(p)] = i
                    break
            else:
                self.W.reps.append(p)
                self.sys_cache[id(p)] = len(self.W.reps) - 1
        e = A.epsg_state(c)
        es = "U" if e == 0 and e is not None else ("N" if e is None else str(e))
        return f"{self.obj_ids[id(p)]};{self.sys_cache[id(p)]};{es};{self.W.name(str(c))}"

    def xy(self, o) -> str:
        x, y = A.xy_pair(o)
        return f"{type(o).__name__} {self.num(x)} {self.num(y)}"

    def bbox(self, o) -> str:
        return f"{self.crs(o.crs)} " + " ".join(self.num(v) for v in A.bbox_box(o))

    def aff(self, A) -> str:
        return list_s([self.num(v) for v in A[:6]])

    def gbox(self, o) -> str:
        sh = A.gbox_shape(o)
        return f"{self.crs(o.crs)} {int(sh.y)} {int(sh.x)} {self.aff(A.gbox_affine(o))}"

    def gcp(self, o) -> str:
        m = A.gcp_mapping(o)
        if id(m) not in self.map_ids:
            self.map_ids[id(m)] = len(self.map_ids)
            self.keep.append(m)
        pix, wld = A.mapping_arrays(m)
        sh = A.gbox_shape(o)
        return (f"{self.map_ids[id(m)]} {self.crs(m.crs)} {list_s([self.num(float(v)) for v in wld.ravel()])} "
                f"{list_s([self.num(float(v)) for v in pix.ravel()])} {int(sh.y)} {int(sh.x)} "
                f"{self.aff(A.gbox_affine(o))}")

    def tiles_args(self, base, tile) -> str:
        return f"{base[0]} {base[1]} {tile[0]} {tile[1]}"

    def bin(self, o) -> str:
        return f"{self.num(o.sz)} {self.num(o.origin)} {int(o.direction)}"

    def geom(self, o) -> str:
        layout: List[int] = []
        leaves: List[str] = []

        def walk(x):
            if isinstance(x, (tuple, list)):
                layout.append(len(x))
                for y in x:
                    walk(y)
            else:
                leaves.append(self.num(float(x)))

        def tname(gi) -> str:
            if "geometries" in gi:
                return gi["type"] + "(" + ";".join(tname(g) for g in gi["geometries"]) + ")"
            return gi["type"]

        def walk_gi(gi):
            if "geometries" in gi:
                layout.append(len(gi["geometries"]))
                for g in gi["geometries"]:
                    walk_gi(g)
            else:
                walk(gi["coordinates"])

        gi = o.json
        assert gi["type"] == o.geom_type
        walk_gi(gi)
        return f"{self.crs(o.crs)} {tname(gi)} {list_s(layout)} {list_s(leaves)}"


# the attribute inventory the model's records were written against (the same table as Drv `fieldsOf`)
KNOWN_FIELDS = {
    "XY": "_xy", "Resolution": "_xy", "Index2d": "_xy", "Shape2d": "_xy",
    "BoundingBox": "_box,_crs", "Geometry": "crs,geom",
    "GeoBox": "_affine,_crs,_extent,_lazy_ui,_shape", "GCPGeoBox": "_affine,_crs,_extent,_lazy_ui,_mapping,_shape",
    "GCPMapping": "_approx_affine,_crs,_p2w,_pix,_w2p,_wld", "Tiles": "_base_shape,_shape,_tile_shape",
    "VariableSizedTiles": "_offsets", "GeoboxTiles": "_gbox,_tiles", "Bin1D": "direction,origin,sz",
    "GridSpec": "_shape,_xbin,_ybin,crs,origin,resolution,tile_size", "CRS": "_crs,_epsg,_str",
}


def attr_names(o) -> str:
    names = set(getattr(o, "__dict__", {}).keys())
    for klass in type(o).__mro__:
        sl = klass.__dict__.get("__slots__", ())
        names.update([sl] if isinstance(sl, str) else sl)
    return ",".join(sorted(names))


def hash_eq(a, b) -> Optional[bool]:
    try:
        return hash(a) == hash(b)
    except TypeError:
        return None


def same_mapping_content(ga, gb) -> bool:
    import numpy as np

    try:
        ma, mb = A.gcp_mapping(ga), A.gcp_mapping(gb)
    except A.Unavailable:
        # the mapping object is not reachable: judge by content alone (the class K2 is about)
        ma, mb = None, None
    if ma is not None and ma is mb:
        return False
    (pa, wa), (pb, wb) = (A.mapping_arrays(m) if m is not None else _gcp_points(g) for m, g in ((ma, ga), (mb, gb)))
    return bool(np.array_equal(pa, pb) and np.array_equal(wa, wb) and ga.crs == gb.crs and str(ga.crs) == str(gb.crs))


def _gcp_points(g):
    """(pix, wld) of a GCPGeoBox through its public gcps()"""
    import numpy as np

    pts = g.gcps()
    a = A.gbox_affine(g)
    pix = np.asarray([a * (p.col, p.row) for p in pts], dtype="float64")
    return pix, np.asarray([(p.x, p.y) for p in pts], dtype="float64")


def gcp_of(o):
    """the GCPGeoBox inside a value, if the identity of its mapping can decide equality"""
    from odc.geo.gcp import GCPGeoBox
    from odc.geo.geobox import GeoboxTiles

    if isinstance(o, GCPGeoBox):
        return o
    if isinstance(o, GeoboxTiles) and isinstance(o.base, GCPGeoBox):
        return o.base
    return None


def only_mapping_identity_differs(a, b) -> bool:
    """input class of K2: same shape/affine/tiling, content-identical but distinct GCPMapping objects"""
    from odc.geo.geobox import GeoboxTiles

    ga, gb = gcp_of(a), gcp_of(b)
    if ga is None or gb is None or type(a) is not type(b):
        return False
    if isinstance(a, GeoboxTiles):
        ta, tb = getattr(a, "_tiles", None), getattr(b, "_tiles", None)
        try:
            same_tiling = (ta == tb) if (ta is not None and tb is not None) else (a.shape == b.shape and a.chunks == b.chunks)
        except Exception:  # pylint: disable=broad-except
            same_tiling = False
        if not same_tiling:
            return False
    return (A.gbox_shape(ga) == A.gbox_shape(gb) and A.gbox_affine(ga) == A.gbox_affine(gb)
            and same_mapping_content(ga, gb))


def crs_of(o):
    from odc.geo.crs import CRS

    if isinstance(o, CRS):
        return o
    for attr in ("_crs", "crs"):
        c = getattr(o, attr, None)
        if isinstance(c, CRS):
            return c
    return None


def only_crs_spelling_differs(a, b) -> bool:
    """input class of K1: equal objects whose CRSs are equal but spelled differently, everything else that is
    hashed being equal"""
    from odc.geo.geom import BoundingBox
    from odc.geo.geobox import GeoBox

    ca, cb = crs_of(a), crs_of(b)
    if ca is None or cb is None or not ca == cb or str(ca) == str(cb) or hash(ca) == hash(cb):
        return False
    if isinstance(a, BoundingBox) and isinstance(b, BoundingBox):
        return hash(A.bbox_box(a)) == hash(A.bbox_box(b))
    if isinstance(a, GeoBox) and isinstance(b, GeoBox):
        return hash((*A.gbox_shape(a), A.gbox_affine(a))) == hash((*A.gbox_shape(b), A.gbox_affine(b)))
    return a is ca and b is cb


class Family:
    def __init__(self, name: str, ty: str, items: list, enc, ctor_desc: Optional[list] = None):
        self.name, self.ty, self.items, self.enc = name, ty, items, enc
        self.desc = ctor_desc or [repr(o) for o in items]


def copy_routes(o) -> list:
    """every way the public API offers to get "the same value again" from a value: copy constructors, clone(),
    re-construction from the value's own public accessors (next to copy / deepcopy / pickle)"""
    from odc.geo.crs import CRS
    from odc.geo.gcp import GCPGeoBox
    from odc.geo.geobox import GeoBox, GeoboxTiles
    from odc.geo.geom import BoundingBox, Geometry
    from odc.geo.math import Bin1D
    from odc.geo.roi import Tiles, VariableSizedTiles
    from odc.geo.types import XY, Shape2d, ixy_, res_, shape_, xy_, yx_, Index2d, Resolution

    if isinstance(o, Geometry):
        return [("clone", lambda: o.clone()), ("copy-ctor", lambda: Geometry(o)), ("rewrap", lambda: Geometry(o.geom, o.crs)),
                ("clone-of-clone", lambda: Geometry(o.clone()).clone())]
    if isinstance(o, CRS):
        return [("copy-ctor", lambda: CRS(o)), ("from-str", lambda: CRS(str(o)))]
    if isinstance(o, BoundingBox):
        return [("from-accessors", lambda: BoundingBox(o.left, o.bottom, o.right, o.top, o.crs)),
                ("from-tuple", lambda: BoundingBox(*o.bbox, crs=o.crs)), ("from-iter", lambda: BoundingBox(*o, crs=o.crs))]
    if isinstance(o, GeoBox):
        return [("from-accessors", lambda: GeoBox(o.shape, o.affine, o.crs)),
                ("from-tuple", lambda: GeoBox(tuple(o.shape), o.transform, o.crs))]
    if isinstance(o, GCPGeoBox):
        m = getattr(o, "_mapping", None)
        return [] if m is None else [("from-accessors", lambda: GCPGeoBox(o.shape, m, A.gbox_affine(o)))]
    if isinstance(o, GeoboxTiles):
        t = getattr(o, "_tiles", None)
        return [] if t is None else [("from-parts", lambda: GeoboxTiles(o.base, None, _tiles=t))]
    if isinstance(o, Tiles):
        ts = getattr(o, "_tile_shape", None)
        return [] if ts is None else [("from-accessors", lambda: Tiles(o.base, ts))]
    if isinstance(o, VariableSizedTiles):
        return [("from-chunks", lambda: VariableSizedTiles(o.chunks))]
    if isinstance(o, Bin1D):
        return [("from-accessors", lambda: Bin1D(o.sz, o.origin, o.direction))]
    if isinstance(o, Shape2d):
        return [("shape_", lambda: shape_(o)), ("from-xy", lambda: Shape2d(o.x, o.y)), ("xy_", lambda: xy_(o))]
    if isinstance(o, Resolution):
        return [("res_", lambda: res_(o)), ("from-xy", lambda: Resolution(o.x, o.y))]
    if isinstance(o, Index2d):
        return [("ixy_", lambda: ixy_(o)), ("from-xy", lambda: Index2d(o.x, o.y)), ("ixy_(tuple)", lambda: ixy_(o.xy))]
    if isinstance(o, XY):
        return [("xy_", lambda: xy_(o)), ("xy_(tuple)", lambda: xy_(o.xy)), ("yx_(tuple)", lambda: yx_(o.yx))]
    return []


def judge_family(R: Run, fam: Family, tokenize):
    """the property itself on real objects: all pairs and triples of the family"""
    import numpy as np

    xs = fam.items
    n = len(xs)
    tname = fam.name
    toks = [tokenize(o) for o in xs]
    M = np.zeros((n, n), dtype=bool)
    for i in range(n):
        for j in range(n):
            M[i, j] = bool(xs[i] == xs[j])
    for i in range(n):
        R.oracle(bool(M[i, i]), f"{tname}-eq-not-reflexive", {"family": tname, "i": i, "obj": fam.desc[i]},
                 "x != x", trivial=True)
        R.oracle(bool((xs[i] != xs[i]) is False or not (xs[i] != xs[i])), f"{tname}-ne-inconsistent",
                 {"family": tname, "i": i, "obj": fam.desc[i]}, "x != x is true", trivial=True)
    for i in range(n):
        for j in range(i + 1, n):
            case = {"family": tname, "i": i, "j": j, "a": fam.desc[i], "b": fam.desc[j]}
            R.oracle(bool(M[i, j] == M[j, i]), f"{tname}-eq-not-symmetric", case, f"a==b {M[i, j]} b==a {M[j, i]}")
            if M[i, j]:
                h = hash_eq(xs[i], xs[j])
                if h is not None:
                    key = K1 if (not h and only_crs_spelling_differs(xs[i], xs[j])) else f"{tname}-eq-hash"
                    R.oracle(h, key, case, f"{fam.desc[i]} == {fam.desc[j]} but hashes differ")
            else:
                same = toks[i] == toks[j]
                key = K2 if (same and only_mapping_identity_differs(xs[i], xs[j])) else f"{tname}-neq-token"
                R.oracle(not same, key, case, f"{fam.desc[i]} != {fam.desc[j]} but they share dask token {toks[i]}")
    # transitivity over all triples at once: (M·M > 0) ⊆ M
    MM = (M.astype(np.int64) @ M.astype(np.int64)) > 0
    bad = np.argwhere(MM & ~M)
    if len(bad):
        i, l = map(int, bad[0])
        j = int(np.argmax(M[i] & M[:, l]))
        R.oracle(False, f"{tname}-eq-not-transitive",
                 {"family": tname, "i": i, "j": j, "l": l, "a": fam.desc[i], "b": fam.desc[j], "c": fam.desc[l]},
                 f"{fam.desc[i]} == {fam.desc[j]} == {fam.desc[l]} but first != last")
    else:
        R.oracle(True, f"{tname}-eq-not-transitive", {"family": tname, "n": n}, "", trivial=n < 3)
    # copies and pickled clones
    for i, o in enumerate(xs):
        case = {"family": tname, "i": i, "obj": fam.desc[i]}
        routes = [("pickle", lambda o: pickle.loads(pickle.dumps(o))), ("copy", copy.copy), ("deepcopy", copy.deepcopy)]
        routes += [(name, lambda o, f=f: f()) for name, f in copy_routes(o)]
        for how, mk in routes:
            try:
                c = mk(o)
            except Exception as e:  # pylint: disable=broad-except
                R.oracle(False, f"{tname}-{how}-raises", case, f"{how} raised {e!r}")
                continue
            R.oracle(tokenize(c) == toks[i], f"{tname}-{how}-token", case,
                     f"{how} of {fam.desc[i]} has another dask token")
            # the same in the model's terms: the fields of the clone, read back one by one, are a record the model
            # judges against the original's (a copy route that loses / converts a field shows as a wrong record)
            try:
                rec_o, rec_c = fam.enc(o), fam.enc(c)
            except Exception:  # pylint: disable=broad-except
                rec_o = rec_c = None   # (families encoded by their constructor arguments: originals only)
            if rec_c is not None:
                def fc(o=o, c=c, i=i):
                    h = hash_eq(o, c)
                    return f"{bool_s(o == c)} {'-' if h is None else bool_s(h)} {bool_s(tokenize(c) == toks[i])}"
                R.corr(f"c19 pair {fam.ty} {rec_o} {rec_c}", fc, sig=f"clone|{tname}|{how}")
            eq = bool(c == o) and bool(o == c)
            key = f"{tname}-{how}-eq"
            if not eq and how in ("pickle", "deepcopy") and only_mapping_identity_differs(c, o):
                key = K2
            R.oracle(eq, key, case, f"{how} of {fam.desc[i]} is not equal to the original")
            h = hash_eq(c, o)
            if h is not None and eq:
                R.oracle(h, f"{tname}-{how}-hash", case, f"{how} of {fam.desc[i]} is equal but hashes differently")


def corr_family(R: Run, fam: Family, tokenize, max_pairs: Optional[int] = None):
    """model vs code on all pairs: eq, hash equality, token equality"""
    xs = fam.items
    recs = [fam.enc(o) for o in xs]
    toks = [tokenize(o) for o in xs]
    pairs = [(i, j) for i in range(len(xs)) for j in range(len(xs))]
    if max_pairs is not None and len(pairs) > max_pairs:
        pairs = R.rng.sample(pairs, max_pairs)
    for i, j in pairs:
        a, b = xs[i], xs[j]

        def f(a=a, b=b, i=i, j=j):
            h = hash_eq(a, b)
            return f"{bool_s(a == b)} {'-' if h is None else bool_s(h)} {bool_s(toks[i] == toks[j])}"

        nfields = sum(1 for x, y in zip(recs[i].split(" "), recs[j].split(" ")) if x != y)
        R.corr(f"c19 pair {fam.ty} {recs[i]} {recs[j]}", f,
               sig=f"pair|{fam.name}|" + ("same" if nfields == 0 else "1-field" if nfields == 1 else "n-field")
               + ("|trivial" if i == j else ""))


def build_families(quick: bool, E: "Enc") -> dict:
    """The families of near-identical values of every type (deterministic: the same call in another interpreter
    builds the same values in the same order)."""
    import numpy as np
    import shapely
    from affine import Affine

    from odc.geo import geom
    from odc.geo.crs import CRS
    from odc.geo.gcp import GCPGeoBox, GCPMapping
    from odc.geo.geobox import GeoBox, GeoboxTiles
    from odc.geo.gridspec import GridSpec
    from odc.geo.math import Bin1D
    from odc.geo.roi import Tiles, VariableSizedTiles
    from odc.geo.types import XY, Index2d, Resolution, Shape2d, xy_
    import pyproj

    # --- CRS values in several spellings (real cache state, read back field by field)
    wkt = pyproj.CRS.from_epsg(4326).to_wkt()
    crs_vals = [None, CRS("EPSG:4326"), CRS("epsg:4326"), CRS(wkt), CRS("EPSG:3857"), CRS(3577),
                CRS(pyproj.CRS.from_epsg(3857)), CRS(pyproj.CRS.from_epsg(3577).to_json())]
    crs_vals[5].epsg  # noqa: B018  (already known: no lazy fill)
    some_crs = [c for c in crs_vals if c is not None]
    fams: List[Family] = []

    # CRS itself as a value (eq/hash/token through the same machinery; model: BoundingBox with a fixed box
    # would hide nothing, but the pair op for bare CRS is the bbox one with equal boxes)
    nums = [0, 1, 2, -1, 0.0, -0.0, 1.0, 0.5, True, 3]
    small = nums[: 7 if quick else 10]
    # neighbours exactly one ulp apart (a token / hash / pickle that goes through rounded text must still tell
    # them apart) at ordinary, tiny and 1e308 magnitudes; every family below gets members differing by 1 ulp
    # in one float field
    up = lambda v: math.nextafter(v, math.inf)  # noqa: E731
    ulp_pairs = [(0.3, up(0.3)), (1 / 3, up(1 / 3)), (123456.789, up(123456.789)), (1e308, up(1e308)),
                 (-2.5e-300, up(-2.5e-300)), (1.0, up(1.0))]
    assert 0.1 + 0.2 == ulp_pairs[0][1]
    ulps = [v for pr in (ulp_pairs if not quick else ulp_pairs[:4]) for v in pr]

    # --- XY family
    xs: list = []
    for x, y in itertools.product(small, repeat=2):
        xs.append(xy_(x, y))
    for x, y in itertools.product([0, 1, 2, 3], repeat=2):
        xs += [Index2d(x, y), Shape2d(x, y)]
    for v in ulps:
        xs += [xy_(v, 1.0), xy_(1.0, v), Resolution(v, -1.0), Resolution(1.0, v)]
    for x, y in itertools.product([1, 1.0, 2, 0.5, -1, -0.0, 0], repeat=2):
        xs.append(Resolution(x, y))
    xs += [Resolution(1), Resolution(2.0), Resolution(-1)]
    fams.append(Family("XY", "xy", xs, E.xy))

    # --- BoundingBox: one field at a time around a base
    base = (0, 1, 2, 3)
    bbs = []
    for c in crs_vals:
        bbs.append(geom.BoundingBox(*base, c))
    for k in range(4):
        for v in (0, 0.0, -0.0, 1, 1.0, True, 2, 2.5, 3, 3.0):
            b = list(base)
            b[k] = v
            bbs.append(geom.BoundingBox(*b, crs_vals[1]))
            if not quick:
                bbs.append(geom.BoundingBox(*b, crs_vals[3]))
        for v in ulps:
            b = list(base)
            b[k] = v
            bbs.append(geom.BoundingBox(*b, crs_vals[1]))
    fams.append(Family("BoundingBox", "bbox", bbs, E.bbox))

    # --- GeoBox
    A0 = (1.0, 0.0, 10.0, 0.0, -1.0, 20.0)
    gbs = []
    for c in crs_vals:
        gbs.append(GeoBox((3, 4), Affine(*A0), c))
    for shp in ((4, 3), (3, 5), (2, 4), (3, 4)):
        gbs.append(GeoBox(shp, Affine(*A0), crs_vals[1]))
    for k in range(6):
        for v in (0, -0.0, 1, -1, 10, 20, 0.5, 2):
            a = list(A0)
            a[k] = v
            gbs.append(GeoBox((3, 4), Affine(*a), crs_vals[1]))
        for v in ulps[:4] + ulps[6:8]:
            a = list(A0)
            a[k] = v
            gbs.append(GeoBox((3, 4), Affine(*a), crs_vals[1]))
    g_ext = GeoBox((3, 4), Affine(*A0), crs_vals[1])
    _ = g_ext.extent, g_ext.boundingbox   # populate the lazy fields: must not matter
    gbs.append(g_ext)
    gbs.append(GeoBox(Shape2d(x=4, y=3), Affine(*A0), "epsg:4326"))
    fams.append(Family("GeoBox", "gbox", gbs, E.gbox))

    # --- GCPGeoBox
    pix = np.array([(0, 0), (4, 0), (0, 3), (4, 3)], dtype="float64")
    wld = pix * 2 + 10
    wld2 = wld.copy()
    wld2[3, 1] += 0.5
    m1, m1b, m2 = GCPMapping(pix, wld, crs_vals[1]), GCPMapping(pix.copy(), wld.copy(), crs_vals[1]), \
        GCPMapping(pix, wld2, crs_vals[1])
    m3, m4 = GCPMapping(pix, wld, crs_vals[4]), GCPMapping(pix, wld, crs_vals[3])
    m5 = GCPMapping(wld, pix, crs_vals[1])
    gcps = []
    for m in (m1, m1b, m2, m3, m4, m5):
        gcps.append(GCPGeoBox((3, 4), m))
    gcps += [GCPGeoBox((3, 4), m1), GCPGeoBox((4, 3), m1), GCPGeoBox((3, 4), m1, Affine.translation(1, 0)),
             GCPGeoBox((3, 4), m1, Affine.translation(-0.0, 0)), GCPGeoBox((3, 4), m1b, Affine.translation(1, 0)),
             gcps[0][0:2, 0:3], gcps[0][0:3, 0:4], gcps[1][0:2, 0:3]]
    # one ulp in one GCP coordinate / one affine coefficient
    wld3, pix3, wld4 = wld.copy(), pix.copy(), wld.copy()
    wld3[0, 0], pix3[1, 0], wld4[2, 1] = up(wld3[0, 0]), up(pix3[1, 0]), 1e308
    wld5 = wld4.copy()
    wld5[2, 1] = up(1e308)
    for w_, p_ in ((wld3, pix), (wld, pix3), (wld4, pix), (wld5, pix)):
        gcps.append(GCPGeoBox((3, 4), GCPMapping(p_, w_, crs_vals[1])))
    for a_, b_ in ulp_pairs[:4]:
        gcps += [GCPGeoBox((3, 4), m1, Affine.translation(a_, 0)), GCPGeoBox((3, 4), m1, Affine.translation(b_, 0)),
                 GCPGeoBox((3, 4), m1, Affine.scale(1.0, a_)), GCPGeoBox((3, 4), m1, Affine.scale(1.0, b_))]
    # many control points differing only in the middle of the list
    gy, gx = np.meshgrid(np.arange(33, dtype="float64"), np.arange(34, dtype="float64"), indexing="ij")
    pix_l = np.stack([gx.ravel(), gy.ravel()], axis=1)
    wld_l = pix_l * 2 + 10
    wld_l2 = wld_l.copy()
    wld_l2[561, 0] += 0.5
    gcps += [GCPGeoBox((33, 34), GCPMapping(pix_l, wld_l, crs_vals[1])),
             GCPGeoBox((33, 34), GCPMapping(pix_l, wld_l2, crs_vals[1]))]
    _ = m1.p2w, m1.approx   # lazy fields of the mapping
    gcps.append(GCPGeoBox((3, 4), m1))
    def gcp_desc(o):
        m = getattr(o, "_mapping", None)
        pix_, wld_ = A.mapping_arrays(m) if m is not None else _gcp_points(o)
        return (f"{o!r} affine={tuple(A.gbox_affine(o)[:6])!r} mapping#{id(m) % 9973} n={len(wld_)} "
                f"wld[0]={wld_[0].tolist()!r} pix[1]={pix_[min(1, len(pix_) - 1)].tolist()!r} "
                f"sum(wld)={float(wld_.sum())!r}")

    fams.append(Family("GCPGeoBox", "gcp", gcps, E.gcp, [gcp_desc(o) for o in gcps]))

    # --- Tiles: equal tile counts with different base are the interesting neighbours
    rng_b = range(7, 13) if not quick else range(8, 12)
    tl_args = [((by, bx), t) for by in rng_b for bx in rng_b for t in ((5, 5), (5, 4), (4, 5), (3, 3))]
    tl_args += [((10, 10), (10, 10)), ((10, 10), (11, 11)), ((0, 0), (5, 5)), ((1, 10), (5, 5)), ((10, 1), (5, 5))]
    tls = [Tiles(b, t) for b, t in tl_args]
    enc_t = {id(o): E.tiles_args(b, t) for o, (b, t) in zip(tls, tl_args)}
    fams.append(Family("Tiles", "tiles", tls, lambda o: enc_t[id(o)]))

    # --- VariableSizedTiles
    chunk_sets = [((1, 2), (3,)), ((2, 1), (3,)), ((3,), (3,)), ((1, 2), (1, 2)), ((1, 1, 1), (3,)), ((3,), (1, 2)),
                  ((1, 2), (3, 0)), ((1, 2, 0), (3,)), ((0,), (0,)), ((5, 5), (5, 5)), ((5, 4), (5, 4)),
                  ((2 ** 30, 2 ** 30, 5), (1,)), ((2 ** 30, 2 ** 30, 5), (2,)), ((5,), (1,)), ((-2 ** 31 + 5,), (1,)),
                  ((2 ** 30, 2 ** 30, 2 ** 30, 2 ** 30, 5), (1,))]
    # long chunk lists differing only in the middle (a token built from abbreviated text would merge them)
    long_a = (5,) * 1500
    long_b = long_a[:700] + (6, 4) + long_a[702:]
    chunk_sets += [(long_a, (3,)), (long_b, (3,)), ((3,), long_a), ((3,), long_b)]
    vts = [VariableSizedTiles(c) for c in chunk_sets]
    enc_v = {id(o): f"{list_s(c[0])} {list_s(c[1])}" for o, c in zip(vts, chunk_sets)}
    fams.append(Family("VariableSizedTiles", "vst", vts, lambda o: enc_v[id(o)]))

    # --- both representations of a tiling side by side: regular tilings whose tile is smaller than, equal to and
    # LARGER than the base (same single chunk, different tile shape), and for each the variable tiling with
    # exactly its chunks, plus near misses.  `==` across the two classes is part of the relation.
    mix_items, mix_enc = [], {}
    for b_, t_ in [((10, 10), (16, 16)), ((10, 10), (10, 10)), ((10, 10), (10, 16)), ((10, 10), (2048, 2048)),
                   ((10, 10), (5, 5)), ((10, 10), (4, 4)), ((10, 10), (5, 10)), ((9, 10), (5, 5)), ((9, 10), (16, 16)),
                   ((0, 10), (5, 5)), ((1, 1), (1, 1)), ((1, 1), (7, 7))]:
        o = Tiles(b_, t_)
        mix_items.append(o)
        mix_enc[id(o)] = "T " + E.tiles_args(b_, t_)
        try:
            ch = tuple(tuple(int(v) for v in c_) for c_ in o.chunks)
        except IndexError:
            continue   # a tiling without tiles has no chunks to ask for (Tiles.chunks looks at tile (0, 0))
        for ch_ in (ch, (ch[0], ch[1][::-1])) if not quick or t_ != (4, 4) else (ch,):
            if any(id(x) for x in mix_items if isinstance(x, VariableSizedTiles) and x.chunks == ch_):
                continue
            v_ = VariableSizedTiles(ch_)
            mix_items.append(v_)
            mix_enc[id(v_)] = f"V {list_s(ch_[0])} {list_s(ch_[1])}"
    for ch_ in (((10,), (5, 5)), ((4, 6), (5, 5)), ((10,), ()), ((), ()), ((5, 5, 0), (10,))):
        v_ = VariableSizedTiles(ch_)
        mix_items.append(v_)
        mix_enc[id(v_)] = f"V {list_s(ch_[0])} {list_s(ch_[1])}"
    # (repr() of a tiling without tiles raises IndexError - it formats tile (0, 0): describe by the arguments)
    fams.append(Family("Tilings", "atiles", mix_items, lambda o: mix_enc[id(o)],
                       [("Tiles base,tile " if isinstance(o, Tiles) else "VariableSizedTiles chunks ") + mix_enc[id(o)][2:]
                        for o in mix_items]))

    # --- GeoboxTiles (over GeoBox and GCPGeoBox, regular and variable tilings)
    gbt_items, gbt_enc = [], {}
    gb_small = [GeoBox((9, 10), Affine(*A0), crs_vals[1]), GeoBox((10, 10), Affine(*A0), crs_vals[1]),
                GeoBox((10, 10), Affine(*A0), crs_vals[3]), GeoBox((10, 10), Affine(*A0), crs_vals[4]),
                GeoBox((10, 10), Affine.translation(1, 0) * Affine(*A0), crs_vals[1]),
                GeoBox((10, 9), Affine(*A0), None),
                GeoBox((10, 10), Affine.translation(0.3, 0) * Affine(*A0), crs_vals[1]),
                GeoBox((10, 10), Affine.translation(up(0.3), 0) * Affine(*A0), crs_vals[1])]
    gc_small = [GCPGeoBox((10, 10), m1), GCPGeoBox((10, 10), m1b), GCPGeoBox((9, 10), m1), GCPGeoBox((10, 10), m2)]
    for g in gb_small + gc_small:
        ge = (lambda g=g: ("G " + E.gbox(g)) if isinstance(g, GeoBox) else ("P " + E.gcp(g)))
        # (chunk tuples must add up to the box: GeoboxTiles refuses the others since the fix on main)
        ny_, nx_ = (int(v) for v in g.shape)
        hows = [(5, 5), (5, 4), (4, 5), (10, 10), ((5, ny_ - 5), (5, nx_ - 5)), ((4, ny_ - 4), (5, nx_ - 5)),
                ((5, ny_ - 5), (nx_,)), (16, 16), (10, 2048), ((ny_,), (nx_,))]
        if (ny_, nx_) != (10, 10):
            hows = [(5, 5), (5, 4), ((5, ny_ - 5), (5, nx_ - 5))]
        for how in hows:
            o = GeoboxTiles(g, how)
            if isinstance(how[0], tuple):
                te = f"V {list_s(how[0])} {list_s(how[1])}"
            else:
                te = f"T {g.shape[0]} {g.shape[1]} {how[0]} {how[1]}"
            gbt_items.append(o)
            gbt_enc[id(o)] = (ge, te)
    fams.append(Family("GeoboxTiles", "gbt", gbt_items, lambda o: f"{gbt_enc[id(o)][0]()} {gbt_enc[id(o)][1]}"))

    # --- Bin1D
    bins = [Bin1D(sz, o, d) for sz in (1, 1.0, 2, 0.5) for o in (0, 0.0, -0.0, 1, -1.5) for d in (1, -1)]
    for v in ulps:
        bins.append(Bin1D(1.0, v, 1))
        if v > 0:
            bins.append(Bin1D(v, 0.0, 1))
    fams.append(Family("Bin1D", "bin", bins, E.bin))

    # --- GridSpec (power-of-two resolutions: the float products are exact)
    gs_items, gs_enc = [], {}
    res_opts = [Resolution(8, -8), Resolution(8, 8), Resolution(4, -8), Resolution(-8, -8), Resolution(0.5, -0.5)]
    org_opts = [None, xy_(0.0, 0.0), xy_(0, 0), xy_(-0.0, 0.0), xy_(16.0, 0.0), xy_(0.0, -8.0)]

    def add_gs(c, shape, res, org, fx, fy):
        o = GridSpec(c, shape, res, org, fx, fy)
        oo = o.origin
        gs_enc[id(o)] = lambda o=o, oo=oo, shape=shape, fx=fx, fy=fy: (
            f"{E.crs(o.crs)} {shape[0]} {shape[1]} {E.num(o.resolution.x)} {E.num(o.resolution.y)} "
            f"{E.num(oo.x)} {E.num(oo.y)} {bool_s(fx)} {bool_s(fy)}")
        gs_items.append(o)

    for c in some_crs[:5]:
        add_gs(c, (10, 10), res_opts[0], None, False, False)
    for shape in ((10, 20), (20, 10), (5, 10), (20, 20)):
        add_gs(some_crs[0], shape, res_opts[0], None, False, False)
    for r in res_opts[1:]:
        add_gs(some_crs[0], (10, 10), r, None, False, False)
    add_gs(some_crs[0], (20, 20), Resolution(4, -4), None, False, False)   # same tile size, other shape
    add_gs(some_crs[0], (5, 10), Resolution(16, -8), None, False, False)
    for o_ in org_opts[1:]:
        add_gs(some_crs[0], (10, 10), res_opts[0], o_, False, False)
    for fx, fy in ((True, False), (False, True), (True, True)):
        add_gs(some_crs[0], (10, 10), res_opts[0], None, fx, fy)
    # one ulp in the resolution (power-of-two shape keeps the product exact) and in the origin
    for r in (Resolution(8.0, -8.0), Resolution(up(8.0), -8.0), Resolution(8.0, -up(8.0)), Resolution(0.5, -0.5),
              Resolution(up(0.5), -0.5)):
        add_gs(some_crs[0], (16, 16), r, None, False, False)
    for v in ulps:
        add_gs(some_crs[0], (10, 10), res_opts[0], xy_(v, 0.0), False, False)
        add_gs(some_crs[0], (10, 10), res_opts[0], xy_(0.0, v), False, False)
    fams.append(Family("GridSpec", "gs", gs_items, lambda o: gs_enc[id(o)]()))

    # --- Geometry
    gms = []
    for c in crs_vals[:5]:
        gms.append(geom.point(1, 2, c))
    for x, y in ((1.0, 2.5), (0.0, 2), (-0.0, 2), (2, 1), (1, -2)):
        gms.append(geom.point(x, y, crs_vals[1]))
    gms += [geom.line([(0, 0), (1, 1)], crs_vals[1]), geom.line([(0, 0), (1, 1), (2, 2)], crs_vals[1]),
            geom.line([(1, 1), (0, 0)], crs_vals[1]), geom.line([(0, 0), (1, 1)], crs_vals[4]),
            geom.multipoint([(0, 0), (1, 1)], crs_vals[1]), geom.multipoint([(0, 0), (1, 1), (2, 2)], crs_vals[1]),
            geom.polygon([(0, 0), (0, 1), (1, 1), (0, 0)], crs_vals[1]),
            geom.polygon([(0, 0), (0, 1), (1, 1), (1, 0), (0, 0)], crs_vals[1]),
            geom.polygon([(0, 1), (1, 1), (0, 0), (0, 1)], crs_vals[1]),
            geom.polygon([(0, 0), (0, 4), (4, 4), (0, 0)], crs_vals[1], [(0.5, 1), (0.5, 2), (1, 2), (0.5, 1)]),
            geom.polygon([(0, 0), (0, 4), (4, 4), (0, 0)], crs_vals[1]),
            geom.box(0, 0, 1, 1, crs_vals[1]), geom.box(-0.0, 0, 1, 1, crs_vals[1]), geom.box(0, 0, 1, 1, crs_vals[3]),
            geom.multiline([[(0, 0), (1, 1)], [(2, 2), (3, 3)]], crs_vals[1]),
            geom.multiline([[(0, 0), (1, 1), (2, 2)], [(3, 3), (4, 4)]], crs_vals[1]),
            geom.multiline([[(0, 0), (1, 1)], [(2, 2), (3, 3), (4, 4)]], crs_vals[1])]
    # one ulp in one coordinate, for every kind of geometry
    for a_, b_ in ulp_pairs:
        for v in (a_, b_):
            gms += [geom.point(v, 2, crs_vals[1]), geom.point(1, v, crs_vals[1]),
                    geom.line([(0, 0), (v, 1)], crs_vals[1]),
                    geom.polygon([(0, 0), (0, v), (1, 1), (0, 0)], crs_vals[1]),
                    geom.multipoint([(0, 0), (1, v)], crs_vals[1])]
        if abs(a_) < 1e300:
            for v in (a_, b_):
                gms += [geom.polygon([(0, 0), (0, 4), (4, 4), (0, 0)], crs_vals[1], [(v, 1), (0.5, 2), (1, 2), (v, 1)]),
                        geom.multigeom([geom.point(1, v, crs_vals[1]), geom.line([(0, 0), (1, 1)], crs_vals[1])]),
                        geom.Geometry(shapely.Point(1, 2, v), crs_vals[1])]
    # every shapely type reachable from the API: rings (.exterior/.interiors/.boundary), multi-geometries,
    # collections (multigeom, GeoBox.outline), empty geometries, 3-D coordinates
    poly_h = geom.polygon([(0, 0), (0, 4), (4, 4), (4, 0), (0, 0)], crs_vals[1], [(1, 1), (2, 1), (2, 2), (1, 1)])
    gms += [poly_h, poly_h.exterior, poly_h.interiors[0], poly_h.boundary, geom.box(0, 0, 1, 1, crs_vals[1]).boundary,
            geom.box(0, 0, 1, 1, crs_vals[1]).exterior, geom.line([(0, 0), (0, 4), (4, 4), (4, 0), (0, 0)], crs_vals[1]),
            geom.Geometry(shapely.LinearRing([(0, 0), (0, 4), (4, 4), (4, 0)]), crs_vals[4]),
            geom.multipolygon([[[(0, 0), (0, 1), (1, 1), (0, 0)]], [[(5, 5), (6, 5), (6, 6), (5, 5)]]], crs_vals[1]),
            geom.multipolygon([[[(0, 0), (0, 1), (1, 1), (0, 0)]]], crs_vals[1]),
            geom.multigeom([geom.point(1, 2, crs_vals[1]), geom.line([(0, 0), (1, 1)], crs_vals[1])]),
            geom.multigeom([geom.line([(0, 0), (1, 1)], crs_vals[1]), geom.point(1, 2, crs_vals[1])]),
            geom.multigeom([geom.point(1, 2, crs_vals[1]), geom.point(0, 0, crs_vals[1])]),
            geom.Geometry(shapely.GeometryCollection([shapely.Point(1, 2), shapely.LinearRing([(0, 0), (0, 1), (1, 1)])]),
                          crs_vals[1]),
            geom.Geometry(shapely.GeometryCollection([shapely.Point(1, 2), shapely.LineString([(0, 0), (0, 1), (1, 1),
                                                                                               (0, 0)])]), crs_vals[1]),
            GeoBox((3, 4), Affine(*A0), crs_vals[1]).outline(notch=0),
            GeoBox((3, 4), Affine(*A0), crs_vals[1]).extent.exterior]
    for c in (crs_vals[1], None):
        gms += [geom.Geometry(shapely.Point(), c), geom.Geometry(shapely.Polygon(), c),
                geom.Geometry(shapely.LineString(), c), geom.Geometry(shapely.MultiPoint([]), c),
                geom.Geometry(shapely.GeometryCollection(), c), geom.Geometry(shapely.MultiPolygon([]), c)]
    gms += [geom.Geometry(shapely.Point(1, 2, 3), crs_vals[1]), geom.Geometry(shapely.Point(1, 2, 0), crs_vals[1]),
            geom.Geometry(shapely.Point(1, 2, 4), crs_vals[1]),
            geom.Geometry(shapely.LineString([(0, 0, 1), (1, 1, 2)]), crs_vals[1]),
            geom.Geometry(shapely.LineString([(0, 0, 1), (1, 1, 3)]), crs_vals[1]),
            geom.Geometry(shapely.Polygon([(0, 0, 1), (0, 1, 1), (1, 1, 1), (0, 0, 1)]), crs_vals[1])]
    fams.append(Family("Geometry", "geom", gms, E.geom))
    fam_crs = Family("CRS", "bbox", some_crs + [CRS(some_crs[0]), pickle.loads(pickle.dumps(some_crs[2]))],
                     lambda c: f"{E.crs(c)} i0 i0 i1 i1")
    return {"fams": fams, "fam_crs": fam_crs, "gcps": gcps,
            "attr_objs": (xs[0], Resolution(1), Index2d(1, 2), Shape2d(1, 2), bbs[0], gms[0], gbs[0], gcps[0], m1,
                          tls[0], vts[0], gbt_items[0], bins[0], gs_items[0], some_crs[0])}


def part_b(R: Run):
    from dask.base import tokenize

    E = Enc()
    B = build_families(R.quick, E)
    fams, gcps = B["fams"], B["gcps"]

    # --- attribute sets by introspection.  An inventory is never a verdict: where it is what the model's record
    # lists, that is recorded (a tie in the evidence); where it differs (an attribute added, renamed, removed) the
    # difference is noted and the behavioural probing of that type is widened to every member of its family -
    # only behaviour (==, hash, token, pickle, copies, across interpreters, after read-only use) can fail.
    widen = set()
    for o in B["attr_objs"]:
        tn = type(o).__name__
        real, known = attr_names(o), KNOWN_FIELDS.get(tn)
        if real == known:
            R.corr(f"c19 fields {tn}", lambda real=real: real, sig="fields")
        else:
            A.note(f"attribute inventory of {tn} is {real!r}, the model's record lists {known!r}: not a verdict; "
                   "behavioural probing of the type widened to its whole family")
            widen.add(tn)
    R.extra["widened_probing"] = sorted(widen)

    # --- correspondence (model vs code, all pairs) and the property oracle (all pairs and triples)
    cap = {"XY": R.pick(4000, None), "Tiles": R.pick(6000, None), "GeoBox": R.pick(3000, None),
           "BoundingBox": R.pick(2500, None), "Geometry": R.pick(6000, None),
           "GeoboxTiles": R.pick(3000, None)}
    for fam in fams:
        A.guard(f"pairs of {fam.name} against the model", lambda fam=fam: corr_family(R, fam, tokenize, cap.get(fam.name)))
        judge_family(R, fam, tokenize)
        R.count(f"family-size:{fam.name}", len(fam.items))

    # GCP pickle in the model's terms (K2): eq(clone) / token(clone) / eq(copy)
    for g in gcps[:6]:
        def f(g=g):
            c = pickle.loads(pickle.dumps(g))
            return f"{bool_s(c == g)} {bool_s(tokenize(c) == tokenize(g))} {bool_s(copy.copy(g) == g)}"
        A.corr(R, lambda g=g: f"c19 clone gcp 9999 {E.gcp(g)}", f, sig="clone|gcp")

    # bare CRS objects as values (in-process; the cache histories are part (a))
    judge_family(R, B["fam_crs"], tokenize)
    # read-only use comes last: it fills whatever the values cache lazily
    for fam in fams + [B["fam_crs"]]:
        wide = any(type(o).__name__ in widen for o in fam.items[:3])
        judge_use(R, fam, tokenize, 2 * len(fam.items) if wide else R.pick(16, 60))
    part_xproc(R)


def read_only_use(o, rng) -> List[str]:
    """Use a value the way client code does without (meaning to) change it: every public property, every public
    method that can be called without arguments, str/repr/bool/len/iteration, and per type the look-ups that need
    arguments.  Errors are ignored (many calls do not apply to every member); returns what succeeded."""
    import inspect

    import numpy as np
    from affine import Affine

    from odc.geo import geom
    from odc.geo.crs import CRS

    done: List[str] = []

    import signal
    import threading

    can_alarm = threading.current_thread() is threading.main_thread()

    class UseTimeout(BaseException):   # not an Exception: library code must not swallow it
        pass

    def on_alarm(*_):
        raise UseTimeout()

    def attempt(label, fn):
        try:
            attempt_(label, fn)
        except UseTimeout:   # fired between the end of the call and the disarming
            if can_alarm:
                signal.setitimer(signal.ITIMER_REAL, 0)

    def attempt_(label, fn):
        # some calls do not terminate in reasonable time (GridSpec.geojson() walks every tile of the CRS' valid
        # region, densifying a 1e308 long edge never ends): bound each one
        if can_alarm:
            old = signal.signal(signal.SIGALRM, on_alarm)
            signal.setitimer(signal.ITIMER_REAL, 0.25, 0.05)   # keeps firing until the call is left
        try:
            r = fn()
            if inspect.isgenerator(r) or isinstance(r, (map, zip, filter)):
                for _, _x in zip(range(50), r):
                    pass
            done.append(label)
        except (Exception, UseTimeout):  # pylint: disable=broad-except
            pass
        finally:
            if can_alarm:
                signal.setitimer(signal.ITIMER_REAL, 0)
                signal.signal(signal.SIGALRM, old)

    t = type(o)
    names = sorted(n for n in dir(t) if not n.startswith("_"))
    rng.shuffle(names)
    for name in names:
        st = inspect.getattr_static(t, name, None)
        if isinstance(st, property):
            attempt(name, lambda: getattr(o, name))
        elif not isinstance(st, (staticmethod, classmethod)) and callable(st):
            try:
                sig = inspect.signature(getattr(o, name))
            except (TypeError, ValueError):
                continue
            if all(p.default is not inspect.Parameter.empty or p.kind in (p.VAR_POSITIONAL, p.VAR_KEYWORD)
                   for p in sig.parameters.values()):
                attempt(name + "()", lambda: getattr(o, name)())
    for label, fn in (("str", lambda: str(o)), ("repr", lambda: repr(o)), ("bool", lambda: bool(o)),
                      ("len", lambda: len(o)), ("iter", lambda: list(itertools.islice(iter(o), 20))),
                      ("eq-self", lambda: o == o), ("eq-other", lambda: o == 5), ("hash", lambda: hash(o))):
        attempt(label, fn)
    crs = CRS("EPSG:3857")
    box = geom.box(0, 0, 100, 100, "EPSG:4326")
    roi = np.s_[0:2, 0:2]
    with_args = {
        "CRS": [("transformer_to_crs", lambda: o.transformer_to_crs(crs)(1.0, 2.0)), ("eq-str", lambda: o == "EPSG:4326"),
                ("to_wkt-pretty", lambda: o.to_wkt(pretty=True))],
        "GeoBox": [("crop", lambda: o[roi]), ("pad", lambda: o.pad(1)), ("zoom_out", lambda: o.zoom_out(2)),
                   ("footprint", lambda: o.footprint("EPSG:4326")), ("to_crs", lambda: o.to_crs(crs)),
                   ("overlap_roi", lambda: o.overlap_roi(o)), ("snap_to", lambda: o.snap_to(o)),
                   ("enclosing", lambda: o.enclosing(o.extent)), ("translate_pix", lambda: o.translate_pix(1, 1)),
                   ("wld2pix", lambda: o.wld2pix(1.0, 2.0)), ("pix2wld", lambda: o.pix2wld(1.0, 2.0)),
                   ("mul", lambda: o * Affine.translation(1, 1)), ("and", lambda: o & o), ("or", lambda: o | o)],
        "GCPGeoBox": [("crop", lambda: o[roi]), ("pad", lambda: o.pad(1)), ("zoom_out", lambda: o.zoom_out(2)),
                      ("pix2wld", lambda: o.pix2wld(0.5, 0.5)), ("wld2pix", lambda: o.wld2pix(11.0, 11.0)),
                      ("gcps", lambda: o.gcps()), ("footprint", lambda: o.footprint("EPSG:4326")),
                      ("to_crs", lambda: o.to_crs(crs))],
        "GridSpec": [("tile_geobox", lambda: o.tile_geobox((0, 0))), ("getitem", lambda: o[1, -2]),
                     ("getitem2", lambda: o[3, 4].extent), ("pt2idx", lambda: o.pt2idx(1.0, 2.0)),
                     ("tiles", lambda: list(o.tiles(geom.BoundingBox(0, 0, 100, 100, o.crs)))),
                     ("tiles_from_geopolygon", lambda: list(o.tiles_from_geopolygon(box.to_crs(o.crs)))),
                     ("idx_to_txy", lambda: o.tile_geobox((-1, 2)).affine)],
        "GeoboxTiles": [("getitem", lambda: o[0, 0]), ("chunk_shape", lambda: o.chunk_shape((0, 0))),
                        ("tiles", lambda: list(o.tiles(o.base.extent))), ("roi", lambda: o.roi[0, 0]),
                        ("range_from_bbox", lambda: o.range_from_bbox(o.base.extent.boundingbox)),
                        ("crop", lambda: o.crop[0:1, 0:1]), ("clip", lambda: o.clip([(0, 0)]))],
        "Geometry": [("to_crs", lambda: o.to_crs(crs)), ("buffer", lambda: o.buffer(1.0)),
                     ("simplify", lambda: o.simplify(0.1)), ("transform", lambda: o.transform(lambda x, y: (x, y))),
                     ("and", lambda: o & o), ("or", lambda: o | o), ("contains", lambda: o.contains(o)),
                     ("segmented", lambda: o.segmented(1.0)), ("interpolate", lambda: o.interpolate(0.5)),
                     ("svg", lambda: o.svg()), ("geojson", lambda: o.geojson(a=1))],
        "BoundingBox": [("buffered", lambda: o.buffered(1)), ("transform", lambda: o.transform(Affine.identity())),
                        ("and", lambda: o & o), ("or", lambda: o | o), ("getitem", lambda: o[2]),
                        ("to_crs", lambda: o.to_crs(crs)), ("map_bounds", lambda: o.map_bounds()),
                        ("qr2sample", lambda: list(o.qr2sample(5)))],
        "Bin1D": [("bin", lambda: o.bin(0.5)), ("getitem", lambda: o[1])],
        "Tiles": [("getitem", lambda: o[0, 0]), ("tile_shape", lambda: o.tile_shape((0, 0))),
                  ("locate", lambda: o.locate((0, 0))), ("crop", lambda: o.crop(np.s_[0:1, 0:1]))],
    }
    with_args["VariableSizedTiles"] = with_args["Tiles"]
    for k in ("XY", "Resolution", "Index2d", "Shape2d"):
        with_args[k] = [("map", lambda: o.map(lambda v: v)), ("getitem", lambda: o[0]), ("add", lambda: o + (1,))]
    extra = list(with_args.get(t.__name__, []))
    rng.shuffle(extra)
    for label, fn in extra:
        attempt(label, fn)
    return done


def judge_use(R: Run, fam: Family, tokenize, nmax: int):
    """value semantics are stable under read-only use: token, hash, equality with clones made before the use,
    and clones made after the use, are what they were"""
    n = len(fam.items)
    idx = sorted(set(list(range(min(n, nmax // 2))) + R.rng.sample(range(n), min(n, nmax // 2))))
    tname = fam.name
    import re

    def extreme(o) -> bool:
        # GEOS / PROJ calls on 1e308-scale or denormal-scale coordinates may never return (and cannot be
        # interrupted from Python): such members are left to the other oracles
        try:
            txt = fam.enc(o)
        except Exception:  # pylint: disable=broad-except
            txt = None
        if txt is None:   # no model record on this tree: look at the numbers the value prints
            for m in re.finditer(r"-?\d+\.?\d*(?:[eE][+-]?\d+)?", fam.desc[fam.items.index(o)]):
                try:
                    v = abs(float(m.group(0)))
                except ValueError:
                    continue
                if v > 1e15 or 0 < v < 1e-15:
                    return True
            return False
        for m in re.finditer(r"[fi](-?\d+)(?:/(\d+))?", txt):
            v = abs(Fraction(int(m.group(1)), int(m.group(2) or 1)))
            if v > 10 ** 15 or 0 < v < Fraction(1, 10 ** 15):
                return True
        return False

    for i in idx:
        o = fam.items[i]
        if extreme(o):
            R.count(f"use-skipped-extreme:{tname}")
            continue
        case = {"family": tname, "i": i, "obj": fam.desc[i], "use": True}
        try:
            c0 = pickle.loads(pickle.dumps(o))
            d0 = copy.deepcopy(o)
        except Exception:  # pylint: disable=broad-except
            continue   # reported by the pickle oracle of the family
        tok0, h0 = tokenize(o), guarded_hash(o)
        eq0 = (bool(c0 == o), bool(d0 == o))
        done = read_only_use(o, R.rng)
        case["ops"] = done
        R.count(f"use-ops:{tname}", len(done))
        tok1, h1 = tokenize(o), guarded_hash(o)
        R.oracle(tok1 == tok0, f"{tname}-token-changes-after-read-only-use", case,
                 f"dask token of {fam.desc[i]} changed after read-only use ({', '.join(done[:12])} …)")
        R.oracle(h1 == h0, f"{tname}-hash-changes-after-read-only-use", case,
                 f"hash of {fam.desc[i]} changed after read-only use")
        try:
            c1 = pickle.loads(pickle.dumps(o))
            d1 = copy.deepcopy(o)
        except Exception as e:  # pylint: disable=broad-except
            R.oracle(False, f"{tname}-pickle-raises-after-read-only-use", case,
                     f"{fam.desc[i]} can no longer be pickled / copied after read-only use: {e!r}")
            continue
        toks = {tokenize(x) for x in (c0, d0, c1, d1)}
        R.oracle(toks == {tok0}, f"{tname}-clone-token-differs-after-read-only-use", case,
                 f"clones of {fam.desc[i]} taken before and after read-only use do not all share its dask token")
        eq1 = (bool(c0 == o), bool(d0 == o))
        eq2 = (bool(c1 == o), bool(d1 == o))
        R.oracle(eq1 == eq0 and eq2 == eq0 and bool(c0 == c1) == eq0[0], f"{tname}-eq-changes-after-read-only-use",
                 case, f"equality of {fam.desc[i]} with its clones changed after read-only use: before {eq0}, "
                 f"old clones after {eq1}, new clones {eq2}")
        if h0 is not None and eq0[1] and bool(d1 == d0):
            R.oracle(guarded_hash(d1) == guarded_hash(d0), f"{tname}-clone-hash-differs-after-read-only-use", case,
                     f"equal copies of {fam.desc[i]} taken before and after read-only use hash differently")


def guarded_hash(o):
    try:
        return hash(o)
    except TypeError:
        return None


XPROC = str(Path(__file__).with_name("c19_xproc.py"))


def part_xproc(R: Run):
    """eq / hash / token / pickle ACROSS interpreters with different string-hash seeds: the values are used
    (hashed, tokenized) and pickled in one process, unpickled in another and compared with locally built ones."""
    import shutil
    import tempfile

    d = tempfile.mkdtemp(prefix="c19x-")
    try:
        path = os.path.join(d, "values.pkl")
        s1 = R.rng.randint(1, 10 ** 6)
        outs = []
        for mode, seed in (("dump", s1), ("load", s1 + 1)):
            env = dict(os.environ)
            env["PYTHONPATH"] = os.pathsep.join(p for p in sys.path if p)
            env["PYTHONHASHSEED"] = str(seed)
            p = subprocess.run([sys.executable, XPROC, mode, path], capture_output=True, text=True, env=env, timeout=600)
            if p.returncode != 0:
                R.oracle(False, f"xproc-{mode}-raises", {"xproc": True, "mode": mode},
                         f"{mode} of the value families in a fresh interpreter failed: {p.stderr[-600:]}")
                return
            outs.append(json.loads(p.stdout[p.stdout.index("{"):]))
    finally:
        shutil.rmtree(d, ignore_errors=True)
    res = outs[1]
    seeds = {"dump_seed": s1, "load_seed": s1 + 1}
    for it in res["items"]:
        t = it["family"]
        case = {"xproc": True, "family": t, "i": it["i"], "obj": it["obj"], **seeds}
        if "raises" in it:
            R.oracle(False, f"{t}-xproc-pickle-raises", case,
                     f"{it['obj']} cannot be pickled in one interpreter and unpickled in another: {it['raises']}")
            continue
        R.oracle(it["eq"], K2 if it["k2"] else f"{t}-xproc-pickle-eq", case,
                 f"{it['obj']} pickled in one interpreter and unpickled in another is not equal to the same value "
                 "built there")
        R.oracle(it["tok"], f"{t}-xproc-token", case,
                 f"{it['obj']} unpickled in another interpreter has a different dask token than the same value built there")
        if it["eq"] and it["hash"] is not None:
            R.oracle(it["hash"], f"{t}-xproc-eq-hash", case,
                     f"{it['obj']} (hashed, then pickled) unpickled in an interpreter with another PYTHONHASHSEED equals "
                     "the same value built there but hashes differently")
    for pf in res["pair_failures"]:
        t = pf["family"]
        R.oracle(False, K1 if pf["k1"] else f"{t}-xproc-eq-hash", {"xproc": True, **pf, **seeds},
                 f"received {pf['a']} == local {pf['b']} but their hashes differ")
    for t, n in res["pairs"].items():
        R.oracle(True, f"{t}-xproc-eq-hash", {"xproc": True, "family": t, "equal_pairs": n}, "", trivial=n == 0)
        R.count(f"xproc-equal-pairs:{t}", n)


def part_ctor(R: Run):
    """constructors / normalisers of the value types, exactly: Resolution(x[, y]), res_, shape_, Shape2d == tuple,
    GeoboxTiles(box, how) through roi_tiles"""
    from affine import Affine
    from dask.base import tokenize

    from odc.geo.crs import CRS
    from odc.geo.geobox import GeoBox, GeoboxTiles
    from odc.geo.types import Index2d, Resolution, Shape2d, res_, shape_, xy_

    E = Enc()
    up = lambda v: math.nextafter(v, math.inf)  # noqa: E731
    vals = [0, 1, -1, 2, True, False, 0.0, -0.0, 1.0, -1.0, 0.5, -2.5, 0.3, up(0.3), 1e308, 7]
    for x in vals:
        R.corr(f"c19 ctor res {E.num(x)} N", lambda x=x: E.xy(Resolution(x)), sig="ctor|Resolution(x)")
        R.corr(f"c19 ctor resn N {E.num(x)}", lambda x=x: E.xy(res_(x)), sig="ctor|res_(x)")
        for y in vals:
            R.corr(f"c19 ctor res {E.num(x)} {E.num(y)}", lambda x=x, y=y: E.xy(Resolution(x, y)),
                   sig="ctor|Resolution(x,y)")
        r = Resolution(x, 3)
        R.corr(f"c19 ctor resn R {E.xy(r)}", lambda r=r: E.xy(res_(r)), sig="ctor|res_(Resolution)")
        # the value laws on what comes out
        a, b = Resolution(x), res_(x)
        R.oracle(a == b and hash(a) == hash(b), "Resolution-ctor-vs-res_", {"x": repr(x)},
                 f"Resolution({x!r}) and res_({x!r}) differ as values: {a!r} {b!r}")
    shp_vals = [0, 1, 3, -2, True, 2.7, -2.7, 0.5, -0.0, 4.0, 10 ** 12]
    for x, y in itertools.product(shp_vals, repeat=2):
        v = xy_(x, y)
        R.corr(f"c19 ctor shapen X {E.xy(v)}", lambda v=v: E.xy(shape_(v)), sig="ctor|shape_(XY)")
        R.corr(f"c19 ctor shapen Q {list_s([E.num(x), E.num(y)])}", lambda x=x, y=y: E.xy(shape_((x, y))),
               sig="ctor|shape_(seq)")
        R.corr(f"c19 ctor shapen Q {list_s([E.num(x), E.num(y)])}", lambda x=x, y=y: E.xy(shape_([x, y])),
               sig="ctor|shape_(seq)")
        if type(x) is int and type(y) is int:  # pylint: disable=unidiomatic-typecheck
            sh = Shape2d(x, y)
            R.corr(f"c19 ctor shapen S {E.xy(sh)}", lambda sh=sh: E.xy(shape_(sh)), sig="ctor|shape_(Shape2d)")
            R.corr(f"c19 ctor shapen X {E.xy(Index2d(x, y))}", lambda x=x, y=y: E.xy(shape_(Index2d(x, y))),
                   sig="ctor|shape_(XY)")
    for t in ((), (1,), (1, 2, 3), (1.5, 2, 3, 4)):
        R.corr(f"c19 ctor shapen Q {list_s([E.num(v) for v in t])}", lambda t=t: E.xy(shape_(t)),
               sig="ctor|shape_(seq)|bad-length")
    tup_vals = [0, 1, 3, 4, True, 3.0, 4.0, 3.5, -0.0]
    for sx, sy in ((4, 3), (3, 4), (0, 0), (True, 3), (1.5, 3), (4, 3.0)):
        sh = Shape2d(sx, sy)
        for a, b in itertools.product(tup_vals, repeat=2):
            R.corr(f"c19 ctor shtuple {E.xy(sh)} {list_s([E.num(a), E.num(b)])}",
                   lambda sh=sh, a=a, b=b: bool_s(sh == (a, b)), sig="ctor|Shape2d==tuple")
            if type(sx) is not float and type(sy) is not float:  # pylint: disable=unidiomatic-typecheck
                R.oracle((sh == (a, b)) == ((a, b) == sh), "Shape2d-tuple-eq-not-symmetric",
                         {"shape": repr(sh), "tuple": repr((a, b))}, "Shape2d == tuple differs from tuple == Shape2d")
        for t in ((), (3,), (3, 4, 5)):
            R.corr(f"c19 ctor shtuple {E.xy(sh)} {list_s([E.num(v) for v in t])}",
                   lambda sh=sh, t=t: bool_s(sh == t), sig="ctor|Shape2d==tuple|bad-length")
    # replay of two recorded observations (allowed by the property, proved as witnesses in Lean):
    # GridSpec.eq_coarser_than_tiles_cex and resNorm_zero_token_cex
    from odc.geo.gridspec import GridSpec

    ga, gb = GridSpec("EPSG:3857", (10, 10), Resolution(8, -8)), GridSpec("EPSG:3857", (10, 10), Resolution(8, 8))
    R.extra["observations"] = {
        "GridSpec == ignores the sign of the resolution (equal grids, different tile geoboxes)":
            bool(ga == gb) and ga.tile_geobox((0, 0)) != gb.tile_geobox((0, 0)),
        "res_(0) == Resolution(0) with different dask tokens ((0.0, -0.0) vs (0.0, 0.0))":
            res_(0) == Resolution(0) and tokenize(res_(0)) != tokenize(Resolution(0)),
    }
    # GeoboxTiles(box, how): regular tilings take the box's shape as base, variable ones ignore it
    A0 = (1.0, 0.0, 10.0, 0.0, -1.0, 20.0)
    crs = CRS("EPSG:4326")
    boxes = [GeoBox((10, 10), Affine(*A0), crs), GeoBox((9, 10), Affine(*A0), crs), GeoBox((10, 9), Affine(*A0), crs),
             GeoBox((10, 10), Affine(*A0), None), GeoBox((0, 10), Affine(*A0), crs)]
    hows = [(5, 5), (5, 4), (4, 5), (10, 10), (3, 3), (0, 5), (5, 0), ((5, 5), (5, 5)), ((5, 4), (5, 5)),
            ((10,), (10,)), ((5, 5), (5, 4)), ((), ()), ((3, 3, 3), (10,))]

    def enc_how(h):
        return f"HC {list_s(h[0])} {list_s(h[1])}" if isinstance(h[0], tuple) else f"HS {h[0]} {h[1]}"

    items = [(g, h) for g in boxes for h in hows]
    pairs = [(p, q) for p in items for q in items]
    if R.quick:
        pairs = R.rng.sample(pairs, 1500)
    built = {}

    def build(g, h):
        k = (id(g), h)
        if k not in built:
            built[k] = GeoboxTiles(g, h)
        return built[k]

    for (g1, h1), (g2, h2) in pairs:
        def f(g1=g1, h1=h1, g2=g2, h2=h2):
            a, b = build(g1, h1), build(g2, h2)
            return f"{bool_s(a == b)} {bool_s(tokenize(a) == tokenize(b))}"
        A.corr(R, lambda g1=g1, h1=h1, g2=g2, h2=h2: f"c19 ctor gbtctor G {E.gbox(g1)} {enc_how(h1)} G {E.gbox(g2)} {enc_how(h2)}", f,
               sig="ctor|GeoboxTiles|" + ("var" if isinstance(h1[0], tuple) else "reg") + "-"
               + ("var" if isinstance(h2[0], tuple) else "reg"))


def run(R: Run):
    from .c19_glue import part_glue

    from .c19_alias import part_alias

    A.guard("glue", lambda: part_glue(R))
    A.guard("sharing / authority / NaN clean-up", lambda: part_alias(R))
    A.guard("constructors", lambda: part_ctor(R))
    A.guard("value families", lambda: part_b(R))
    A.guard("CRS histories", lambda: part_a(R))
    A.guard("unified histories", lambda: part_unified(R))
    R.exhaustive = False
    R.notes += [n for n in A.NOTES if n not in R.notes]


# =========================================================================== replay
def replay(R: Run, rec) -> int:
    """Re-evaluate the stored failing case on the real code."""
    case = rec.get("case") or {}
    key = rec.get("key", "")
    print("replay key:", key)
    print("replay case:", json.dumps(case, default=str)[:1500])
    R2 = Run(R.prop, "quick", rec.get("seed", 0))
    R2.known = []
    if "history" in case or "histories" in case:
        from .c19_world import EPSG_CODES, World

        W = World(EPSG_CODES)
        hists = case.get("histories") or [case["history"]]
        fresh: Dict[str, dict] = {}
        for i, ops in enumerate(hists):
            res = run_worker(W.worker_payload(), ops)
            print("observations:", res["obs"])
            judge_records(R2, W, ops, res, fresh, f"h{i}")
        for sk, seen in fresh.items():
            if len(seen) > 1:
                print("str of CRS(%s) differs between the histories: %s" % (sk, [s[:20] for s in seen]))
                R2.oracle_failures.append({"key": key})
    else:
        from .c19_glue import part_glue

        for part in (part_glue, part_ctor, part_b):
            A.guard("replay", lambda part=part: part(R2))
    still = [f for f in R2.oracle_failures if f["key"] == key]
    print("still failing" if still else "no longer failing")
    return 1 if still else 0
