"""
C19 worker: executes CRS histories in a FRESH interpreter (the caches of odc.geo.crs are
process-global) and prints the observations as JSON.

stdin : {"texts": {name: text}, "dicts": {name: dict}, "refs": {sys: text}, "probe": [[lon,lat],..],
         "ops": [[op, ...], ...]}
stdout: {"obs": [...], "cache": n, "tcache": n, "records": [...]}

`obs[i]` is the canonical observation of op i in the syntax of the Lean driver.  `records`
carries what the model-independent oracles of harness/c19.py need.
"""
import gc
import json
import pickle
import sys


def main():
    if len(sys.argv) > 1 and sys.argv[1] == "--serve":
        return serve()
    req = json.load(sys.stdin)
    json.dump(run_job(req), sys.stdout)


def serve():
    """Job server: the modules are imported ONCE (no CRS is ever constructed here, both caches of odc.geo.crs stay
    empty), then every history runs in a FORKED child - for the process-global caches a fresh interpreter - and its
    result goes back on one line.  Saves the interpreter start-up and imports of one process per history."""
    import os

    import numpy  # noqa: F401
    import pyproj  # noqa: F401

    import odc.geo.crs as C

    assert len(getattr(C, "_crs_cache", ())) == 0
    for line in sys.stdin:
        line = line.strip()
        if not line:
            continue
        req = json.loads(line)
        r, w = os.pipe()
        pid = os.fork()
        if pid == 0:
            os.close(r)
            try:
                out = json.dumps(run_job(req))
            except BaseException as e:  # pylint: disable=broad-except
                out = json.dumps({"error": repr(e)[-400:]})
            with os.fdopen(w, "w") as f:
                f.write(out)
            os._exit(0)
        os.close(w)
        with os.fdopen(r) as f:
            data = f.read()
        os.waitpid(pid, 0)
        sys.stdout.write((data or json.dumps({"error": "child wrote nothing"})) + "\n")
        sys.stdout.flush()


def run_job(req):
    import numpy as np
    import pyproj

    import odc.geo.crs as C
    from odc.geo.crs import CRS

    texts = req["texts"]
    dicts = req.get("dicts", {})
    name_of = {v: k for k, v in texts.items()}
    refs = {int(k): pyproj.CRS.from_user_input(v) for k, v in req.get("refs", {}).items()}
    probe = np.asarray(req.get("probe", [[147.0, -35.0]]), dtype="float64")
    fresh_tr = {}

    def nm(s):
        if s in name_of:
            return name_of[s]
        if len(s) < 16 and s.startswith("EPSG:") and s[5:].isdigit():
            return s   # literal name of a bulk code
        return "?" + s[:24]

    def err(e):
        for cls, tag in ((AssertionError, "AssertionError"), (IndexError, "IndexError"),
                         (ZeroDivisionError, "ZeroDivisionError"), (NotImplementedError, "NotImplemented"),
                         (ValueError, "ValueError"), (RuntimeError, "RuntimeError")):
            if isinstance(e, cls):
                return "ERR:" + tag
        return "ERR:" + type(e).__name__

    V = {}       # CRS instances
    P = {}       # pyproj objects
    vsys = {}    # expected system of each instance (from the spec, not from odc-geo)
    vlazy = {}   # _epsg of the instance was filled lazily by an `ep` op
    vspec = {}   # spec description the instance was built from
    psys = {}
    obs = []
    records = []
    # objects whose ids are in keys of the transformer cache: id -> (weakref to the pyproj object, the CRS
    # instance on the other side (kept alive), its expected system, always_xy, whether the id was the source)
    import weakref
    tracked = {}
    XY_PTS = (np.array([500000.0, 300000.0, 0.0]), np.array([1000000.0, 5000000.0, 0.0]))

    def probe_reused(c, code):
        """`c` was just built from EPSG `code`; if its pyproj object sits at an address that was (and maybe still
        is) in a key of the transformer cache while the object that owned the address is gone, the transformer
        returned now must nevertheless be for the new pair."""
        t = tracked.get(id(c.proj))
        if t is None:
            return
        ref, other, osys, xy, as_src = t
        if ref() is c.proj:
            return  # same, still pinned object: nothing was recycled
        mine = pyproj.CRS.from_epsg(code)
        if as_src:
            f = c.transformer_to_crs(other, always_xy=xy)
            want = pyproj.Transformer.from_crs(mine, refs[osys], always_xy=xy).transform(XY_PTS[0].copy(), XY_PTS[1].copy())
        else:
            f = other.transformer_to_crs(c, always_xy=xy)
            want = pyproj.Transformer.from_crs(refs[osys], mine, always_xy=xy).transform(XY_PTS[0].copy(), XY_PTS[1].copy())
        got = f(XY_PTS[0].copy(), XY_PTS[1].copy())
        ok = all(np.allclose(g, w, rtol=1e-12, atol=1e-9, equal_nan=True) for g, w in zip(got, want))
        records.append({"k": "tr", "ok": bool(ok), "a": ["int", code] if as_src else ["sys", osys],
                        "b": ["sys", osys] if as_src else ["int", code], "sa": -1, "sb": -1, "xy": xy,
                        "recycled_id": True, "got": [np.asarray(g).tolist() for g in got],
                        "want": [np.asarray(w).tolist() for w in want]})
        del tracked[id(c.proj)]

    def src_points(s):
        # probe points expressed in system s
        key = ("p", s)
        if key not in fresh_tr:
            t = pyproj.Transformer.from_crs(pyproj.CRS.from_epsg(4326), refs[s], always_xy=True)
            fresh_tr[key] = t.transform(probe[:, 0].copy(), probe[:, 1].copy())
        return fresh_tr[key]

    epsg_cache = {}
    _te = {}

    def te(p):
        """pyproj's to_epsg(), memoised per definition (identifying a code-less system searches the whole database)"""
        k = p.to_wkt()
        if k not in _te:
            _te[k] = p.to_epsg()
        return _te[k]

    def want_epsg(spec):
        """pyproj's own answer for the spec (object built here, never seen by odc-geo)"""
        k = json.dumps(spec)
        if k not in epsg_cache:
            kind, x = spec
            if kind in ("int", "pyproj-epsg"):
                p = pyproj.CRS.from_epsg(x)
            elif kind == "dict":
                p = pyproj.CRS.from_dict(dicts[x])
            else:
                p = pyproj.CRS.from_user_input(texts[x])
            epsg_cache[k] = p.to_epsg()
        return epsg_cache[k]

    def made(v, c, sysn, spec):
        V[v] = c
        vsys[v] = sysn
        vlazy[v] = False
        vspec[v] = spec
        # hash and token are functions of the string form: every live instance printing the same has the same
        twins = [o for o in V.values() if o is not c and str(o) == str(c)]
        records.append({"k": "mk", "spec": spec, "str": nm(str(c)), "twins": len(twins),
                        "hash_follows_str": all(hash(o) == hash(c) for o in twins),
                        "tok_follows_str": all(o.__dask_tokenize__() == c.__dask_tokenize__() for o in twins)})
        return "s:" + nm(str(c))

    H = {}       # values holding CRS instances: name -> (kind, object)

    def mk_holder(hk, c):
        import numpy as _np
        from affine import Affine

        from odc.geo import geom as _g
        from odc.geo.gcp import GCPMapping
        from odc.geo.geobox import GeoBox, GeoboxTiles
        from odc.geo.gridspec import GridSpec

        A0 = Affine(1.0, 0.0, 10.0, 0.0, -1.0, 20.0)
        if hk == "bbox":
            return _g.BoundingBox(0, 1, 2, 3, crs=c)
        if hk == "gbox":
            return GeoBox((3, 4), A0, c)
        if hk == "geom":
            return _g.point(1.0, 2.0, c)
        if hk == "gridspec":
            return GridSpec(c, (10, 10), 8)
        if hk == "gcpmap":
            pix = _np.array([(0, 0), (4, 0), (0, 3), (4, 3)], dtype="float64")
            return GCPMapping(pix, pix * 2 + 10, c)
        if hk == "gbt":
            return GeoboxTiles(GeoBox((10, 10), A0, c), (5, 5))
        raise ValueError(hk)

    def holder_eq(a, b):
        (ka, xa), (kb, xb) = a, b
        if ka == "gcpmap":   # no == of its own: the CRS it holds decides
            return bool(xa.crs == xb.crs)
        if ka == "gbt":
            return bool(xa == xb) and bool(xa.base.crs == xb.base.crs or (xa.base.crs is None and xb.base.crs is None))
        return bool(xa == xb)

    def build(x, via_norm):
        """CRS(x), or the same through the argument normaliser every value type uses (norm_crs / norm_crs_or_error)"""
        if not via_norm:
            return CRS(x)
        c = C.norm_crs(x)
        assert isinstance(c, CRS), c
        return c

    for op in req["ops"]:
        kind = op[0]
        try:
            if kind == "pt":
                _, pv, name, sysn = op
                P[pv] = pyproj.CRS.from_user_input(texts[name])
                psys[pv] = (sysn, ["pyproj-text", name])
                obs.append("-")
            elif kind == "pe":
                _, pv, n, sysn = op
                P[pv] = pyproj.CRS.from_epsg(n)
                psys[pv] = (sysn, ["pyproj-epsg", n])
                obs.append("-")
            elif kind == "mi":
                _, v, n, sysn = op[:4]
                obs.append(made(v, build(n, len(op) > 4), sysn, ["int", n]))
            elif kind == "bk":
                # bulk: many distinct cheap specs through one variable (cache capacity / id recycling probe)
                _, v, codes = op
                V.pop(v, None)
                for code in codes:
                    try:
                        c = CRS(code)
                        obs.append("s:" + nm(str(c)))
                        probe_reused(c, code)
                        V[v] = c
                        vsys[v], vlazy[v], vspec[v] = 100000 + code, False, ["int", code]
                    except Exception as e:  # pylint: disable=broad-except
                        obs.append(err(e))
                    c = None
                continue
            elif kind == "ms":
                _, v, name, sysn = op[:4]
                obs.append(made(v, build(texts[name], len(op) > 4), sysn, ["str", name]))
            elif kind == "mp":
                _, v, pv = op[:3]
                obs.append(made(v, build(P[pv], len(op) > 3), psys[pv][0], psys[pv][1]))
            elif kind == "md":
                _, v, name, sysn = op[:4]
                obs.append(made(v, build(dicts[name], len(op) > 4), sysn, ["dict", name]))
            elif kind == "mc":
                _, v, w = op[:3]
                if len(op) > 3:
                    # through norm_crs: a CRS instance is handed back as is (the model's NormPlan.same)
                    same = lambda r: r is V[w] or (isinstance(r, CRS) and r == V[w] and str(r) == str(V[w]))  # noqa: E731
                    records.append({"k": "norm-same", "ok": same(C.norm_crs(V[w])) and same(C.norm_crs_or_error(V[w])),
                                    "spec": vspec[w]})
                c = CRS(V[w])
                V[v] = c
                vsys[v], vlazy[v], vspec[v] = vsys[w], vlazy[w], vspec[w]
                records.append({"k": "copy", "eq": bool(c == V[w]), "str_same": str(c) == str(V[w]),
                                "hash_same": hash(c) == hash(V[w]),
                                "tok_same": c.__dask_tokenize__() == V[w].__dask_tokenize__(), "spec": vspec[w]})
                obs.append("s:" + nm(str(c)))
            elif kind == "pk":
                _, v, w = op
                c = pickle.loads(pickle.dumps(V[w]))
                records.append({"k": "pickle", "eq": bool(c == V[w]) and bool(V[w] == c), "str_same": str(c) == str(V[w]),
                                "hash_same": hash(c) == hash(V[w]),
                                "tok_same": c.__dask_tokenize__() == V[w].__dask_tokenize__(), "spec": vspec[w],
                                "str": nm(str(V[w])), "str_clone": nm(str(c))})
                V[v] = c
                vsys[v], vlazy[v], vspec[v] = vsys[w], False, vspec[w]
                obs.append("s:" + nm(str(c)))
            elif kind == "hh":
                # a value of the given type constructed with crs=<the instance>: it holds the instance itself
                _, h, v, hk = op
                H[h] = (hk, mk_holder(hk, V[v]))
                got = H[h][1].base.crs if hk == "gbt" else H[h][1].crs
                records.append({"k": "hold", "ok": got is V[v] or (got == V[v] and str(got) == str(V[v])), "kind": hk,
                                "same_object": got is V[v], "spec": vspec[v]})
                obs.append("-")
            elif kind == "hn":
                _, h, hk = op
                H[h] = (hk, mk_holder(hk, None))
                obs.append("-")
            elif kind == "rh":
                import copy as _copy
                _, h2, h = op
                H[h2] = (H[h][0], _copy.copy(H[h][1]))
                obs.append("-")
            elif kind == "he":
                _, a, b = op
                obs.append("T" if holder_eq(H[a], H[b]) else "F")
            elif kind == "dl":
                V.pop(op[1], None)
                obs.append("-")
            elif kind == "dr":
                V.pop(op[1], None)
                obs.append("-")
            elif kind == "pd":
                P.pop(op[1], None)
                obs.append("-")
            elif kind == "gc":
                gc.collect()
                obs.append("-")
            elif kind == "tr":
                _, a, b, xy = op
                f = V[a].transformer_to_crs(V[b], always_xy=xy)
                sa, sb = vsys[a], vsys[b]
                tracked[id(V[a].proj)] = (weakref.ref(V[a].proj), V[b], sb, xy, True)
                tracked[id(V[b].proj)] = (weakref.ref(V[b].proj), V[a], sa, xy, False)
                x, y = src_points(sa)
                if not xy:
                    # native axis order of the source
                    t0 = pyproj.Transformer.from_crs(pyproj.CRS.from_epsg(4326), refs[sa], always_xy=False)
                    x, y = t0.transform(probe[:, 1].copy(), probe[:, 0].copy())
                got = f(np.array(x, dtype="float64"), np.array(y, dtype="float64"))
                want = pyproj.Transformer.from_crs(refs[sa], refs[sb], always_xy=xy).transform(
                    np.array(x, dtype="float64"), np.array(y, dtype="float64"))
                ok = all(np.allclose(g, w, rtol=1e-12, atol=1e-9, equal_nan=True) for g, w in zip(got, want))
                records.append({"k": "tr", "ok": bool(ok), "a": vspec[a], "b": vspec[b], "sa": sa, "sb": sb,
                                "xy": xy, "got": [np.asarray(g).tolist() for g in got],
                                "want": [np.asarray(w).tolist() for w in want]})
                obs.append(f"t:{sa}>{sb}" if ok else "t:BAD")
            elif kind == "ep":
                v = op[1]
                # (private lazy field; when it is not there the instance is conservatively taken as lazily filled)
                was_unset = getattr(V[v], "_epsg", 0) == 0
                e = V[v].epsg
                records.append({"k": "epsg", "got": e, "want": want_epsg(vspec[v]), "spec": vspec[v]})
                if was_unset:
                    vlazy[v] = True
                obs.append("e:" + ("N" if e is None else str(e)))
            elif kind == "es":
                # `crs == spec` for a spec that is not a CRS: constructs CRS(spec) inside __eq__, never raises.
                # Reported as the three steps the model expands it to: mk tmp spec / eq v tmp / drop tmp
                _, v, skind, x, sysn = op
                raw = texts[x] if skind == "str" else x
                r = bool(V[v] == raw)
                r_rev = bool(raw == V[v])
                try:
                    c = CRS(raw)
                    obs.append("s:" + nm(str(c)))
                    obs.append("T" if r else "F")
                    records.append({"k": "eq", "r": r, "r_rev": r_rev, "sa": vsys[v], "sb": sysn,
                                    "lazy": bool(vlazy[v]), "epsg_same": te(V[v].proj) == te(c.proj), "code": te(c.proj),
                                    "hash_same": hash(V[v]) == hash(c), "str_same": str(V[v]) == str(c),
                                    "ne_consistent": bool(V[v] != raw) == (not r), "a": vspec[v], "b": [skind, x]})
                except Exception as e:  # pylint: disable=broad-except
                    obs.append(err(e))
                    obs.append("ERR:ValueError" if (r is False and r_rev is False) else "T?!")
                obs.append("-")
            elif kind == "eq":
                _, a, b = op
                r = bool(V[a] == V[b])
                r2 = bool(V[b] == V[a])
                records.append({"k": "eq", "r": r, "r_rev": r2, "sa": vsys[a], "sb": vsys[b],
                                "lazy": bool(vlazy[a] or vlazy[b]),
                                "epsg_same": te(V[a].proj) == te(V[b].proj), "code": te(V[a].proj),
                                "hash_same": hash(V[a]) == hash(V[b]), "str_same": str(V[a]) == str(V[b]),
                                "ne_consistent": bool(V[a] != V[b]) == (not r),
                                "a": vspec[a], "b": vspec[b]})
                obs.append("T" if r else "F")
            else:
                obs.append("bad-op")
        except KeyError:
            # a variable that was never assigned (its construction was rejected): the model says ValueError
            obs.append("ERR:ValueError")
        except Exception as e:  # pylint: disable=broad-except
            obs.append(err(e))

    # relation over everything still alive: reflexive / symmetric / transitive, eq => hash
    names = sorted(V)
    M = [[bool(V[a] == V[b]) for b in names] for a in names]
    records.append({"k": "final", "names": names, "M": M, "sys": [vsys[n] for n in names],
                    "lazy": [vlazy[n] and te(V[n].proj) is not None for n in names], "spec": [vspec[n] for n in names],
                    "str": [nm(str(V[n])) for n in names],
                    "hash_eq": [[hash(V[a]) == hash(V[b]) for b in names] for a in names]})
    def size_of(x):
        try:
            return len(x)
        except TypeError:
            return None

    tr_fn = getattr(C, "_make_crs_transform", None)
    return {"obs": obs, "cache": size_of(getattr(C, "_crs_cache", None)),
            "tcache": size_of(getattr(tr_fn, "cache", None)), "records": records}


if __name__ == "__main__":
    main()
