"""C14 — A GridSpec tiles the plane without gaps or overlaps.

Correspondence lines carry a mode token:
  E  the model evaluated in exact rational arithmetic (the instance the Lean theorems are about);
     only sent for inputs on which every float operation of the real code is exact, or on which the
     (few) rounded operations provably cannot change a floor/compare decision (gated below);
  F  the same model definitions with binary64 round-to-nearest-even after every primitive operation,
     in CPython's evaluation order: must agree bit-for-bit with the real code on ARBITRARY doubles.
The property oracles (exact `Fraction` arithmetic, shapely) never use the model.
"""
from __future__ import annotations

import itertools
import json
import math
import os
import random
import re
import types
from fractions import Fraction
from typing import List, Optional, Tuple

from .common import Run, bool_s, frac_s, guarded, list_s, run_driver
from . import c14_args

META = {
    "claimed": True,
    "text": "Lean 4 theorems, for all tile shapes, resolutions of either sign, origins, flip flags, tile "
    "indices and tolerances, about a hand model of Bin1D and GridSpec: point lookup and index→interval agree "
    "(bin x = k iff lo k <= x < hi k, both directions); bins/tiles partition the line/plane (no gaps, no "
    "overlaps, disjoint interiors); neighbours share their edge exactly; each tile GeoBox has the given shape and "
    "signed resolution and its footprint (image of the pixel rectangle under the affine) is the bin rectangle "
    "for all sign x flip combinations; idx_bounds/tiles return exactly the tiles meeting the query shrunk by "
    "the tolerance (exact characterisation for every query incl. degenerate ones, and a proved counterexample "
    "showing that thin queries are widened by up to 1e-8); polygon query = bbox tiles filtered by disjointness, "
    "sound and complete under the contract of `disjoint`; a grid rebuilt from any tile has identical footprints "
    "and lookups; web_tiles has the slippy-map extents with exactly 2^z tiles per side; a caller-supplied geobox_cache "
    "that was filled by any earlier history of queries never changes a bbox/polygon query result and stays coherent "
    "(proved for every rounding function).  The model is tied to "
    "/repo on every run by (E) an exact-arithmetic correspondence, exhaustive on a small lattice of signs, flips, "
    "edge/half-way points and tolerance edges, and (F) a bit-exact binary64 correspondence on arbitrary "
    "realistic doubles (Albers/UTM/degree grids, sizes at k±δ and 1/(k±δ) around the library's snapping windows with "
    "indices up to 1e4 from the sample, zoom 0..30), multi-step histories sharing one geobox_cache (each step compared "
    "with the stateless query, the shapely reference and the expected cache contents), plus Fraction/shapely oracles "
    "(two-sided, ulp-derived bounds on rebuilt sizes/origins); query geometries of every kind (multi-part, points, lines, "
    "collections, holes, concave) with/without cache and in another CRS incl. continental EPSG:4326 polygons judged by a "
    "fresh pyproj projection of the densified geometry; every grid value through pickle/copy/deepcopy/another interpreter "
    "with behavioural equality; the CRS guard of idx_bounds; a time-boxed multi-thread stress of one shared instance.  Growth "
    "round: degenerate (zero width/height/area) queries always return the centre tile; multi-part geometries (one scan of the "
    "whole bbox, kept iff some part is not disjoint, each once; sound/complete per part); `__eq__` holds iff same shape and same "
    "footprint for every index (and provably ignores the resolution sign); `alignment` is the offset of every pixel edge of every "
    "tile; geojson index walk; from_sample_tile axes are independent; E/F transfer theorems; links to the C20 Bin1D model and the "
    "C02 GeoBox model (resolution / boundingbox / extent of every tile).  Growth round 2 (Model/C14Args.lean, Props/C14Args.lean, "
    "Props/C14C16.lean): the public entry points from their RAW arguments — GridSpec(crs, tile_shape, resolution, origin, flips) with "
    "every spelling shape_/res_/origin/norm_crs_or_error accept or reject (tuple, list, Shape2d, XY/Index2d, floats truncated by int(), "
    "NaN/inf members, wrong lengths, scalars, Resolution, numpy scalars, None/Unset/'utm'/rejected CRS) and the order in which they "
    "are checked; END-TO-END theorems whose only hypothesis is 'the public constructor returned this object' (tiles partition the plane, "
    "disjoint interiors, shared edges, tile GeoBox shape/resolution/footprint from raw shape + raw resolution + raw index spelling; grid "
    "rebuilt by from_sample_tile from any tile in any spelling is the same grid; web_tiles(zoom, npix) for int/float npix has the slippy "
    "extents); from_sample_tile's (-1,-1) sentinel per spelling (list / XY spellings are not recognised and end in AssertionError instead "
    "of the documented ValueError — proved and replayed); ixy_ spellings of tile_geobox / gs[...]; NaN / ±inf query coordinates "
    "(never answered with tiles; error kind and order); tiles()/tiles_from_geopolygon() as LAZY generators — any number of live "
    "generators over one shared cache, advanced in ANY interleaving with cache.clear() at any point, observe exactly what cache-less "
    "iterators observe (theorem schedule_transparent); __eq__ with foreign operands; geojson() incl. the no-argument branch (valid "
    "region box as parameter) and bbox+geopolygon precedence; composition with C16's BoundingBox.from_transform: gs.tiles(geobox.boundingbox) "
    "covers the footprint of ANY (rotated, sheared) GeoBox up to the 1e-8 band.  All of it is driven on every run (ops shape/res/idx/init/tga/"
    "fsta/weba/ptx/idxbx/sched/schedo/eqo/beq/gjd; spellings exhaustive over a pool, error-precedence masks, zoom -900..1100), plus "
    "model-independent oracles: spelling independence, numpy-typed tile indices of every width at |index|·pixels beyond 2^31/2^32, "
    "exact-area judgement (Fraction Sutherland–Hodgman) of polygons whose only part crossing a tile edge is a shallow bulge / gentle arc / "
    "spike / sliver of 1e-6 units .. 1 pixel, generator interleavings, geojson with both options, geobox footprint cover.  Increment 3 "
    "(Model/C14Ext.lean, C14Thr.lean; Props/C14Ext, C14Thr, C14Web, C14Fl): Bin1D/GridSpec on the WHOLE float domain (IEEE nan/±inf arithmetic, "
    "overflow to inf at 2^1024, OverflowError of float(int)): which sizes the constructors accept (+inf yes; nan, -inf, 0 no), what an infinite "
    "tile size or a non-finite origin does to lookups and tile corners, float-valued tile indices (linear interpolation) and int indices beyond 2^53 "
    "(converted first), tile_shape / dimensions — pinned by theorems and compared on every run (ops binx/itemx/fsbx/gridx/dims over pools of "
    "nan, ±inf, 1e308, subnormals, 10^400); THREADS sharing one geobox_cache at the granularity of the dict operations: theorem "
    "threads_transparent (any number of threads, any schedule, overwriting writes included: every thread yields what its query yields alone, cache "
    "coherent) and a deterministic step scheduler on the real code that enumerates ALL 2^6 interleavings of two threads' cache.get/__setitem__ "
    "(plus sampled 3-thread schedules) with model correspondence and oracle; web_tiles zoom z -> z+1: every tile splits into exactly its four "
    "children (extents + half-open partition, theorem + oracle on real output); a closed-form sufficient representability criterion: integers "
    "below 2^53 are fixed points of the binary64 rounding (proved from the definition of fl64), hence on grids with integer tile sizes/origins "
    "and indices below 2^26 the rounded model's tile GeoBoxes ARE the exact model's (transfer theorems unconditional there).  Final "
    "increment (Props/C14C04, C14Zero, C14Band, C14Band2; Model/C14Zero): a GridSpec tile as the base of a GeoboxTiles (C04/C12 tiling models): "
    "every pixel of the tile lies in exactly one sub-tile whose GeoBox addresses it at the same world point inside the tile's footprint (tiles "
    "of tiles partition); GeoBox.from_bbox(tile.boundingbox, shape=tile_shape, tight=True) (C08 model) rebuilds the tile GeoBox of a north-up "
    "grid exactly; two tiles of a grid differ by a whole-tile pixel shift and therefore GeoboxTiles.grid_intersect (C12 linear path) "
    "between the tilings of two different tiles is empty for every regular chunking (Props/C14C12, oracle on the real grid_intersect); "
    "the binary64 rounding of the model satisfies |fl64 q - q| <= 2^-53|q| + 2^-1075 for EVERY rational (proved from its "
    "definition) and therefore point lookup under binary64 equals the exact one outside an explicit band (2u+u^2)|q| + eta' around tile edges "
    "(bin_transfer_band_fl64, pt2idx_band_fl64: no representability hypothesis left); signed zeros never change a value or an index and a "
    "lower tile edge is -0.0 exactly for index 0 with a negative-zero product on a -0.0 origin; geojson()'s valid-region pipeline with "
    "pyproj and the 0.5-degree segmentation as parameters (structure theorem).  Tied by: oracles on the real GeoboxTiles / from_bbox, the "
    "error bound and the band on CPython doubles and the real Bin1D.bin with exact Fractions, driver ops loz / vbox / shrunk.",
    "note": "Trusted: Lean kernel + {propext, Classical.choice, Quot.sound}; shapely `disjoint` enters the polygon / multi-part "
    "theorems as a parameter with its contract as hypothesis (driver instance: separating-axis test for convex rings, validated "
    "against shapely each run); theorems are over exact rationals — IEEE rounding is covered by the bit-exact F-mode correspondence, "
    "by the transfer theorems (rounded model = exact model whenever the listed intermediates are representable; no closed-form "
    "representability criterion for fl64 is proved) and by the float-stream oracles; thread safety of a shared instance is sampled by a "
    "time-boxed stress, not proved.  NOT mirrored in the Lean model (inventory of odc/geo/gridspec.py and math.py:568-637 after growth round 2 + increment 3; non-finite / huge "
    "values, float and > 2^53 indices, tile_shape, dimensions are now modelled — signed zeros are not distinguished): "
    "what pyproj decides inside `norm_crs_or_error` (the model takes the outcome class valid / None / rejected / 'utm' as input); a `str` given "
    "as shape (a Sequence of its characters) and numpy arrays compared with the (-1,-1) sentinel; `__str__`/`__repr__` (the `:g` "
    "formatting); point lookup (`bin`) of the binary64 model: exact outside the proved exclusion band (inside the band the rounded lookup may "
    "return the neighbouring tile; float-stream oracles keep a matching slack); sign bits of zero tile edges are recorded, not judged; GeoJSON feature geometries (to_crs to lon/lat, then shapely `simplify(0.05 degree)`: tiles "
    "smaller than ~0.05 degree collapse to degenerate rings — presentation, not judged); `geojson`: the valid-region box (pyproj; a parameter of the model, recomputed by the harness with the library's own pyproj "
    "calls), the lon/lat feature geometries and `native_crs`; the reprojection `to_crs(check_and_fix=True)` of the query geometry (pyproj) and "
    "shapely's `disjoint`/`bounds` themselves; HOW lazily the real generators fill the cache between two next() calls is recorded as a note "
    "only (the correspondence compares the yielded items under every schedule and the cache once all generators are exhausted — an eager "
    "refactoring is not a property change); the absence of `__hash__`; pickling (`__slots__` of Bin1D; behavioural round trip only); "
    "zoom < -900 (float overflow → OverflowError).  False-alarm discipline: no structural comparison of source / private names; the three "
    "places that touch module attributes (`gridspec.math` for the dyadic-pi exact stream, `gridspec.Affine`/`GeoBox` yield points of the "
    "thread stress, `_xbin` as a foreign `==` operand) are looked up defensively and skipped with a note when absent or ineffective; "
    "binary64-mode differences that are rounding-level (2^-46 relative, scaled by the tile-index distance that legitimately amplifies them) "
    "become a note, only a failing property oracle is a VIOLATION.",
    "technique": "Lean 4 proof over hand model + exact and bit-exact (binary64) differential correspondence with real code",
    "design_ref": "DESIGN.md §4 C14",
}

CRS = "epsg:3577"
VERIF_DIR = __import__("pathlib").Path(__file__).resolve().parent.parent
TOL = Fraction(1e-8)
P_WEB = math.pi * 6378137


def _import():
    from odc.geo import geom, gridspec
    from odc.geo.math import Bin1D
    from odc.geo.types import resxy_, xy_

    return types.SimpleNamespace(geom=geom, GridSpec=gridspec.GridSpec, Bin1D=Bin1D, resxy_=resxy_, xy_=xy_,
                                 BoundingBox=geom.BoundingBox, gridspec=gridspec)


def fs(x) -> str:
    return frac_s(float(x))


TILE_CAP = 200_000


def ltiles(it):
    """materialise a tile generator of the real code, but never more than TILE_CAP tiles (a changed library may
    answer a small query with an astronomically large index range)"""
    out = list(itertools.islice(it, TILE_CAP + 1))
    if len(out) > TILE_CAP:
        raise RuntimeError(f"query yields more than {TILE_CAP} tiles")
    return out


def idx_s(k) -> str:
    return f"{int(k[0])};{int(k[1])}"


def bb_s(bb) -> str:
    return f"{fs(bb.left)} {fs(bb.bottom)} {fs(bb.right)} {fs(bb.top)}"


class Spec:
    """constructor arguments of one grid (all reals are Python floats)"""

    def __init__(self, ny, nx, rx, ry, ox, oy, fx, fy):
        self.ny, self.nx = int(ny), int(nx)
        self.rx, self.ry, self.ox, self.oy = float(rx), float(ry), float(ox), float(oy)
        self.fx, self.fy = bool(fx), bool(fy)

    def tok(self) -> str:
        return (f"{self.ny} {self.nx} {fs(self.rx)} {fs(self.ry)} {fs(self.ox)} {fs(self.oy)} "
                f"{bool_s(self.fx)} {bool_s(self.fy)}")

    def make(self, O):
        return O.GridSpec(CRS, (self.ny, self.nx), O.resxy_(self.rx, self.ry), origin=O.xy_(self.ox, self.oy),
                          flipx=self.fx, flipy=self.fy)

    @property
    def szx(self) -> Fraction:
        return self.nx * abs(Fraction(self.rx))

    @property
    def szy(self) -> Fraction:
        return self.ny * abs(Fraction(self.ry))

    def scale(self) -> Fraction:
        return max(Fraction(1), abs(Fraction(self.ox)), abs(Fraction(self.oy)), self.szx, self.szy)

    def sig(self) -> str:
        return ("rx" + ("+" if self.rx > 0 else "-") + "ry" + ("+" if self.ry > 0 else "-")
                + ("|flipx" if self.fx else "") + ("|flipy" if self.fy else ""))

    @staticmethod
    def from_tok(t: List[str]) -> "Spec":
        f = lambda s: float(Fraction(s))
        return Spec(int(t[0]), int(t[1]), f(t[2]), f(t[3]), f(t[4]), f(t[5]), t[6] == "T", t[7] == "T")


def grid_s(gs) -> str:
    """public attributes only"""
    return (f"{gs.tile_shape.y} {gs.tile_shape.x} {fs(gs.resolution.x)} {fs(gs.resolution.y)} "
            f"{fs(gs.origin.x)} {fs(gs.origin.y)} {fs(gs.tile_size.x)} {fs(gs.tile_size.y)}")


def tile_s(gb) -> str:
    A = gb.affine
    aff = ";".join(fs(v) for v in (A.a, A.b, A.c, A.d, A.e, A.f))
    pts = list(gb.extent.exterior.points)[:4]
    return (f"{gb.shape[0]} {gb.shape[1]} {aff} {bb_s(gb.boundingbox)} "
            + list_s(pts, lambda p: f"{fs(p[0])};{fs(p[1])}"))


def probe_s(gs, px, py, k) -> str:
    return f"{grid_s(gs)} {idx_s(gs.pt2idx(px, py).xy)} {bb_s(gs.tile_geobox(k).boundingbox)}"


def near_int(q: Fraction, eps=Fraction(1, 10**7)) -> bool:
    return abs(q - round(q)) <= eps


# ----------------------------------------------------------------------------- oracle collector
class Collector:
    """Same interface as Run.oracle; used by the failing-input search after a break."""

    def __init__(self):
        self.fail = None

    def oracle(self, ok, key, case, what="", sig=None, trivial=False):
        if not ok and self.fail is None:
            self.fail = {"key": key, "case": case, "what": what}
        return ok


def fbb(bb) -> Tuple[Fraction, Fraction, Fraction, Fraction]:
    return Fraction(bb.left), Fraction(bb.bottom), Fraction(bb.right), Fraction(bb.top)


def oracle_point(C, gs, sp: Spec, x: float, y: float, exact: bool):
    """every point belongs to the tile that point lookup returns"""
    s = 0 if exact else Fraction(1, 10**9) * max(sp.scale(), abs(Fraction(x)), abs(Fraction(y)))
    case = {"op": "pt", "grid": sp.tok(), "x": fs(x), "y": fs(y)}
    try:
        k = gs.pt2idx(x, y).xy
        l, b, r, t = fbb(gs.tile_geobox(k).boundingbox)
    except Exception as e:  # pylint: disable=broad-except
        C.oracle(False, "pt2idx-raises", case, repr(e))
        return
    X, Y = Fraction(x), Fraction(y)
    ok = (l - s <= X) and (X < r + s if s else X < r) and (b - s <= Y) and (Y < t + s if s else Y < t)
    C.oracle(ok, "point-not-in-its-tile", case,
             f"pt2idx({x},{y}) = {tuple(map(int, k))} but that tile spans x[{float(l)},{float(r)}) y[{float(b)},{float(t)})",
             sig="pt|" + sp.sig())


NP_INT_TYPES = ("int8", "int16", "int32", "int64", "uint8", "uint16", "uint32", "uint64", "intp")


def oracle_np_index(C, gs, case, k: Tuple[int, int], full: bool = False, unsigned: bool = True):
    """a tile index given as fixed-width numpy integers (what numpy / pandas / xarray code hands over) denotes the same tile as
    the Python ints of the same value — whatever the width, also where |index| x tile-size-in-pixels exceeds 2^31 / 2^32"""
    import numpy as np

    ix, iy = k
    try:
        ref = gs[ix, iy]
        rb = fbb(ref.boundingbox)
    except Exception as e:  # pylint: disable=broad-except
        C.oracle(False, "tile-geobox-raises", case, repr(e))
        return
    hows = ("getitem", "tile_geobox", "array-row")
    rot = (ix * 7 + iy) % len(NP_INT_TYPES)
    for n, name in enumerate(NP_INT_TYPES):
        dt = getattr(np, name)
        info = np.iinfo(dt)
        if not (info.min <= ix <= info.max and info.min <= iy <= info.max):
            continue
        if name.startswith("u") and not unsigned:
            continue      # unsigned indices only on grids whose index directions are both +1 (an index times direction -1 is not
            #               representable in an unsigned type; how a library orders that product is its own business)
        if not full and name not in ("int32", "uint32") and n != rot:
            continue      # routine runs: int32 / uint32 always, one more type in rotation; search and replay: all
        for how in (hows if full else (hows[(ix + iy + n) % 3],)):
            try:
                if how == "getitem":
                    gb = gs[dt(ix), dt(iy)]
                elif how == "tile_geobox":
                    gb = gs.tile_geobox((dt(ix), dt(iy)))
                else:
                    a = np.array([ix, iy], dtype=dt)
                    gb = gs.tile_geobox((a[0], a[1]))
                # same tile up to float rounding (a numpy scalar may take another, equally valid, float route): 2^-46 relative
                slack = Fraction(1, 2**46) * max([Fraction(1)] + [abs(v) for v in rb])
                ok = (tuple(gb.shape) == tuple(ref.shape) and all(abs(Fraction(u) - Fraction(v)) <= slack for u, v in zip(tuple(gb.affine)[:6], tuple(ref.affine)[:6]))
                      and all(abs(u - v) <= slack for u, v in zip(fbb(gb.boundingbox), rb)))
                what = f"gs[{name}({ix}), {name}({iy})] = {tuple(map(float, fbb(gb.boundingbox)))} but gs[{ix}, {iy}] = {tuple(map(float, rb))}"
            except Exception as e:  # pylint: disable=broad-except
                ok, what = False, f"gs[{name}({ix}), {name}({iy})] via {how}: {e!r}"
            C.oracle(ok, "tile-index-numpy-type-changes-tile", dict(case, dtype=name), what, sig="tile|np-index|" + name)
            if not ok:
                return


def oracle_tile(C, gs, sp: Spec, k: Tuple[int, int], exact: bool):
    """shape / signed resolution / footprint size; neighbours share the edge; disjoint interiors"""
    ix, iy = k
    dx, dy = (-1 if sp.fx else 1), (-1 if sp.fy else 1)
    case = {"op": "tile", "grid": sp.tok(), "ix": ix, "iy": iy}
    try:
        gb = gs[ix, iy]
        bb = fbb(gb.boundingbox)
        nbx = fbb(gs[ix + dx, iy].boundingbox)
        nby = fbb(gs[ix, iy + dy].boundingbox)
        nbd = fbb(gs[ix + dx, iy + dy].boundingbox)
    except Exception as e:  # pylint: disable=broad-except
        C.oracle(False, "tile-geobox-raises", case, repr(e))
        return
    big = max(sp.scale(), *(abs(v) for v in bb))
    # float error of idx*sz*dir + origin and of tile_size = n*|res| is a few ulps of the magnitudes involved
    s = 0 if exact else Fraction(1, 2**46) * big
    A = gb.affine
    ok = (tuple(gb.shape) == (sp.ny, sp.nx) and A.a == sp.rx and A.e == sp.ry and A.b == 0 and A.d == 0
          and gb.resolution.x == sp.rx and gb.resolution.y == sp.ry)
    C.oracle(ok, "tile-shape-or-resolution", case, f"shape {tuple(gb.shape)} affine {tuple(A)[:6]}", sig="tile|" + sp.sig())
    l, b, r, t = bb
    ok = abs((r - l) - sp.szx) <= 2 * s and abs((t - b) - sp.szy) <= 2 * s and l < r and b < t
    C.oracle(ok, "tile-footprint-size", case, f"footprint {tuple(map(float, bb))} tile size {float(sp.szx)},{float(sp.szy)}")
    # footprint of tile k is the bin rectangle at position dir*k from the origin
    el, eb = Fraction(sp.ox) + dx * ix * sp.szx, Fraction(sp.oy) + dy * iy * sp.szy
    ok = abs(l - el) <= s and abs(b - eb) <= s
    C.oracle(ok, "tile-footprint-position", case, f"footprint {tuple(map(float, bb))} expected left,bottom {float(el)},{float(eb)}")
    ok = (abs(nbx[0] - r) <= s and abs(nbx[1] - b) <= s and abs(nbx[3] - t) <= s
          and abs(nby[1] - t) <= s and abs(nby[0] - l) <= s and abs(nby[2] - r) <= s)
    C.oracle(ok, "neighbours-do-not-share-edge", case,
             f"tile {tuple(map(float, bb))} x-neighbour {tuple(map(float, nbx))} y-neighbour {tuple(map(float, nby))}")
    for other in (nbx, nby, nbd):
        ow = min(r, other[2]) - max(l, other[0])
        oh = min(t, other[3]) - max(b, other[1])
        C.oracle(not (ow > s and oh > s), "tiles-overlap", case,
                 f"tile {tuple(map(float, bb))} overlaps {tuple(map(float, other))}")
    # the centre of the tile is looked up as this tile
    try:
        kc = tuple(map(int, gs.pt2idx(float((l + r) / 2), float((b + t) / 2)).xy))
    except Exception as e:  # pylint: disable=broad-except
        kc = repr(e)
    C.oracle(kc == (ix, iy), "tile-centre-lookup", case, f"centre of tile {(ix, iy)} looked up as {kc}")
    if (ix + iy) % 2 == 0 or abs(ix) > 10**5 or abs(iy) > 10**5:
        oracle_np_index(C, gs, case, (ix, iy), unsigned=not (sp.fx or sp.fy))


def oracle_query(C, gs, sp: Spec, q: Tuple[float, float, float, float], exact: bool, O):
    """bbox query returns the tiles overlapping the query shrunk by 1e-8, nothing farther than 1e-8 away"""
    case = {"op": "tiles", "grid": sp.tok(), "bbox": [fs(v) for v in q]}
    try:
        got = [tuple(map(int, k)) for k, _ in ltiles(gs.tiles(O.BoundingBox(*q, CRS)))]
        rng = tuple(map(int, gs.idx_bounds(O.BoundingBox(*q, CRS))))
    except Exception as e:  # pylint: disable=broad-except
        C.oracle(False, "tiles-raises", case, repr(e))
        return
    x1, y1, x2, y2 = map(Fraction, q)
    big = max(sp.scale(), *(abs(v) for v in (x1, y1, x2, y2)))
    s = 0 if exact else Fraction(1, 10**9) * big
    gotset = set(got)
    if x1 > x2 or y1 > y2:
        return  # inverted boxes are outside the property (the correspondence still covers them)
    ok = (len(gotset) == len(got) and gotset == {(ix, iy) for ix in range(rng[0], rng[2]) for iy in range(rng[1], rng[3])})
    C.oracle(ok, "tiles-differs-from-idx-bounds", case, f"tiles {got[:8]}… idx_bounds {rng}")
    thin = (x2 - x1 < 2 * TOL) or (y2 - y1 < 2 * TOL)
    # candidate window: everything returned plus a ring, plus the tiles around the query corners
    dx, dy = (-1 if sp.fx else 1), (-1 if sp.fy else 1)

    def pos(v, o, sz):
        return math.floor((v - o) / sz)

    cx = sorted({dx * pos(x1, Fraction(sp.ox), sp.szx), dx * pos(x2, Fraction(sp.ox), sp.szx)})
    cy = sorted({dy * pos(y1, Fraction(sp.oy), sp.szy), dy * pos(y2, Fraction(sp.oy), sp.szy)})
    xs = range(min(cx[0], rng[0]) - 2, max(cx[-1], rng[2]) + 2)
    ys = range(min(cy[0], rng[1]) - 2, max(cy[-1], rng[3]) + 2)
    if len(xs) * len(ys) > 400:
        return
    for ix in xs:
        for iy in ys:
            # exact footprint from the grid definition (the tile oracle ties tile_geobox to it)
            l = Fraction(sp.ox) + dx * ix * sp.szx
            b = Fraction(sp.oy) + dy * iy * sp.szy
            r, t = l + sp.szx, b + sp.szy
            inside = (ix, iy) in gotset
            if not thin:
                must = (l < x2 - TOL - s and r > x1 + TOL + s and b < y2 - TOL - s and t > y1 + TOL + s)
                mustnot = (r < x1 + TOL - s or l > x2 - TOL + s or t < y1 + TOL - s or b > y2 - TOL + s)
            else:
                mx, my = (x1 + x2) / 2, (y1 + y2) / 2
                must = (l + s < mx < r - s and b + s < my < t - s)
                mustnot = (r < x1 - TOL - s or l > x2 + TOL + s or t < y1 - TOL - s or b > y2 + TOL + s)
            if must and not inside:
                C.oracle(False, "bbox-query-misses-overlapping-tile", dict(case, tile=[ix, iy]),
                         f"tile {(ix, iy)} x[{float(l)},{float(r)}] y[{float(b)},{float(t)}] overlaps the query "
                         f"{q} by more than 1e-8 but tiles() returned index range {rng}")
            if mustnot and inside:
                C.oracle(False, "bbox-query-returns-distant-tile", dict(case, tile=[ix, iy]),
                         f"tile {(ix, iy)} x[{float(l)},{float(r)}] y[{float(b)},{float(t)}] does not come within "
                         f"1e-8 of the query {q} interior but tiles() returned it (range {rng})")
    C.oracle(True, "bbox-query", case, "", sig="query|" + ("thin" if thin else "box") + "|" + sp.sig())


def oracle_polygon(C, gs, sp: Spec, pts: List[Tuple[float, float]], exact: bool, O, got=None, history=None, holes=None):
    """polygon query vs shapely as the reference; `got` = result of the query when it was made as a step of a
    history (shared geobox_cache), the reference never uses a cache"""
    import shapely
    import shapely.geometry as sg

    case = {"op": "poly", "grid": sp.tok(), "pts": [[fs(x), fs(y)] for x, y in pts]}
    if history is not None:
        case["history"] = history
    if holes:
        case["holes"] = [[[fs(x), fs(y)] for x, y in h] for h in holes]
    try:
        poly = mk_poly(O, pts, holes)
        if got is None:
            got = [tuple(map(int, k)) for k, _ in ltiles(gs.tiles_from_geopolygon(poly))]
        cand = [(tuple(map(int, k)), gb) for k, gb in ltiles(gs.tiles(poly.boundingbox))]
    except Exception as e:  # pylint: disable=broad-except
        C.oracle(False, "polygon-query-raises", case, repr(e))
        return
    sh = poly.geom
    ref = [k for k, gb in cand if sh.intersects(sg.box(*gb.boundingbox))]
    C.oracle(sorted(got) == sorted(ref), "polygon-query-filter", case,
             f"tiles_from_geopolygon {sorted(got)[:10]} but bbox tiles intersecting the polygon (shapely) {sorted(ref)[:10]}",
             sig="poly|" + sp.sig())
    # geometric meaning over a window of tiles around the bounding box
    bx = poly.boundingbox
    big = max(sp.scale(), *(abs(Fraction(v)) for v in bx))
    s = float(0 if exact else Fraction(1, 10**9) * big)
    tol = float(TOL)
    if not cand or len(cand) > 300:
        return
    ixs = [k[0] for k, _ in cand]
    iys = [k[1] for k, _ in cand]
    gotset = set(got)
    for ix in range(min(ixs) - 1, max(ixs) + 2):
        for iy in range(min(iys) - 1, max(iys) + 2):
            l, b, r, t = gs[ix, iy].boundingbox
            inside = (ix, iy) in gotset
            if inside:
                C.oracle(sh.intersects(sg.box(l - s, b - s, r + s, t + s)), "polygon-query-returns-disjoint-tile",
                         dict(case, tile=[ix, iy]), f"tile {(ix, iy)} returned but disjoint from the polygon")
            else:
                m = tol + s + 1e-12 * float(big)
                if r - l > 2 * m and t - b > 2 * m:
                    hit = sh.intersects(sg.box(l + m, b + m, r - m, t - m))
                    C.oracle(not hit, "polygon-query-misses-tile", dict(case, tile=[ix, iy]),
                             f"tile {(ix, iy)} overlaps the polygon by more than 1e-8 but was not returned")


def oracle_roundtrip(C, gs, sp: Spec, j: Tuple[int, int], ks: List[Tuple[int, int]], exact: bool, O):
    case = {"op": "fstrt", "grid": sp.tok(), "j": list(j), "ks": [list(k) for k in ks]}
    try:
        g2 = O.GridSpec.from_sample_tile(gs[j].extent, shape=(sp.ny, sp.nx), idx=j, flipx=sp.fx, flipy=sp.fy)
        for k in ks:
            a, b = fbb(g2[k].boundingbox), fbb(gs[k].boundingbox)
            big = max(sp.scale(), *(abs(v) for v in a + b))
            # the sample tile's edges carry 1 ulp of their own magnitude |origin| + |j|*sz; the rebuilt tile size
            # inherits that absolute error and it is multiplied by the index distance |k-j|
            posx = abs(Fraction(sp.ox)) + (abs(j[0]) + 2) * sp.szx
            posy = abs(Fraction(sp.oy)) + (abs(j[1]) + 2) * sp.szy
            amp = max((abs(k[0] - j[0]) + 2) * posx, (abs(k[1] - j[1]) + 2) * posy)
            s = 0 if exact else Fraction(1, 2**46) * big + Fraction(1, 2**49) * amp
            C.oracle(all(abs(u - v) <= s for u, v in zip(a, b)) and tuple(g2[k].shape) == tuple(gs[k].shape),
                     "from-sample-roundtrip", dict(case, k=list(k)),
                     f"grid rebuilt from tile {j}: tile {k} = {tuple(map(float, a))}, original {tuple(map(float, b))}",
                     sig="fstrt|" + sp.sig())
    except Exception as e:  # pylint: disable=broad-except
        C.oracle(False, "from-sample-raises", case, repr(e))


def oracle_web(C, O, z: int, npix: int, ks: List[Tuple[int, int]]):
    """slippy-map extents: tile (i,j) = [-πR + i·T, …] × [πR − (j+1)·T, πR − j·T], T = 2πR/2^z."""
    case = {"op": "web", "z": z, "npix": npix}
    try:
        gs = O.GridSpec.web_tiles(z, npix)
        PI = Fraction(math.pi)  # π to double precision; slack below is 1e-9 relative
        Pe = PI * 6378137
        T = 2 * Pe / 2**z
        s = Pe / 10**9
        for (i, j) in ks:
            gb = gs[i, j]
            l, b, r, t = fbb(gb.boundingbox)
            want = (-Pe + i * T, Pe - (j + 1) * T, -Pe + (i + 1) * T, Pe - j * T)
            ok = all(abs(u - v) <= s for u, v in zip((l, b, r, t), want)) and tuple(gb.shape) == (npix, npix)
            ok = ok and gb.resolution.x > 0 and gb.resolution.y < 0 and abs(Fraction(gb.resolution.x) * npix - T) <= s
            C.oracle(ok, "web-tile-extent", dict(case, i=i, j=j),
                     f"web_tiles({z})[{i},{j}] = {tuple(map(float, (l, b, r, t)))} slippy formula {tuple(map(float, want))}",
                     sig="web|extent")
            C.sample_dev = max(getattr(C, "sample_dev", 0.0), max(float(abs(u - v)) for u, v in zip((l, b, r, t), want)))
            oracle_np_index(C, gs, dict(case, i=i, j=j), (i, j), unsigned=False)
        # 2^z tiles per side: the world corners (just inside) map to the first / last tile
        n = 2**z
        e = float(T) / 4
        Pf = float(Pe)
        k0 = tuple(map(int, gs.pt2idx(-Pf + e, Pf - e).xy))
        k1 = tuple(map(int, gs.pt2idx(Pf - e, -Pf + e).xy))
        C.oracle(k0 == (0, 0) and k1 == (n - 1, n - 1), "web-tiles-count", case,
                 f"zoom {z}: top-left maps to {k0}, bottom-right to {k1}, expected (0,0) and ({n - 1},{n - 1})",
                 sig="web|count")
    except Exception as e:  # pylint: disable=broad-except
        C.oracle(False, "web-tiles-raises", case, repr(e))




def mk_poly(O, pts, holes=None):
    ring = [tuple(map(float, p)) for p in pts]
    inner = [[tuple(map(float, p)) for p in h] + [tuple(map(float, h[0]))] for h in (holes or [])]
    return O.geom.polygon(ring + [ring[0]], CRS, *inner)



# ----------------------------------------------------------------------------- query geometries of every kind
def oracle_geom(C, gs, sp: Spec, shp, exact: bool, O, got=None, history=None, kind=""):
    """`tiles_from_geopolygon` for ANY geometry the API accepts (shapely object `shp` in the grid's CRS), judged
    per tile by shapely: returned  <=>  footprint meets the geometry, up to the 1e-8 edge-contact band."""
    import shapely.geometry as sg

    case = {"op": "geom", "grid": sp.tok(), "kind": kind or shp.geom_type, "wkb": shp.wkb_hex, "wkt": shp.wkt[:300]}
    if history is not None:
        case["history"] = history
    try:
        g = O.geom.Geometry(shp, CRS)
        if got is None:
            got = [tuple(map(int, k)) for k, _ in ltiles(gs.tiles_from_geopolygon(g))]
        cand = [(tuple(map(int, k)), gb) for k, gb in ltiles(gs.tiles(g.boundingbox))]
    except Exception as e:  # pylint: disable=broad-except
        C.oracle(False, "polygon-query-raises", case, repr(e))
        return
    ref = [k for k, gb in cand if shp.intersects(sg.box(*gb.boundingbox))]
    C.oracle(sorted(got) == sorted(ref) and len(set(got)) == len(got), "polygon-query-filter", case,
             f"{shp.geom_type}: tiles_from_geopolygon {sorted(got)[:12]} but bbox tiles meeting the geometry (shapely) {sorted(ref)[:12]}",
             sig="geom|" + (kind or shp.geom_type))
    if not cand or len(cand) > 400:
        return
    bx = g.boundingbox
    big = max(sp.scale(), *(abs(Fraction(v)) for v in bx))
    s = float(0 if exact else Fraction(1, 10**9) * big)
    tol = float(TOL)
    ixs = [k[0] for k, _ in cand]
    iys = [k[1] for k, _ in cand]
    gotset = set(got)
    for ix in range(min(ixs) - 1, max(ixs) + 2):
        for iy in range(min(iys) - 1, max(iys) + 2):
            l, b, r, t = gs[ix, iy].boundingbox
            if (ix, iy) in gotset:
                C.oracle(shp.intersects(sg.box(l - s, b - s, r + s, t + s)), "polygon-query-returns-disjoint-tile",
                         dict(case, tile=[ix, iy]),
                         f"{shp.geom_type}: tile {(ix, iy)} [{l},{b},{r},{t}] returned but it does not meet the geometry")
            else:
                m = tol + s + 1e-12 * float(big)
                if r - l > 2 * m and t - b > 2 * m:
                    C.oracle(not shp.intersects(sg.box(l + m, b + m, r - m, t - m)), "polygon-query-misses-tile",
                             dict(case, tile=[ix, iy]),
                             f"{shp.geom_type}: tile {(ix, iy)} [{l},{b},{r},{t}] meets the geometry by more than 1e-8 but was not returned")


# fine detail: the only part of the query that reaches over a tile boundary is a shallow bulge / a gently curved side / a thin
# spike / a thin sliver, by amounts from 1e-6 CRS units up to a pixel (far above the 1e-8 edge tolerance)
FINE_KINDS = ("bulge", "arc", "spike", "sliver", "notch-parcel")
GEOM_KINDS = ("mpoly-row", "mpoly-col", "mpoly-diag", "mpoint-row", "mpoint-col", "mpoint-diag", "mline-row", "mline-col",
              "collection", "line-diag", "line-row", "line-col", "polyline", "point", "point-edge", "holed", "L", "U", "ring-thin",
              "mpoly-holed") + FINE_KINDS


def clip_area(ring, l, b, r, t) -> Fraction:
    """exact area of (simple polygon `ring`, Fractions) ∩ rectangle [l,r]x[b,t]: Sutherland–Hodgman + shoelace (degenerate
    overlapping edges produced for concave subjects cancel in the signed area)"""
    def clip(pts, inside, cut):
        out = []
        for i, p in enumerate(pts):
            q = pts[(i + 1) % len(pts)]
            pi, qi = inside(p), inside(q)
            if pi:
                out.append(p)
            if pi != qi:
                out.append(cut(p, q))
        return out

    def cutx(x0):
        return lambda p, q: (x0, p[1] + (q[1] - p[1]) * (x0 - p[0]) / (q[0] - p[0]))

    def cuty(y0):
        return lambda p, q: (p[0] + (q[0] - p[0]) * (y0 - p[1]) / (q[1] - p[1]), y0)

    pts = list(ring)
    for inside, cut in ((lambda p: p[0] >= l, cutx(l)), (lambda p: p[0] <= r, cutx(r)), (lambda p: p[1] >= b, cuty(b)), (lambda p: p[1] <= t, cuty(t))):
        if not pts:
            return Fraction(0)
        pts = clip(pts, inside, cut)
    a = Fraction(0)
    for i, p in enumerate(pts):
        q = pts[(i + 1) % len(pts)]
        a += p[0] * q[1] - q[0] * p[1]
    return abs(a) / 2


def oracle_area(C, gs, sp: Spec, shp, exact: bool, O, kind=""):
    """a polygon query judged by the EXACT area its polygon shares with every tile of a window around it: a tile sharing more
    area than fits into the 1e-8 edge band must be returned, a returned tile must at least touch the polygon"""
    case = {"op": "geom", "grid": sp.tok(), "kind": kind, "wkb": shp.wkb_hex, "wkt": shp.wkt[:300], "area": True}
    try:
        got = {tuple(map(int, k)) for k, _ in ltiles(gs.tiles_from_geopolygon(O.geom.Geometry(shp, CRS)))}
        ring = [(Fraction(x), Fraction(y)) for x, y in list(shp.exterior.coords)[:-1]]
        xs, ys = [p[0] for p in ring], [p[1] for p in ring]
        k0 = tuple(map(int, gs.pt2idx(float(min(xs)), float(min(ys))).xy))
        k1 = tuple(map(int, gs.pt2idx(float(max(xs)), float(max(ys))).xy))
    except Exception as e:  # pylint: disable=broad-except
        C.oracle(False, "polygon-query-raises", case, repr(e))
        return
    big = max([sp.scale()] + [abs(v) for v in xs + ys])
    s = Fraction(0) if exact else Fraction(1, 10**9) * big
    if (abs(k1[0] - k0[0]) + 3) * (abs(k1[1] - k0[1]) + 3) > 150:
        return
    for ix in range(min(k0[0], k1[0]) - 1, max(k0[0], k1[0]) + 2):
        for iy in range(min(k0[1], k1[1]) - 1, max(k0[1], k1[1]) + 2):
            l, b, r, t = fbb(gs[ix, iy].boundingbox)
            a = clip_area(ring, l, b, r, t)
            band = 2 * (TOL + s) * ((r - l) + (t - b)) + Fraction(1, 10**12) * big * big
            if (ix, iy) not in got:
                C.oracle(a <= band, "polygon-query-misses-overlap-area", dict(case, tile=[ix, iy]),
                         f"{kind}: tile {(ix, iy)} shares an area of {float(a):g} square units with the query (edge band is {float(band):g}) "
                         f"but was not returned; returned {sorted(got)[:10]}", sig="geom|area|" + kind)
            else:
                a2 = clip_area(ring, l - s - TOL, b - s - TOL, r + s + TOL, t + s + TOL)
                import shapely.geometry as sg
                C.oracle(a2 > 0 or shp.intersects(sg.box(float(l - s), float(b - s), float(r + s), float(t + s))), "polygon-query-returns-disjoint-tile",
                         dict(case, tile=[ix, iy]), f"{kind}: tile {(ix, iy)} returned but shares no area with the query", sig="geom|area|" + kind)


def gen_shape(rng, sp: Spec, lattice: bool, kind: str, origin_tile=None):
    """a shapely geometry of the given kind in a window of tiles; coordinates in tile units relative to tile
    (i0, j0): parts of multi-geometries are separated by at least one complete tile"""
    import shapely.geometry as sg

    dx, dy = (-1 if sp.fx else 1), (-1 if sp.fy else 1)
    if origin_tile is None:
        origin_tile = (rng.randint(-3, 3), rng.randint(-3, 3)) if lattice else (rng.randint(-40, 40), rng.randint(-40, 40))
    i0, j0 = origin_tile
    L = Fraction(sp.ox) + dx * i0 * sp.szx
    Bm = Fraction(sp.oy) + dy * j0 * sp.szy

    def fr(lo=0, hi=1):
        """a coordinate offset inside [lo, hi] tiles"""
        if lattice:
            return Fraction(rng.randint(int(lo * 8) + 1, int(hi * 8) - 1), 8)
        return Fraction(rng.uniform(lo + 0.02, hi - 0.02))

    def XY(a, b):
        return (float(L + Fraction(a) * sp.szx), float(Bm + Fraction(b) * sp.szy))

    def small_box(ti, tj):
        a, b = sorted((fr(), fr()))
        c, d = sorted((fr(), fr()))
        if a == b:
            a, b = Fraction(1, 8), Fraction(7, 8)
        if c == d:
            c, d = Fraction(1, 8), Fraction(7, 8)
        return sg.box(*(XY(ti + a, tj + c) + XY(ti + b, tj + d)))

    def pt(ti, tj):
        return sg.Point(*XY(ti + fr(), tj + fr()))

    def seg(ti, tj):
        return sg.LineString([XY(ti + fr(), tj + fr()), XY(ti + fr(), tj + fr()), XY(ti + Fraction(1, 2), tj + Fraction(1, 4))])

    gap = rng.choice([2, 2, 3, 4])     # index distance between parts: at least one whole empty tile
    n = rng.choice([2, 2, 3])
    where = {"row": [(gap * i, 0) for i in range(n)], "col": [(0, gap * i) for i in range(n)],
             "diag": [(gap * i, gap * i * rng.choice([1, -1])) for i in range(n)]}
    shape, _, arr = kind.partition("-")
    if shape == "mpoly" and arr in where:
        return sg.MultiPolygon([small_box(a, b) for a, b in where[arr]])
    if shape == "mpoint":
        return sg.MultiPoint([pt(a, b) for a, b in where[arr]])
    if shape == "mline":
        return sg.MultiLineString([seg(a, b) for a, b in where[arr]])
    if kind == "collection":
        cells = rng.choice([where["row"], where["col"], where["diag"]])
        makers = [small_box, pt, seg]
        return sg.GeometryCollection([makers[i % 3](a, b) for i, (a, b) in enumerate(cells)])
    if kind == "line-diag":
        return sg.LineString([XY(fr(), fr()), XY(3 + fr(), 2 + fr())])
    if kind == "line-row":
        y = fr()
        return sg.LineString([XY(fr(), y), XY(3 + fr(), y if rng.random() < 0.5 else fr())])
    if kind == "line-col":
        x = fr()
        return sg.LineString([XY(x, fr()), XY(x if rng.random() < 0.5 else fr(), 3 + fr())])
    if kind == "polyline":
        return sg.LineString([XY(fr(), fr()), XY(3 + fr(), fr()), XY(3 + fr(), 3 + fr())])
    if kind == "point":
        return pt(0, 0)
    if kind == "point-edge":  # on a tile edge / corner
        return sg.Point(*XY(rng.choice([0, 1, fr()]), rng.choice([0, 1])))
    if kind == "holed":       # the hole swallows whole tiles
        a, b = fr(), 3 + fr()
        h0, h1 = Fraction(rng.choice([5, 6, 7]), 8), 2 + Fraction(rng.choice([1, 2, 3]), 8)
        return sg.Polygon([XY(a, a), XY(b, a), XY(b, b), XY(a, b)], [[XY(h0, h0), XY(h0, h1), XY(h1, h1), XY(h1, h0)]])
    if kind == "L":
        w, a, b = fr(0, 0.5), Fraction(0), 3 + fr()
        return sg.Polygon([XY(a, a), XY(b, a), XY(b, a + w), XY(a + w, a + w), XY(a + w, b), XY(a, b)])
    if kind == "U":
        w, b = fr(0, 0.5), 3 + fr()
        return sg.Polygon([XY(0, 0), XY(b, 0), XY(b, b), XY(b - w, b), XY(b - w, w), XY(w, w), XY(w, b), XY(0, b)])
    if kind == "ring-thin":   # a thin frame around 2x2 .. 3x3 whole tiles
        a, w = fr(), Fraction(1, 8)
        b = a + rng.choice([2, 3])
        return sg.Polygon([XY(a, a), XY(b, a), XY(b, b), XY(a, b)],
                          [[XY(a + w, a + w), XY(a + w, b - w), XY(b - w, b - w), XY(b - w, a + w)]])
    if kind in FINE_KINDS:
        pix = float(min(abs(Fraction(sp.rx)), abs(Fraction(sp.ry))))
        big = float(max(sp.scale(), abs(L) + 4 * sp.szx, abs(Bm) + 4 * sp.szy))
        lo = 1e-6 if lattice else max(1e-6, 40e-9 * big)     # float grids: well above the oracle's rounding slack

        def small(hi):
            hi = max(hi, lo * 2)
            return math.exp(rng.uniform(math.log(lo), math.log(hi)))

        # work in a frame where the crossed boundary is "north" (v = 1 tile); side picks the real direction
        side = rng.choice("NSEW")
        span = rng.choice([1, 1, 2, 3])       # tiles along the boundary

        def P(u, v, du=0.0, dv=0.0):
            """u along the boundary (tiles), v across it (tiles, boundary at v=1), offsets in CRS units"""
            if side == "N":
                x, y = XY(u, v); return (x + du, y + dv)
            if side == "S":
                x, y = XY(u, 1 - v); return (x + du, y - dv)
            if side == "E":
                x, y = XY(v, u); return (x + dv, y + du)
            x, y = XY(1 - v, u); return (x - dv, y + du)

        u0, u1 = fr(0, 0.5), span - 1 + fr(0.5, 1)
        v0 = fr(0, 0.5)
        if kind == "bulge":       # side ends `gap` short of the boundary, one mid vertex reaches `depth` beyond it
            gap, depth = small(pix), small(pix)
            um = u0 + (u1 - u0) * Fraction(rng.randint(2, 6), 8)
            return sg.Polygon([P(u0, v0), P(u1, v0), P(u1, 1, 0, -gap), P(um, 1, 0, depth), P(u0, 1, 0, -gap)])
        if kind == "notch-parcel":  # the demo's shape: parcel half a pixel short, shallow wide bulge a fraction of a pixel over
            gap, depth = pix * rng.choice([0.05, 0.01, 0.03]), pix * rng.choice([0.06, 0.02, 0.04, 0.001])
            return sg.Polygon([P(u0, v0), P(u1, v0), P(u1, 1, 0, -gap), P((u0 + u1) / 2, 1, 0, depth), P(u0, 1, 0, -gap)])
        if kind == "arc":         # gently curved side with many vertices peaking `depth` beyond the boundary
            gap, depth = small(pix), small(pix)
            n = rng.choice([12, 40, 90])
            pts = [P(u0, v0), P(u1, v0)]
            for i in range(n + 1):
                tt = 2 * Fraction(i, n) - 1
                pts.append(P(u1 - (u1 - u0) * Fraction(i, n), 1, 0, -gap + (gap + depth) * float(1 - tt * tt)))
            return sg.Polygon(pts)
        if kind == "spike":       # thin spike of width `w` crossing the boundary by `depth`
            w, depth = small(pix), small(4 * pix)
            um = u0 + (u1 - u0) / 2
            return sg.Polygon([P(u0, v0), P(u1, v0), P(u1, Fraction(3, 4)), P(um, Fraction(3, 4), w, 0), P(um, 1, w / 2, depth), P(um, Fraction(3, 4)),
                               P(u0, Fraction(3, 4))])
        # sliver: a long thin quadrilateral along the boundary, straddling it: from `gap` below to `depth` above
        gap, depth = small(pix), small(pix)
        return sg.Polygon([P(u0, 1, 0, -gap), P(u1, 1, 0, -gap), P(u1, 1, 0, depth), P(u0, 1, 0, depth)])
    if kind == "mpoly-holed":
        a, b = Fraction(1, 8), 2 + Fraction(7, 8)
        h0, h1 = Fraction(7, 8), 2 + Fraction(1, 8)
        holed = sg.Polygon([XY(a, a), XY(b, a), XY(b, b), XY(a, b)], [[XY(h0, h0), XY(h0, h1), XY(h1, h1), XY(h1, h0)]])
        return sg.MultiPolygon([holed, small_box(5, rng.choice([0, 1, 5]))])
    raise ValueError(kind)


def geom_queries(R_or_C, O, gs, sp: Spec, rng, lattice: bool, exact: bool, kinds):
    """each kind: stateless query, query through a fresh cache, and query through a cache pre-filled by a bbox
    query over the geometry's bounding box (must all agree and satisfy the per-tile shapely oracle)"""
    for kind in kinds:
        try:
            shp = gen_shape(rng, sp, lattice, kind)
        except Exception:  # pylint: disable=broad-except
            continue
        if shp.is_empty or not shp.is_valid:
            continue
        oracle_geom(R_or_C, gs, sp, shp, exact, O, kind=kind)
        if shp.geom_type == "Polygon" and not shp.interiors:
            oracle_area(R_or_C, gs, sp, shp, exact, O, kind=kind)
        case = {"op": "geom", "grid": sp.tok(), "kind": kind, "wkb": shp.wkb_hex, "wkt": shp.wkt[:300], "cache": True}
        try:
            g = O.geom.Geometry(shp, CRS)
            alone = [tuple(map(int, k)) for k, _ in ltiles(gs.tiles_from_geopolygon(g))]
            c1 = {}
            fresh = [tuple(map(int, k)) for k, _ in ltiles(gs.tiles_from_geopolygon(g, c1))]
            c2 = {}
            ltiles(gs.tiles(g.boundingbox, c2))
            filled = [tuple(map(int, k)) for k, _ in ltiles(gs.tiles_from_geopolygon(g, c2))]
            want = {tuple(map(int, k)) for k, _ in ltiles(gs.tiles(g.boundingbox))}
            ok = alone == fresh == filled and set(c1) == want and set(c2) == want and all(c1[k] == gs.tile_geobox(k) for k in c1)
            R_or_C.oracle(ok, "polygon-query-depends-on-cache", case,
                          f"{kind}: no cache {sorted(alone)[:8]}, fresh cache {sorted(fresh)[:8]}, pre-filled cache {sorted(filled)[:8]}; "
                          f"cache keys {sorted(c1)[:8]} expected {sorted(want)[:8]}", sig="geom|cache")
        except Exception as e:  # pylint: disable=broad-except
            R_or_C.oracle(False, "polygon-query-raises", case, repr(e))


def other_crs_geom(O, shp4326, grid=None):
    """geometry in EPSG:4326 queried against the Australian Albers grid; reference = shapely per tile on the geometry
    as reprojected by the library itself (with and without a cache)"""
    import shapely.geometry as sg

    try:
        gsa = grid or O.GridSpec("epsg:3577", (4000, 4000), 25.0)
        g = O.geom.Geometry(shp4326, "epsg:4326")
        got = sorted(tuple(map(int, k)) for k, _ in ltiles(gsa.tiles_from_geopolygon(g)))
        gotc = sorted(tuple(map(int, k)) for k, _ in ltiles(gsa.tiles_from_geopolygon(g, {})))
        pp = g.to_crs("epsg:3577", check_and_fix=True)
        ref = sorted(tuple(map(int, k)) for k, gb in ltiles(gsa.tiles(pp.boundingbox)) if pp.geom.intersects(sg.box(*gb.boundingbox)))
        return got == ref == gotc and len(got) > 0, f"{shp4326.geom_type}: tiles_from_geopolygon {got[:8]} (with cache {gotc[:8]}) vs shapely reference {ref[:8]}"
    except Exception as e:  # pylint: disable=broad-except
        return False, repr(e)


# ----------------------------------------------------------------------------- big cross-CRS queries
def _proj_truth(shp4326, dst_crs: str, step: float):
    """the query geometry in the grid CRS, independent of odc-geo's bbox / to_crs code: a fresh pyproj transformer
    applied (v) to the vertices only — what `Geometry.to_crs` without `resolution` does — and (t) to the geometry
    densified in its own CRS with segments <= step degrees (its true point set)"""
    import numpy as np
    import pyproj
    import shapely

    tr = pyproj.Transformer.from_crs("epsg:4326", dst_crs, always_xy=True)
    f = lambda a: np.column_stack(tr.transform(a[:, 0], a[:, 1]))
    return shapely.transform(shp4326, f), shapely.transform(shapely.segmentize(shp4326, step), f)


def oracle_big_crs(C, O, gdesc, shp4326, known_check=None):
    """continental-size geometry in EPSG:4326 against a projected grid.  Brute force over a window of tiles
    computed from the projected geometry's bounds by plain floor division (no idx_bounds / boundingbox code):
      enforced (agnostic to whether the library densifies edges): a tile overlapping BOTH the vertex-projected
        and the true (densified) geometry by more than 1e-4 of a tile's area must be returned; a returned tile must
        come within 50 m of one of the two;
      reported (key polygon-query-other-crs-curved-edges, see run()): tiles overlapping the TRUE geometry."""
    import shapely.geometry as sg

    crs, shape, res = gdesc
    case = {"op": "bigcrs", "crs": crs, "shape": list(shape), "res": res, "wkb": shp4326.wkb_hex, "wkt": shp4326.wkt[:300]}
    try:
        gs = O.GridSpec(crs, shape, res)
        g = O.geom.Geometry(shp4326, "epsg:4326")
        got = {tuple(map(int, k)) for k, _ in ltiles(gs.tiles_from_geopolygon(g))}
        gotc = {tuple(map(int, k)) for k, _ in ltiles(gs.tiles_from_geopolygon(g, {}))}
    except Exception as e:  # pylint: disable=broad-except
        C.oracle(False, "polygon-query-raises", case, repr(e))
        return None
    span = max(shp4326.bounds[2] - shp4326.bounds[0], shp4326.bounds[3] - shp4326.bounds[1])
    Pv, Pt = _proj_truth(shp4326, crs, min(0.02, max(span / 2000, 1e-4)))
    if not Pv.is_valid or not Pt.is_valid:
        return None
    both = Pv.intersection(Pt)
    either = Pv.union(Pt)
    tsx, tsy = shape[1] * abs(res), shape[0] * abs(res)
    l, b, r, t = either.bounds
    ix1, ix2 = math.floor(l / tsx) - 2, math.floor(r / tsx) + 2
    iy1, iy2 = math.floor(b / tsy) - 2, math.floor(t / tsy) + 2
    if (ix2 - ix1) * (iy2 - iy1) > 6000:
        return None
    slack_a = 1e-4 * tsx * tsy
    miss_true = []
    C.oracle(got == gotc, "polygon-query-depends-on-cache", case, f"cross-CRS query differs with a fresh cache: {len(got)} vs {len(gotc)} tiles")
    for ix in range(ix1, ix2 + 1):
        for iy in range(iy1, iy2 + 1):
            tb = sg.box(ix * tsx, iy * tsy, (ix + 1) * tsx, (iy + 1) * tsy)   # origin (0,0), no flips
            if (ix, iy) in got:
                C.oracle(either.distance(tb) <= 50.0, "polygon-query-other-crs-returns-distant-tile", dict(case, tile=[ix, iy]),
                         f"tile {(ix, iy)} returned but it is {either.distance(tb):.0f} m away from the reprojected geometry",
                         sig="bigcrs|" + crs)
            else:
                a = both.intersection(tb).area if both.intersects(tb) else 0.0
                C.oracle(a <= slack_a, "polygon-query-other-crs-misses-overlap", dict(case, tile=[ix, iy]),
                         f"{crs} {tsx / 1000:g} km tiles: tile {(ix, iy)} overlaps the query (EPSG:4326 {shp4326.geom_type}, {span:.1f} deg wide) "
                         f"by {a / 1e6:.1f} km^2 but was not returned ({len(got)} tiles returned)", sig="bigcrs|" + crs)
                at = Pt.intersection(tb).area if Pt.intersects(tb) else 0.0
                if at > slack_a:
                    miss_true.append(((ix, iy), at))
    return miss_true


def gen_big_shape(rng):
    """continental polygons over Australia with a vertex on the bulging side of the lon/lat bounding box"""
    import shapely.geometry as sg

    w = rng.uniform(8, 30)
    lon0 = rng.uniform(113, 153 - w)
    lat0 = rng.uniform(-42, -22)
    h = rng.uniform(4, 14)
    mid = lon0 + w / 2 + rng.uniform(-0.1, 0.1) * w
    kind = rng.choice(["apex-north", "apex-south", "diamond", "box", "multi"])
    if kind == "apex-north":
        return sg.Polygon([(lon0, lat0), (lon0 + w, lat0), (mid, lat0 + h)])
    if kind == "apex-south":
        return sg.Polygon([(lon0, lat0 + h), (mid, lat0), (lon0 + w, lat0 + h)])
    if kind == "diamond":
        return sg.Polygon([(lon0, lat0 + h / 2), (mid, lat0), (lon0 + w, lat0 + h / 2), (mid, lat0 + h)])
    if kind == "box":
        return sg.box(lon0, lat0, lon0 + w, lat0 + h)
    return sg.MultiPolygon([sg.Polygon([(lon0, lat0), (lon0 + w / 3, lat0), (lon0 + w / 6, lat0 + h)]),
                            sg.Polygon([(lon0 + 2 * w / 3, lat0 + h), (lon0 + w, lat0 + h), (lon0 + 5 * w / 6, lat0)])])


# ----------------------------------------------------------------------------- values survive pickle / copy
def behaviour(gs, O, idxs, pts, q):
    """observable behaviour of a grid on indices != 0 on every axis"""
    out = [grid_s(gs), str(gs.crs)]
    for k in idxs:
        out.append(tile_s(gs.tile_geobox(k)))
        out.append(tile_s(gs[k]))
    for x, y in pts:
        out.append(idx_s(gs.pt2idx(x, y).xy))
    bb = O.BoundingBox(*q, str(gs.crs))
    out.append(" ".join(str(int(v)) for v in gs.idx_bounds(bb)))
    out.append(list_s([tuple(map(int, k)) for k, _ in ltiles(gs.tiles(bb))], idx_s))
    return out


_CHILD = r"""
import sys, pickle
sys.path[:0] = [p for p in sys.argv[1].split('|') if p]
import warnings; warnings.filterwarnings('ignore')
from harness import c14
O = c14._import()
items = pickle.load(sys.stdin.buffer)
res = []
for blob, idxs, pts, q in items:
    try:
        g = pickle.loads(blob)
        res.append((c14.behaviour(g, O, idxs, pts, q), pickle.dumps(g)))
    except Exception as e:
        res.append((['ERR ' + repr(e)], b''))
pickle.dump(res, sys.stdout.buffer)
"""


def grid_from_recipe(O, rec):
    if rec[0] == "spec":
        return Spec.from_tok(rec[1].split(" ")).make(O)
    if rec[0] == "web":
        return O.GridSpec.web_tiles(rec[1], rec[2])
    if rec[0] == "fst":
        f = lambda v: float(Fraction(v))
        return O.GridSpec.from_sample_tile(O.geom.box(*[f(v) for v in rec[1]], rec[2]), shape=tuple(rec[3]), idx=tuple(rec[4]),
                                           flipx=rec[5], flipy=rec[6])
    raise ValueError(rec)


def value_item(O, rec):
    """(recipe, grid, indices != 0 on both axes, points, query box) for the round-trip checks"""
    gs = grid_from_recipe(O, rec)
    idxs = [(2, -3), (-1, 4)]
    b = gs[2, -3].boundingbox
    b2 = gs[-1, 4].boundingbox
    pts = [((b.left + b.right) / 2, (b.bottom + b.top) / 2), (b2.left, b2.bottom)]
    w, h = b.right - b.left, b.top - b.bottom
    return (rec, gs, idxs, pts, (b.left - w / 2, b.bottom - h / 2, b.right + w, b.top + h / 2))


def roundtrip_values(C, O, items, cross_process: bool):
    """items: (description, GridSpec, idxs, pts, query bbox).  The grid must survive pickle (every protocol),
    copy.copy, copy.deepcopy and a trip through another interpreter with BEHAVIOURAL equality."""
    import copy
    import pickle
    import subprocess
    import sys as _sys

    restored = []
    for desc, gs, idxs, pts, q in items:
        case = {"op": "valuert", "desc": desc if isinstance(desc, str) else json.dumps(desc), "recipe": desc}
        try:
            want = behaviour(gs, O, idxs, pts, q)
            ways = [("copy.copy", copy.copy(gs)), ("copy.deepcopy", copy.deepcopy(gs))]
            ways += [(f"pickle-{p}", pickle.loads(pickle.dumps(gs, protocol=p))) for p in (2, 3, pickle.HIGHEST_PROTOCOL)]  # protocols 0/1 cannot pickle __slots__ classes (Bin1D)
            ways.append(("deepcopy-in-container", copy.deepcopy({"g": [gs]})["g"][0]))
            for how, g2 in ways:
                got = behaviour(g2, O, idxs, pts, q)
                ok = (g2 == gs) and (gs == g2) and got == want
                diff = next((f"{a!r} vs original {b!r}" for a, b in zip(got, want) if a != b), "")
                C.oracle(ok, "value-roundtrip", dict(case, how=how),
                         f"{desc} through {how}: restored == original is {g2 == gs}; first behavioural difference: {diff[:300]}",
                         sig="valuert|" + how.split("-")[0])
                restored.append((desc, how, g2))
        except Exception as e:  # pylint: disable=broad-except
            C.oracle(False, "value-roundtrip-raises", case, repr(e))
    if cross_process and items:
        try:
            payload = pickle.dumps([(pickle.dumps(gs), idxs, pts, q) for _, gs, idxs, pts, q in items])
            paths = "|".join([os.environ.get("ODC_GEO_REPO", ""), str(VERIF_DIR)])
            p = subprocess.run([_sys.executable, "-c", _CHILD, paths], input=payload, capture_output=True, timeout=120)
            res = pickle.loads(p.stdout)
            for (desc, gs, idxs, pts, q), (got, blob) in zip(items, res):
                want = behaviour(gs, O, idxs, pts, q)
                back = pickle.loads(blob) if blob else None
                ok = got == want and back == gs and behaviour(back, O, idxs, pts, q) == want
                diff = next((f"{a!r} vs original {b!r}" for a, b in zip(got, want) if a != b), "")
                C.oracle(ok, "value-roundtrip", {"op": "valuert", "desc": json.dumps(desc), "recipe": desc, "how": "other-process"},
                         f"{desc} pickled to another interpreter and back: first behavioural difference: {diff[:300]}",
                         sig="valuert|other-process")
        except Exception as e:  # pylint: disable=broad-except
            C.oracle(False, "value-roundtrip-raises", {"op": "valuert", "how": "other-process"}, repr(e)[:500])
    return restored


# ----------------------------------------------------------------------------- one instance, many threads
def thread_stress(C, O, sp: Spec, budget_s: float, seed: int, nthreads: int = 6):
    """Time-boxed stress (NOT a proof): `nthreads` threads hammer ONE GridSpec with tile_geobox / __getitem__ /
    tiles / tiles_from_geopolygon / pt2idx / geojson over a small set of indices; every answer is compared with
    the answer a fresh instance gave single-threaded.  Interleavings are provoked by sys.setswitchinterval(1e-6)
    and by yield points injected into the constructors the module calls (`gridspec.Affine`, `gridspec.GeoBox`:
    a sleep that releases the GIL just before the real constructor runs)."""
    import sys as _sys
    import threading
    import time

    case = {"op": "threads", "grid": sp.tok(), "threads": nthreads, "seed": seed}
    idxs = [(1, -2), (-3, 2), (2, 2), (-1, -1)]
    fresh = sp.make(O)
    bbs = [fresh[k].boundingbox for k in idxs]
    q = O.BoundingBox(bbs[0].left, bbs[0].bottom, bbs[0].right + float(sp.szx), bbs[0].top + float(sp.szy), CRS)
    poly = O.geom.polygon([(q.left, q.bottom), (q.right, q.bottom), (q.left, q.top), (q.left, q.bottom)], CRS)
    pts = [((b.left + b.right) / 2, (b.bottom + b.top) / 2) for b in bbs]

    def ops(gs):
        return ([("tile_geobox", k, lambda k=k: tile_s(gs.tile_geobox(k))) for k in idxs]
                + [("getitem", k, lambda k=k: tile_s(gs[k])) for k in idxs]
                + [("pt2idx", p, lambda p=p: idx_s(gs.pt2idx(*p).xy)) for p in pts]
                + [("tiles", "q", lambda: " ".join(f"{idx_s(k)}={tile_s(gb)}" for k, gb in ltiles(gs.tiles(q)))),
                   ("tiles_from_geopolygon", "poly", lambda: " ".join(f"{idx_s(k)}={tile_s(gb)}" for k, gb in ltiles(gs.tiles_from_geopolygon(poly)))),
                   ("geojson", "q", lambda: repr([(f["properties"], f["geometry"]) for f in gs.geojson(bbox=q)["features"]]))])

    want = [f() for _, _, f in ops(fresh)]
    shared = sp.make(O)
    shared_ops = ops(shared)
    bad: List[str] = []
    stop = time.time() + budget_s
    mod = O.gridspec
    # yield points are injected only where the module still exposes these names (an odc-geo that imports them differently is
    # stressed without them)
    real_aff, real_gb = getattr(mod, "Affine", None), getattr(mod, "GeoBox", None)

    def slow(ctor):
        def make(*a, **kw):
            time.sleep(0)  # yield point: lets another thread run between the statements of the caller
            return ctor(*a, **kw)
        return make

    def worker(n):
        rr = random.Random(seed * 100 + n)
        while time.time() < stop and not bad:
            i = rr.randrange(len(shared_ops))
            name, arg, f = shared_ops[i]
            try:
                got = f()
            except Exception as e:  # pylint: disable=broad-except
                got = "ERR " + repr(e)
            if got != want[i]:
                bad.append(f"thread {n}: {name}({arg}) on the shared GridSpec = {got[:200]} but a fresh instance gives {want[i][:200]}")

    old = _sys.getswitchinterval()
    try:
        _sys.setswitchinterval(1e-6)
        if real_aff is not None:
            mod.Affine = slow(real_aff)
        if real_gb is not None:
            mod.GeoBox = slow(real_gb)
        ths = [threading.Thread(target=worker, args=(n,)) for n in range(nthreads)]
        for th in ths:
            th.start()
        for th in ths:
            th.join()
    finally:
        if real_aff is not None:
            mod.Affine = real_aff
        if real_gb is not None:
            mod.GeoBox = real_gb
        _sys.setswitchinterval(old)
    C.oracle(not bad, "shared-instance-concurrency", case, bad[0] if bad else "", sig="threads|" + sp.sig())
    return not bad

# ----------------------------------------------------------------------------- histories (shared geobox_cache)
def key_yx(k):
    return (k[1], k[0])


def hist_tok(steps) -> str:
    toks = []
    for kind, arg in steps:
        if kind in "Bb":
            toks += [kind] + [fs(v) for v in arg]
        elif kind in "Pp":
            toks += [kind, list_s(arg, lambda p: f"{fs(p[0])};{fs(p[1])}")]
    return " ".join(toks)


def run_history(O, gs, steps):
    """Run the steps on the real code with ONE caller-supplied geobox_cache.  Kinds: B/P bbox / polygon query
    with the cache, b/p the same without, Q polygon with holes / non-convex (cache), T plain tile_geobox call."""
    cache = {}
    outs = []
    for kind, arg in steps:
        if kind == "T":
            gs.tile_geobox(arg)
            continue
        c = cache if kind in "BPQG" else None
        if kind in "Bb":
            res = ltiles(gs.tiles(O.BoundingBox(*arg, CRS), c))
        elif kind in "Pp":
            res = ltiles(gs.tiles_from_geopolygon(mk_poly(O, arg), c))
        elif kind == "G":
            res = ltiles(gs.tiles_from_geopolygon(O.geom.Geometry(arg, CRS), c))
        else:
            res = ltiles(gs.tiles_from_geopolygon(mk_poly(O, arg[0], arg[1]), c))
        outs.append((kind, arg, [(tuple(map(int, k)), gb) for k, gb in res]))
    return outs, cache


def hist_s(outs, cache) -> str:
    return (" ".join(list_s(sorted((k for k, _ in res), key=key_yx), idx_s) for kind, _, res in outs)
            + " cache=" + list_s(sorted((tuple(map(int, k)) for k in cache), key=key_yx), idx_s))


def steps_json(steps):
    out = []
    for kind, arg in steps:
        if kind in "Bb":
            out.append([kind, [fs(v) for v in arg]])
        elif kind in "Pp":
            out.append([kind, [[fs(x), fs(y)] for x, y in arg]])
        elif kind == "Q":
            out.append([kind, [[fs(x), fs(y)] for x, y in arg[0]], [[[fs(x), fs(y)] for x, y in h] for h in arg[1]]])
        elif kind == "G":
            out.append([kind, arg.wkb_hex, arg.wkt[:120]])
        else:
            out.append([kind, list(arg)])
    return out


def steps_from_json(js):
    f = lambda v: float(Fraction(v))
    steps = []
    for st in js:
        kind = st[0]
        if kind in "Bb":
            steps.append((kind, tuple(f(v) for v in st[1])))
        elif kind in "Pp":
            steps.append((kind, [(f(x), f(y)) for x, y in st[1]]))
        elif kind == "Q":
            steps.append((kind, ([(f(x), f(y)) for x, y in st[1]], [[(f(x), f(y)) for x, y in h] for h in st[2]])))
        elif kind == "G":
            import shapely
            steps.append((kind, shapely.from_wkb(bytes.fromhex(st[1]))))
        else:
            steps.append((kind, tuple(st[1])))
    return steps


def oracle_history(C, gs, sp: Spec, steps, exact: bool, O):
    """Every query of a history must return what the same query returns on its own (no cache) and satisfy the
    polygon oracle; every yielded geobox is the geobox of its index; afterwards the cache holds exactly the
    tiles of the bounding boxes of the cached queries, each with the right geobox."""
    hj = steps_json(steps)
    case = {"op": "history", "grid": sp.tok(), "steps": hj}
    try:
        outs, cache = run_history(O, gs, steps)
    except Exception as e:  # pylint: disable=broad-except
        C.oracle(False, "history-raises", case, repr(e))
        return None
    want_keys = set()
    for n, (kind, arg, res) in enumerate(outs):
        got = [k for k, _ in res]
        bad = [k for k, gb in res if not (gb == gs.tile_geobox(k))]
        C.oracle(not bad, "history-yields-wrong-geobox", dict(case, step=n), f"step {n} ({kind}) yielded a geobox that is not tile_geobox(index) for {bad[:5]}")
        if kind in "Bb":
            bb = O.BoundingBox(*arg, CRS)
            alone = [tuple(map(int, k)) for k, _ in ltiles(gs.tiles(bb))]
            C.oracle(got == alone, "bbox-query-depends-on-cache", dict(case, step=n),
                     f"step {n}: tiles(bbox, cache) = {got[:8]} but tiles(bbox) = {alone[:8]}", sig="history|bbox")
            if kind == "B":
                want_keys |= set(alone)
        elif kind == "G":
            g = O.geom.Geometry(arg, CRS)
            alone = [tuple(map(int, k)) for k, _ in ltiles(gs.tiles_from_geopolygon(g))]
            C.oracle(got == alone, "polygon-query-depends-on-cache", dict(case, step=n),
                     f"step {n}: {arg.geom_type} query through the shared cache = {sorted(got)[:10]} but without the cache {sorted(alone)[:10]}",
                     sig="history|geom")
            oracle_geom(C, gs, sp, arg, exact, O, got=got, history=hj)
            want_keys |= {tuple(map(int, k)) for k, _ in ltiles(gs.tiles(g.boundingbox))}
        else:
            pts, holes = (arg, None) if kind in "Pp" else arg
            poly = mk_poly(O, pts, holes)
            alone = [tuple(map(int, k)) for k, _ in ltiles(gs.tiles_from_geopolygon(poly))]
            C.oracle(got == alone, "polygon-query-depends-on-cache", dict(case, step=n),
                     f"step {n}: tiles_from_geopolygon(poly, cache) = {sorted(got)[:10]} but without the cache {sorted(alone)[:10]}",
                     sig="history|poly")
            oracle_polygon(C, gs, sp, pts, exact, O, got=got, history=hj, holes=holes)
            if kind in "PQ":
                want_keys |= {tuple(map(int, k)) for k, _ in ltiles(gs.tiles(poly.boundingbox))}
    keys = {tuple(map(int, k)) for k in cache}
    bad = [k for k, gb in cache.items() if not (gb == gs.tile_geobox(k))]
    C.oracle(keys == want_keys and not bad, "geobox-cache-contents", case,
             f"cache keys {sorted(keys)[:10]} expected {sorted(want_keys)[:10]}; wrong geoboxes for {bad[:5]}", sig="history|cache")
    return outs, cache


def gen_history(rng, sp: Spec, lattice: bool):
    """3-6 steps inside a window of 4x4 tiles around a random tile; later queries cover tiles cached earlier"""
    dx, dy = (-1 if sp.fx else 1), (-1 if sp.fy else 1)
    i0, j0 = (rng.randint(-3, 3), rng.randint(-3, 3)) if lattice else (rng.randint(-40, 40), rng.randint(-40, 40))
    L = Fraction(sp.ox) + dx * i0 * sp.szx
    Bm = Fraction(sp.oy) + dy * j0 * sp.szy

    def u():
        return Fraction(rng.randint(-4, 14), 4) if lattice else Fraction(rng.uniform(-1, 3.5))

    def XY(a, b):
        return (float(L + a * sp.szx), float(Bm + b * sp.szy))

    def box():
        a, b = sorted((u(), u()))
        c, d = sorted((u(), u()))
        if a == b:
            b += 1
        if c == d:
            d += 1
        return XY(a, c) + XY(b, d)

    def sliver():
        a, b = Fraction(rng.randint(0, 3), 4), Fraction(rng.randint(9, 12), 4)
        e = Fraction(rng.choice([1, 1, 2]), 4) if lattice else Fraction(rng.uniform(0.05, 0.4))
        if rng.random() < 0.5:
            pts = [XY(a, a + e), XY(a + e, a), XY(b, b - e), XY(b - e, b)]
        else:
            pts = [XY(a, b - e), XY(a + e, b), XY(b, a + e), XY(b - e, a)]
        return convex_pts(rng, pts)

    def hull():
        return convex_pts(rng, [XY(u(), u()) for _ in range(rng.choice([3, 3, 4]))])

    def lshape():
        w = Fraction(1, 4) if lattice else Fraction(rng.uniform(0.1, 0.45))
        a, b = Fraction(0), Fraction(3)
        ring = [XY(a, a), XY(b, a), XY(b, a + w), XY(a + w, a + w), XY(a + w, b), XY(a, b)]
        return (ring, [])

    def holed():
        a, b = Fraction(1, 4), Fraction(11, 4)
        h0, h1 = Fraction(3, 4), Fraction(9, 4)
        return ([XY(a, a), XY(b, a), XY(b, b), XY(a, b)], [[XY(h0, h0), XY(h0, h1), XY(h1, h1), XY(h1, h0)]])

    steps = []
    n = rng.randint(3, 6)
    while len(steps) < n:
        r = rng.random()
        if r < 0.25:
            steps.append((rng.choice("BBBb"), box()))
        elif r < 0.5:
            p = sliver()
            if p:
                steps.append((rng.choice("PPPp"), p))
        elif r < 0.7:
            p = hull()
            if p:
                steps.append((rng.choice("PPPp"), p))
        elif r < 0.74:
            try:
                shp = gen_shape(rng, sp, lattice, rng.choice(GEOM_KINDS), origin_tile=(i0, j0))
                if shp.is_valid and not shp.is_empty:
                    steps.append(("G", shp))
            except Exception:  # pylint: disable=broad-except
                pass
        elif r < 0.8:
            steps.append(("Q", lshape()))
        elif r < 0.88:
            steps.append(("Q", holed()))
        elif r < 0.94:
            steps.append(("T", (i0 + rng.randint(0, 2), j0 + rng.randint(0, 2))))
        elif steps:
            steps.append(rng.choice(steps))  # a repeated identical query
    if rng.random() < 0.5:  # a whole-window fill first: the typical "one cache, many footprints" use
        steps.insert(0, ("B", XY(Fraction(-1, 4), Fraction(-1, 4)) + XY(Fraction(13, 4), Fraction(13, 4))))
    return steps


def emit_history(R: Run, O, gs, sp: Spec, steps, modes: str, exact: bool):
    res = oracle_history(R, gs, sp, steps, exact, O)
    if res is None or any(k in "QG" for k, _ in steps):
        return  # polygons with holes / non-convex ones: oracle only (the driver's `disjoint` is for convex rings)
    outs, cache = res
    real = hist_s(outs, cache)
    for m in modes:
        corr(R, f"c14 hist {m} {sp.tok()} {hist_tok(steps)}", (lambda o=real: o), sig=f"hist|{m}|{len(steps)}-steps")


# ----------------------------------------------------------------------------- rebuilt binnings: two-sided
EPS = Fraction(1, 2**50)  # 4 ulps relative: bound of the rounding of  x1-x0,  sz*idx*dir,  x0 - …


def oracle_sample_bin(C, O, idx: int, x0: float, x1: float, d: int, far: int):
    case = {"op": "fsb", "idx": idx, "x0": fs(x0), "x1": fs(x1), "d": d, "far": far}
    try:
        b = O.Bin1D.from_sample_bin(idx, (x0, x1), d)
        lo, hi = b[idx]
        flo, _ = b[far]
    except Exception as e:  # pylint: disable=broad-except
        C.oracle(False, "from-sample-bin-raises", case, repr(e))
        return
    X0, X1 = Fraction(x0), Fraction(x1)
    sz = X1 - X0
    org = X0 - sz * idx * d
    mag = abs(X0) + sz * (abs(idx) + abs(far) + 1)
    ok = (abs(Fraction(b.sz) - sz) <= EPS * sz and abs(Fraction(b.origin) - org) <= EPS * mag and b.direction == d
          and abs(Fraction(lo) - X0) <= 4 * EPS * mag and abs(Fraction(hi) - X1) <= 4 * EPS * mag
          and abs(Fraction(flo) - (org + far * d * sz)) <= 4 * EPS * mag)
    C.oracle(ok, "from-sample-bin-not-the-sample", case,
             f"from_sample_bin({idx}, ({x0!r}, {x1!r}), {d}): sz={b.sz!r} (x1-x0={float(sz)!r}), origin={b.origin!r} "
             f"(expected {float(org)!r}), bin[{idx}]={(lo, hi)}, bin[{far}] starts {flo!r} (expected {float(org + far * d * sz)!r})",
             sig="fsb|two-sided")


def oracle_sample_tile(C, O, q, ny, nx, ix, iy, fx, fy, k):
    case = {"op": "fst", "box": [fs(v) for v in q], "ny": ny, "nx": nx, "ix": ix, "iy": iy, "fx": fx, "fy": fy, "k": list(k)}
    try:
        g = O.GridSpec.from_sample_tile(O.geom.box(*q, CRS), shape=(ny, nx), idx=(ix, iy), flipx=fx, flipy=fy)
        bb = fbb(g[k].boundingbox)
        sb = fbb(g[ix, iy].boundingbox)
    except Exception as e:  # pylint: disable=broad-except
        C.oracle(False, "from-sample-raises", case, repr(e))
        return
    L, B, Rr, T = map(Fraction, q)
    dx, dy = (-1 if fx else 1), (-1 if fy else 1)
    szx, szy = Rr - L, T - B
    ox, oy = L - szx * ix * dx, B - szy * iy * dy
    mx = abs(L) + szx * (abs(ix) + abs(k[0]) + 2)
    my = abs(B) + szy * (abs(iy) + abs(k[1]) + 2)
    ok = (abs(Fraction(g.tile_size.x) - szx) <= EPS * szx and abs(Fraction(g.tile_size.y) - szy) <= EPS * szy
          and abs(Fraction(g.origin.x) - ox) <= EPS * mx and abs(Fraction(g.origin.y) - oy) <= EPS * my
          and g.resolution.x > 0 and g.resolution.y < 0 and tuple(g.tile_shape) == (ny, nx)
          and abs(Fraction(g.resolution.x) * nx - szx) <= EPS * szx and abs(-Fraction(g.resolution.y) * ny - szy) <= EPS * szy)
    C.oracle(ok, "from-sample-tile-size-or-origin", case,
             f"from_sample_tile: tile_size {g.tile_size} origin {g.origin} resolution {g.resolution}; sample box is "
             f"{float(szx)!r} x {float(szy)!r}, expected origin {float(ox)!r},{float(oy)!r}", sig="fst|two-sided")
    want = (ox + dx * k[0] * szx, oy + dy * k[1] * szy, ox + dx * k[0] * szx + szx, oy + dy * k[1] * szy + szy)
    tol = (4 * EPS * mx, 4 * EPS * my, 4 * EPS * mx, 4 * EPS * my)
    ok = all(abs(a - w) <= t for a, w, t in zip(bb, want, tol)) and all(abs(a - w) <= t for a, w, t in zip(sb, (L, B, Rr, T), tol))
    C.oracle(ok, "from-sample-tile-footprints", case,
             f"grid from sample tile {(ix, iy)} = {tuple(map(float, (L, B, Rr, T)))}: tile {tuple(k)} = {tuple(map(float, bb))} "
             f"expected {tuple(map(float, want))}; sample tile itself = {tuple(map(float, sb))}", sig="fst|far-tile")


def near_value(rng) -> float:
    """a size at k ± δ or 1/(k ± δ), δ ∈ {1e-6, 1e-7, 1e-9, 1e-10, 1e-13, 1 ulp, just in/outside 1e-6}:
    the windows in which helpers such as snap_scale / maybe_int / is_almost_int change a value"""
    d = rng.choice([1e-6, 1e-7, 1e-9, 1e-10, 1e-13, "ulp", 0.99e-6, 1.01e-6, 4e-7])
    sg = rng.choice([1, -1])
    if rng.random() < 0.55:
        k = float(rng.choice([1, 2, 3, 10, 100, 1000, 96000, 100000]))
        return math.nextafter(k, sg * math.inf) if d == "ulp" else k + sg * d
    k = float(rng.choice([2, 3, 4, 8, 10, 100, 120, 3600]))
    if d == "ulp":
        return math.nextafter(1 / k, sg * math.inf)
    return 1 / (k + sg * d) if rng.random() < 0.7 else 1 / k + sg * d * 1e-3

# ----------------------------------------------------------------------------- F-mode buffer
DISCRETE_OPS = ("pt", "idxb", "tiles", "poly", "bin")
_ATOM = re.compile(r"[\[\],; ]+")


def corr(R: Run, line: str, fn, sig: Optional[str] = None, safe: bool = True) -> str:
    """E-mode (and spec) lines go straight to the framework.  F-mode lines (binary64 model) are buffered and
    classified at the end of `run` (see `flush_fbuf`)."""
    t = line.split(" ", 3)
    if len(t) > 2 and t[2] == "F":
        out = guarded(fn)
        R.__dict__.setdefault("_fbuf", []).append((line, out, sig, safe))
        return out
    return R.corr(line, fn, sig)


EXT_OPS = ("binx", "itemx", "fsbx", "gridx")


def ext_nonfinite(line: str) -> bool:
    """an extended-domain line whose inputs contain nan / ±inf or a value in the overflow / underflow range: there an algebraically
    equivalent re-association of the library's float expression legitimately changes a nan into an inf (inf - inf vs inf) or an
    OverflowError into an inf — such lines pin today's behaviour informationally (a difference is a note, never a violation)"""
    for tok in line.split(" ")[3:]:
        if tok in ("nan", "inf", "-inf"):
            return True
        t = tok.lstrip("-if")
        num, _, den = t.partition("/")
        if num.isdigit() and (not den or den.isdigit()) and abs(len(num) - len(den or "1")) > 140:
            return True
    return False


def drift_equal(line: str, real: str, model: str, safe: bool) -> bool:
    """True when `real` and `model` differ by float rounding only: every rational within 2^-46 (1.4e-14) relative to the
    magnitude of the line's values, and discrete outputs equal unless the input was generated within rounding
    distance of a decision boundary (`safe` False)."""
    if real == model:
        return True
    op = line.split(" ")[1]
    if op in EXT_OPS and model != "bad-op" and ext_nonfinite(line):
        return True
    if real.startswith("ERR") or model.startswith("ERR") or model == "bad-op":
        return False
    if op in DISCRETE_OPS:
        return not safe
    a = [x for x in _ATOM.split(real) if x]
    b = [x for x in _ATOM.split(model) if x]
    if len(a) != len(b):
        return False
    try:
        fa, fb = [Fraction(x) for x in a], [Fraction(x) for x in b]
    except (ValueError, ZeroDivisionError):
        return False
    # rounding of a rebuilt grid is amplified by the distance (in tiles) between the sample tile and the probed tile: an ulp in
    # the tile size times the index offset lands in the origin — scale the slack by the largest index-like integer of the line
    amp = 1
    for tok in _ATOM.split(line):
        if tok.lstrip("-").isdigit() and len(tok) <= 9:
            amp = max(amp, abs(int(tok)))
    tol = Fraction(1, 2**46) * max([Fraction(1)] + [abs(v) for v in fa + fb]) * (1 + amp)
    return all(abs(u - v) <= tol for u, v in zip(fa, fb))


def flush_fbuf(R: Run):
    """F-mode lines must agree bit-for-bit with the real code.  If some differ but ALL differences are
    rounding-level (`drift_equal`) — e.g. after a re-association of a float expression in odc-geo, which cannot
    affect the property beyond the documented slack — the drifting lines are reported as a note instead of a broken
    correspondence (the exact E-mode correspondence and the property oracles are unaffected by this rule).
    Any other difference registers every F line strictly."""
    buf = R.__dict__.pop("_fbuf", [])
    if not buf:
        return
    try:
        outs = run_driver("C14", [b[0] for b in buf]) if R.proof_break is None else None
    except Exception:  # pylint: disable=broad-except
        outs = None
    drift = []
    if outs is not None:
        diff = [(b, m) for b, m in zip(buf, outs) if b[1] != m]
        if diff and all(drift_equal(b[0], b[1], m, b[3]) for b, m in diff):
            drift = [b[0] for b, _ in diff]
        elif diff:
            R.extra["binary64_lines_differing_beyond_rounding"] = [{"line": b[0][:400], "real": b[1][:300], "model": m[:300]}
                                                                   for b, m in diff if not drift_equal(b[0], b[1], m, b[3])][:5]
    skip = set(drift)
    for line, out, sig, _ in buf:
        if line in skip:
            continue
        R.corr(line, (lambda o=out: o), sig)
    if drift:
        R.count("F-mode-rounding-drift", len(drift))
        nf = [d for d in drift if d.split(" ")[1] in EXT_OPS and ext_nonfinite(d)]
        if nf:
            R.count("F-mode-nonfinite-domain-difference", len(nf))
            R.notes.append(f"{len(nf)} lines on the non-finite / overflow domain differ from the model of today's code (nan vs inf vs OverflowError "
                           f"outcomes depend on how the float expression is associated; informational), e.g. {nf[0][:160]}")
        R.notes.append(f"{len(drift)} of {len(buf)} binary64-mode lines differ from the real code by float rounding only "
                       f"(<=2^-46 relative x tile-index distance, no decision changed away from a boundary), e.g. {drift[0]}")

# ----------------------------------------------------------------------------- case emitters
def emit_grid(R: Run, O, sp: Spec, modes: str):
    for m in modes:
        corr(R, f"c14 grid {m} {sp.tok()}", lambda: grid_s(sp.make(O)), sig=None)


def emit_pt(R: Run, O, gs, sp: Spec, x: float, y: float, modes: str, tag=""):
    for m in modes:
        corr(R, f"c14 pt {m} {sp.tok()} {fs(x)} {fs(y)}", lambda: idx_s(gs.pt2idx(x, y).xy),
             sig=f"pt|{m}|{sp.sig()}{tag}", safe=(m == "E" or e_safe_point(sp, x, y)))


def emit_tile(R: Run, O, gs, sp: Spec, k, modes: str):
    for m in modes:
        corr(R, f"c14 tile {m} {sp.tok()} {k[0]} {k[1]}", lambda: tile_s(gs.tile_geobox(k)),
               sig=f"tile|{m}|{sp.sig()}")


def emit_query(R: Run, O, gs, sp: Spec, q, modes: str, tag=""):
    bb = O.BoundingBox(*q, CRS)
    qs = " ".join(fs(v) for v in q)
    safe = e_safe_query(sp, q)
    for m in modes:
        corr(R, f"c14 idxb {m} {sp.tok()} {qs}", lambda: " ".join(str(int(v)) for v in gs.idx_bounds(bb)),
             sig=f"idxb|{m}|{sp.sig()}{tag}", safe=safe)
    m = modes[-1]
    corr(R, f"c14 tiles {m} {sp.tok()} {qs}",
         lambda: list_s(sorted((tuple(map(int, k)) for k, _ in ltiles(gs.tiles(bb))), key=lambda k: (k[1], k[0])), idx_s),
         sig=f"tiles|{m}{tag}", safe=safe)


def emit_poly(R: Run, O, gs, sp: Spec, pts, modes: str, tag=""):
    ptok = list_s(pts, lambda p: f"{fs(p[0])};{fs(p[1])}")

    def f():
        poly = O.geom.polygon([tuple(map(float, p)) for p in pts] + [tuple(map(float, pts[0]))], CRS)
        return list_s(sorted((tuple(map(int, k)) for k, _ in ltiles(gs.tiles_from_geopolygon(poly))),
                             key=lambda k: (k[1], k[0])), idx_s)

    for m in modes:
        corr(R, f"c14 poly {m} {sp.tok()} {ptok}", f, sig=f"poly|{m}{tag}")


def emit_roundtrip(R: Run, O, gs, sp: Spec, j, k, modes: str):
    def f():
        g2 = O.GridSpec.from_sample_tile(gs[j].extent, shape=(sp.ny, sp.nx), idx=j, flipx=sp.fx, flipy=sp.fy)
        return bb_s(g2[k].boundingbox)

    for m in modes:
        corr(R, f"c14 fstrt {m} {sp.tok()} {j[0]} {j[1]} {k[0]} {k[1]}", f, sig=f"fstrt|{m}|{sp.sig()}")


def emit_fst(R: Run, O, q, ny, nx, ix, iy, fx, fy, px, py, k, modes: str, shape_arg=None):
    def f():
        box = O.geom.box(*q, CRS)
        kw = {} if shape_arg == "default" else {"shape": (ny, nx)}
        g = O.GridSpec.from_sample_tile(box, idx=(ix, iy), flipx=fx, flipy=fy, **kw)
        return probe_s(g, px, py, k)

    for m in modes:
        corr(R, f"c14 fst {m} {' '.join(fs(v) for v in q)} {ny} {nx} {ix} {iy} {bool_s(fx)} {bool_s(fy)} "
               f"{fs(px)} {fs(py)} {k[0]} {k[1]}", f)


def e_safe_point(sp: Spec, x, y) -> bool:
    """E mode is sent only when rounding of (x-o)/sz cannot change the floor: exact quotient not within
    1e-7 of an integer, or the quotient is exactly representable (dyadic with few bits)."""
    qx = (Fraction(x) - Fraction(sp.ox)) / sp.szx
    qy = (Fraction(y) - Fraction(sp.oy)) / sp.szy

    def ok(q: Fraction) -> bool:
        d = q.denominator
        return (d & (d - 1) == 0 and abs(q.numerator).bit_length() <= 50) or not near_int(q)

    return ok(qx) and ok(qy)


def e_safe_query(sp: Spec, q) -> bool:
    """the four probe coordinates x1+tol, x2-tol, … are rounded by the code; E mode only if the exact sums
    are not within 1e-7 tiles of a tile edge (or the sums are exactly representable: tiny-scale grids)."""
    x1, y1, x2, y2 = map(Fraction, q)
    for v, o, sz in ((x1 + TOL, sp.ox, sp.szx), (x2 - TOL, sp.ox, sp.szx), (y1 + TOL, sp.oy, sp.szy), (y2 - TOL, sp.oy, sp.szy)):
        if Fraction(float(v)) == v:
            d = v - Fraction(o)
            if Fraction(float(d)) == d and Fraction(float(d / sz)) == d / sz:
                continue
        if near_int((v - Fraction(o)) / sz):
            return False
    return True


# ----------------------------------------------------------------------------- main
def run(R: Run):
    O = _import()
    rng = R.rng

    # --- spec validation: binary64 rounding of the driver vs CPython's correctly rounded Fraction→float
    for _ in range(R.pick(1500, 15000)):
        kind = rng.random()
        if kind < 0.4:
            q = Fraction(rng.randint(-10**rng.randint(1, 30), 10**rng.randint(1, 30)), rng.randint(1, 10**rng.randint(1, 30)))
        elif kind < 0.7:  # ties and near-ties at 53 bits
            m = rng.getrandbits(53) | (1 << 52)
            q = Fraction(2 * m + 1, 2) * Fraction(2) ** rng.randint(-80, 40) + rng.choice([0, 0, 1, -1]) * Fraction(1, 2**200)
            q *= rng.choice([1, -1])
        else:
            q = Fraction(rng.uniform(-1e8, 1e8)) + Fraction(rng.uniform(-1, 1)) * Fraction(1, 2**60)
        corr(R, f"c14 fl {frac_s(q)}", lambda: frac_s(float(q)), sig="spec-fl64|ok")

    # --- Bin1D directly ------------------------------------------------------------------------
    for sz in (Fraction(1), Fraction(5, 2), Fraction(3), Fraction(1, 4)):
        for o in (Fraction(0), Fraction(-7, 4), Fraction(10)):
            for d in (1, -1):
                bin1 = O.Bin1D(float(sz), float(o), d)
                for k in range(-6, 7):
                    corr(R, f"c14 item E {frac_s(sz)} {frac_s(o)} {d} {k}",
                           lambda: " ".join(fs(v) for v in bin1[k]), sig=f"item|dir{d}")
                    lo, hi = bin1[k]
                    nlo, _ = bin1[k + d]
                    R.oracle(Fraction(hi) == Fraction(nlo) and Fraction(hi) - Fraction(lo) == sz, "bins-abut",
                             {"sz": frac_s(sz), "o": frac_s(o), "d": d, "k": k}, f"bin {k} = {(lo, hi)}, bin {k + d} starts {nlo}")
                    for fr in (Fraction(0), Fraction(1, 2), Fraction(1, 1024), 1 - Fraction(1, 1024)):
                        x = float(o + (k + fr) * sz)
                        corr(R, f"c14 bin E {frac_s(sz)} {frac_s(o)} {d} {fs(x)}", lambda: str(bin1.bin(x)),
                               sig=f"bin|dir{d}|" + ("edge" if fr == 0 else "inside"))
                        kk = bin1.bin(x)
                        l2, h2 = bin1[kk]
                        R.oracle(Fraction(l2) <= Fraction(x) < Fraction(h2), "bin-mem",
                                 {"sz": frac_s(sz), "o": frac_s(o), "d": d, "x": fs(x)},
                                 f"bin({x}) = {kk} but that bin is [{l2},{h2})")
    for args in ((0.0, 0.0, 1), (-1.0, 0.0, 1), (1.0, 0.0, 0), (1.0, 0.0, 2), (1.0, 5.0, -1)):
        corr(R, f"c14 bin E {fs(args[0])} {fs(args[1])} {args[2]} 1", lambda: str(O.Bin1D(*args).bin(1.0)))
    for _ in range(R.pick(300, 3000)):
        # from_sample_bin, exact (dyadic) and arbitrary doubles
        d = rng.choice([1, -1])
        idx = rng.randint(-50, 50)
        x0 = Fraction(rng.randint(-4000, 4000), 8)
        x1 = x0 + Fraction(rng.randint(-2, 64), 4)
        corr(R, f"c14 fsb E {idx} {frac_s(x0)} {frac_s(x1)} {d}",
               lambda: (lambda b: f"{fs(b.sz)} {fs(b.origin)} {b.direction}")(O.Bin1D.from_sample_bin(idx, (float(x0), float(x1)), d)))
        y0 = rng.uniform(-1e7, 1e7)
        y1 = y0 + rng.choice([rng.uniform(0, 1e5), 100000.0, 96000.0, 1 / 3, -1.0])
        corr(R, f"c14 fsb F {idx} {fs(y0)} {fs(y1)} {d}",
               lambda: (lambda b: f"{fs(b.sz)} {fs(b.origin)} {b.direction}")(O.Bin1D.from_sample_bin(idx, (y0, y1), d)))
        if y0 < y1:
            oracle_sample_bin(R, O, idx, y0, y1, d, idx + rng.randint(-10**4, 10**4))
        if x0 < x1:
            oracle_sample_bin(R, O, idx, float(x0), float(x1), d, idx + rng.randint(-50, 50))

    # --- exact stream, exhaustive on a small lattice ----------------------------------------------
    lattice = []
    for (ny, nx) in R.pick(((2, 3),), ((2, 3), (1, 4))):
        for arx in (Fraction(1, 2), Fraction(3, 4)):
            for sx in (1, -1):
                for sy in (1, -1):
                    for fx in (False, True):
                        for fy in (False, True):
                            for (ox, oy) in ((Fraction(0), Fraction(0)), (Fraction(-3, 4), Fraction(5, 2))):
                                lattice.append(Spec(ny, nx, sx * arx, sy * arx * Fraction(1, 2), ox, oy, fx, fy))
    fr_pts = (Fraction(0), Fraction(1, 2), Fraction(1, 2**20), 1 - Fraction(1, 2**20))
    for sp in lattice:
        gs = sp.make(O)
        emit_grid(R, O, sp, "EF")
        for i in range(-3, 4):
            for fr in fr_pts:
                x = float(Fraction(sp.ox) + (i + fr) * sp.szx)
                for j in (-2, 0, 1):
                    for fr2 in (Fraction(0), Fraction(1, 4)):
                        y = float(Fraction(sp.oy) + (j + fr2) * sp.szy)
                        emit_pt(R, O, gs, sp, x, y, "EF", "|edge" if fr == 0 or fr2 == 0 else "")
                        oracle_point(R, gs, sp, x, y, True)
        for ix in range(-3, 4):
            for iy in range(-3, 4):
                emit_tile(R, O, gs, sp, (ix, iy), "EF")
                oracle_tile(R, gs, sp, (ix, iy), True)
        # queries with edges on tile edges, half-way, and ± 1e-8 / 1e-9 around tile edges (as doubles)
        ex = [Fraction(sp.ox) + Fraction(i, 2) * sp.szx for i in range(-3, 4)]
        ey = [Fraction(sp.oy) + Fraction(i, 2) * sp.szy for i in range(-2, 3)]
        offs = [0.0, 1e-8, -1e-8, 1e-9, -1e-9, 2e-8, -2e-8]
        qs = []
        for a in range(len(ex)):
            for b in range(a, len(ex)):
                qs.append((ex[a], ey[1], ex[b], ey[3]))
        for a in range(len(ey)):
            for b in range(a, len(ey)):
                qs.append((ex[2], ey[a], ex[4], ey[b]))
        for (x1, y1, x2, y2) in qs:
            o1, o2 = (0.0, 0.0) if rng.random() < 0.35 else (rng.choice(offs), rng.choice(offs))
            q = (float(x1) + o1, float(y1) + o1, float(x2) + o2, float(y2) + o2)
            thin = q[2] - q[0] < 2e-8 or q[3] - q[1] < 2e-8
            modes = "EF" if e_safe_query(sp, q) else "F"
            emit_query(R, O, gs, sp, q, modes, "|thin" if thin else ("|on-edge" if o1 == 0 and o2 == 0 else "|near-edge"))
            oracle_query(R, gs, sp, q, False, O)
        for j in ((0, 0), (-2, 3), (3, -1)):
            for k in ((0, 0), (1, -2), (-3, 2)):
                emit_roundtrip(R, O, gs, sp, j, k, "EF")
            oracle_roundtrip(R, gs, sp, j, [(0, 0), (1, -2), (-3, 2), (7, 7)], True, O)
    R.exhaustive = False

    # --- exact stream at tiny scale: the tolerance arithmetic itself is exact (coordinates are multiples
    #     of 2^-78 below 2^-26, so x ± 1e-8 needs ≤ 53 bits); tile edges ± exactly 1e-8 hit in E mode
    U = Fraction(1, 2**30)
    for _ in range(R.pick(60, 1000)):
        ny, nx = rng.randint(1, 3), rng.randint(1, 3)
        sp = Spec(ny, nx, rng.choice([1, -1]) * U * rng.choice([1, 2]), rng.choice([1, -1]) * U * rng.choice([1, 2]),
                  U * rng.randint(-4, 4), U * rng.randint(-4, 4), rng.random() < 0.5, rng.random() < 0.5)
        gs = sp.make(O)
        emit_grid(R, O, sp, "E")
        for _ in range(R.pick(6, 10)):
            def edge(o, sz):
                base = Fraction(o) + rng.randint(-3, 3) * sz + rng.choice([0, 0, Fraction(1, 2)]) * sz
                return base + rng.choice([0, 1, -1, 1, -1, 2, -2]) * TOL + rng.choice([0, 0, 0, 1, -1]) * Fraction(1, 2**78)
            x1, x2 = sorted((edge(sp.ox, sp.szx), edge(sp.ox, sp.szx)))
            y1, y2 = sorted((edge(sp.oy, sp.szy), edge(sp.oy, sp.szy)))
            q = tuple(map(float, (x1, y1, x2, y2)))
            if any(Fraction(a) != b for a, b in zip(q, (x1, y1, x2, y2))):
                continue
            modes = "EF" if e_safe_query(sp, q) else "F"
            emit_query(R, O, gs, sp, q, modes, "|tiny-scale")
            R.count("tiny-scale-E" if "E" in modes else "tiny-scale-F-only")

    # --- exact stream, random larger dyadic grids ---------------------------------------------------
    def dy(lo, hi, bits):
        return Fraction(rng.randint(lo * 2**bits, hi * 2**bits), 2**bits)

    exact_specs = []
    for _ in range(R.pick(60, 1500)):
        ny, nx = rng.choice([1, 2, 5, 10, 100, 256, 3200, 4000]), rng.choice([1, 3, 7, 10, 100, 256, 3200, 4000])
        rx = rng.choice([1, -1]) * Fraction(rng.choice([1, 3, 5, 25, 30]), 2 ** rng.randint(0, 8))
        ry = rng.choice([1, -1]) * Fraction(rng.choice([1, 3, 5, 25, 30]), 2 ** rng.randint(0, 8))
        sp = Spec(ny, nx, rx, ry, dy(-6000, 6000, 6), dy(-6000, 6000, 6), rng.random() < 0.5, rng.random() < 0.5)
        exact_specs.append(sp)
        gs = sp.make(O)
        emit_grid(R, O, sp, "EF")
        idxs = [(rng.randint(-50, 50), rng.randint(-50, 50)) for _ in range(4)] + [(0, 0)]
        for k in idxs:
            emit_tile(R, O, gs, sp, k, "EF")
            oracle_tile(R, gs, sp, k, True)
        for _ in range(6):
            i, j = rng.randint(-50, 50), rng.randint(-50, 50)
            fr, fr2 = rng.choice(fr_pts), rng.choice(fr_pts)
            x = float(Fraction(sp.ox) + (i + fr) * sp.szx)
            y = float(Fraction(sp.oy) + (j + fr2) * sp.szy)
            modes = "EF" if e_safe_point(sp, x, y) else "F"
            emit_pt(R, O, gs, sp, x, y, modes, "|edge" if fr == 0 or fr2 == 0 else "")
            oracle_point(R, gs, sp, x, y, Fraction(x) == Fraction(sp.ox) + (i + fr) * sp.szx and
                         Fraction(y) == Fraction(sp.oy) + (j + fr2) * sp.szy and "E" in modes)
        for _ in range(4):
            i, j = rng.randint(-50, 48), rng.randint(-50, 48)
            w, h = rng.choice([0, 1, 1, 2, 3]), rng.choice([0, 1, 1, 2])
            f1, f2 = rng.choice([0, 0, Fraction(1, 2)]), rng.choice([0, 0, Fraction(1, 4)])
            o1, o2 = rng.choice([0.0, 0.0, 1e-8, -1e-8, 1e-9, -1e-9]), rng.choice([0.0, 0.0, 1e-8, -1e-8, 1e-9, -1e-9])
            q = (float(Fraction(sp.ox) + (i + f1) * sp.szx) + o1, float(Fraction(sp.oy) + (j + f2) * sp.szy) + o1,
                 float(Fraction(sp.ox) + (i + w + f1) * sp.szx) + o2, float(Fraction(sp.oy) + (j + h + f2) * sp.szy) + o2)
            if q[0] > q[2] or q[1] > q[3]:
                continue
            modes = "EF" if e_safe_query(sp, q) else "F"
            emit_query(R, O, gs, sp, q, modes, "|large")
            oracle_query(R, gs, sp, q, False, O)
        j = (rng.randint(-50, 50), rng.randint(-50, 50))
        k = (rng.randint(-50, 50), rng.randint(-50, 50))
        emit_roundtrip(R, O, gs, sp, j, k, "F")
        oracle_roundtrip(R, gs, sp, j, [k, (0, 0)], False, O)

    # --- constructor error branches ---------------------------------------------------------------
    for (ny, nx, rx, ry) in ((0, 3, 1.0, -1.0), (3, 0, 1.0, -1.0), (-2, 3, 1.0, -1.0), (2, 3, 0.0, -1.0),
                             (2, 3, 1.0, 0.0), (2, -3, -1.0, 1.0)):
        sp = Spec(ny, nx, rx, ry, 0.0, 0.0, False, False)
        emit_grid(R, O, sp, "EF")
        corr(R, f"c14 pt E {sp.tok()} 1 1", lambda: idx_s(sp.make(O).pt2idx(1.0, 1.0).xy))

    # --- from_sample_tile: exact and error branches -----------------------------------------------
    for _ in range(R.pick(400, 3000)):
        l, b = dy(-500, 500, 4), dy(-500, 500, 4)
        if rng.random() < 0.8:
            w, h = Fraction(rng.randint(1, 64), 2), Fraction(rng.randint(1, 64), 2)
            ny, nx = rng.choice([1, 2, 4, 8, 16, 256]), rng.choice([1, 2, 4, 8, 16, 512])
        else:
            w, h = Fraction(rng.randint(-1, 64), 2), Fraction(rng.randint(-1, 64), 2)
            ny, nx = rng.choice([-1, 0, 1, 2, 4, 8, 16, -2]), rng.choice([-1, 0, 1, 2, 4, 8, 16])
        ix, iy = rng.randint(-50, 50), rng.randint(-50, 50)
        fx, fy = rng.random() < 0.5, rng.random() < 0.5
        q = tuple(map(float, (l, b, l + w, b + h)))
        px, py = float(l + w * Fraction(rng.randint(-40, 40), 8)), float(b + h * Fraction(rng.randint(-40, 40), 8))
        k = (rng.randint(-50, 50), rng.randint(-50, 50))
        if w <= 0 or h <= 0:
            # geom.box of an inverted/empty box: bounds are the sorted corners (model: boxBounds)
            q2 = (min(q[0], q[2]), min(q[1], q[3]), max(q[0], q[2]), max(q[1], q[3]))
            emit_fst(R, O, q2, ny, nx, ix, iy, fx, fy, px, py, k, "E")
        else:
            emit_fst(R, O, q, ny, nx, ix, iy, fx, fy, px, py, k, "EF" if ny > 0 and nx > 0 and e_safe_fst(q, ix, iy, px, py) else "F")
    emit_fst(R, O, (0.0, 0.0, 5.0, 5.0), -1, -1, 0, 0, False, False, 1.0, 1.0, (0, 0), "E", shape_arg="default")

    # --- polygon queries (convex), exact lattice + random -----------------------------------------
    for sp in rng.sample(lattice, R.pick(24, 64)):
        gs = sp.make(O)
        ex = [Fraction(sp.ox) + Fraction(i, 2) * sp.szx for i in range(-4, 5)]
        ey = [Fraction(sp.oy) + Fraction(i, 2) * sp.szy for i in range(-4, 5)]
        for _ in range(R.pick(6, 12)):
            n = rng.choice([3, 3, 4])
            pts = convex_pts(rng, [(float(rng.choice(ex)), float(rng.choice(ey))) for _ in range(n)])
            if pts is None:
                continue
            emit_poly(R, O, gs, sp, pts, "EF", "|lattice")
            oracle_polygon(R, gs, sp, pts, True, O)

    # --- query geometries of every kind the API accepts (multi-part with far-apart parts in one row / column /
    #     diagonal, points, lines, collections, holes swallowing whole tiles, concave shapes): oracle only
    for sp in rng.sample(lattice, R.pick(40, 64)):
        geom_queries(R, O, sp.make(O), sp, rng, True, True, rng.sample(GEOM_KINDS, R.pick(8, len(GEOM_KINDS))))
    for sp in rng.sample(exact_specs, min(len(exact_specs), R.pick(30, 300))):
        geom_queries(R, O, sp.make(O), sp, rng, False, False, rng.sample(GEOM_KINDS, R.pick(5, 10)))
    # fine detail crossing a tile boundary (shallow bulges, gentle arcs, spikes, slivers): every kind on every selected grid
    for sp in rng.sample(lattice, R.pick(12, 64)):
        geom_queries(R, O, sp.make(O), sp, rng, True, True, FINE_KINDS)
    for sp in rng.sample(exact_specs, min(len(exact_specs), R.pick(8, 100))):
        geom_queries(R, O, sp.make(O), sp, rng, False, False, FINE_KINDS)

    # --- histories: ONE caller-supplied geobox_cache shared by a sequence of different bbox / polygon queries
    #     (state carried across calls); every step is compared with the stateless query and the shapely oracle
    for sp in rng.sample(lattice, R.pick(32, 64)):
        gs = sp.make(O)
        for _ in range(R.pick(3, 8)):
            emit_history(R, O, gs, sp, gen_history(rng, sp, True), "EF", True)
    for sp in rng.sample(exact_specs, min(len(exact_specs), R.pick(20, 200))):
        emit_history(R, O, sp.make(O), sp, gen_history(rng, sp, False), "F", False)

    # --- sizes in the windows of the library's snapping helpers (k ± δ, 1/(k ± δ)): the tile size itself,
    #     from_sample_bin and from_sample_tile with indices far from the sample, two-sided exact oracles
    for _ in range(R.pick(250, 2500)):
        vx, vy = near_value(rng), near_value(rng)
        n_y, n_x = rng.choice([1, 4, 100, 120, 400, 4000]), rng.choice([1, 4, 100, 120, 400, 4000])
        fx, fy = rng.random() < 0.5, rng.random() < 0.5
        x0 = rng.choice([0.0, 0.0, 10.0, -180.0, 399960.0, rng.uniform(-1e3, 1e3)])
        y0 = rng.choice([0.0, 0.0, -90.0, 20.0, rng.uniform(-1e3, 1e3)])
        far = lambda: rng.choice([1, -1]) * rng.choice([1, 7, 60, 1000, 10**4])
        # (i) a grid whose tile size shape*|res| is such a value
        sp = Spec(n_y, n_x, rng.choice([1, -1]) * vx / n_x, rng.choice([1, -1]) * vy / n_y, x0, y0, fx, fy)
        gs = sp.make(O)
        emit_grid(R, O, sp, "F")
        k = (far(), far())
        emit_tile(R, O, gs, sp, k, "F")
        oracle_tile(R, gs, sp, k, False)
        j = rng.choice([(0, 0), (rng.randint(-3, 3), rng.randint(-3, 3)), (far(), far())])
        emit_roundtrip(R, O, gs, sp, j, k, "F")
        oracle_roundtrip(R, gs, sp, j, [k, j, (0, 0)], False, O)
        bbk = gs[k].boundingbox
        px, py = bbk.left + rng.random() * float(sp.szx), bbk.bottom + rng.random() * float(sp.szy)
        emit_pt(R, O, gs, sp, px, py, "F", "|near-int-size")
        oracle_point(R, gs, sp, px, py, False)
        # (ii) from_sample_bin with that size, sample index far from the probed bin
        idx, d = rng.choice([0, 1, far()]), rng.choice([1, -1])
        x1 = x0 + vx
        if x0 < x1:
            corr(R, f"c14 fsb F {idx} {fs(x0)} {fs(x1)} {d}",
                 lambda: (lambda b: f"{fs(b.sz)} {fs(b.origin)} {b.direction}")(O.Bin1D.from_sample_bin(idx, (x0, x1), d)),
                 sig="fsb|F|near-int-size")
            oracle_sample_bin(R, O, idx, x0, x1, d, idx + far())
        # (iii) from_sample_tile with such a box
        q = (x0, y0, x0 + vx, y0 + vy)
        if q[0] < q[2] and q[1] < q[3]:
            ix, iy = rng.choice([0, far()]), rng.choice([0, far()])
            k2 = (ix + far(), iy + far())
            emit_fst(R, O, q, n_y, n_x, ix, iy, fx, fy, px, py, k2, "F")
            oracle_sample_tile(R, O, q, n_y, n_x, ix, iy, fx, fy, k2)

    # --- float stream: realistic doubles, F mode bit-exact + property oracles -----------------------
    presets = [
        ((4000, 4000), (25.0, -25.0), (0.0, 0.0)),              # Australian Albers 100 km tiles
        ((3200, 3200), (30.0, -30.0), (-4416000.0, -6912000.0)),  # DEA collection 3
        ((3200, 3200), (30.0, -30.0), (-5472000.0, -4992000.0)),
        ((10000, 10000), (10.0, -10.0), (-5472000.0, 0.0)),
        ((5000, 5000), (20.0, -20.0), (399960.0, 9000040.0)),     # UTM-like
        ((4000, 4000), (0.00025, -0.00025), (-180.0, -90.0)),     # 1 degree tiles
        ((3600, 3600), (1 / 3600, -1 / 3600), (0.0, 0.0)),
        ((3333, 3334), (1 / 3, -1 / 3), (-1234.5678, 8765.4321)),
        ((256, 256), (305.748113140705, -305.748113140705), (-20037508.342789244, -20037508.342789244)),
    ]
    for _ in range(R.pick(90, 2500)):
        (ny, nx), (rx, ry), (ox, oy) = rng.choice(presets)
        if rng.random() < 0.3:
            rx, ry = rng.choice([10, 15, 30, 0.1, 1 / 7, 60.0]) * rng.choice([1, -1]), rng.uniform(0.001, 50) * rng.choice([1, -1])
            ox, oy = rng.uniform(-6e6, 6e6), rng.uniform(-6e6, 6e6)
        rx *= rng.choice([1, 1, -1])
        ry *= rng.choice([1, 1, -1])
        sp = Spec(ny, nx, rx, ry, ox, oy, rng.random() < 0.4, rng.random() < 0.4)
        gs = sp.make(O)
        emit_grid(R, O, sp, "F")
        tsx, tsy = float(sp.szx), float(sp.szy)
        for n5 in range(5):
            k = (rng.randint(-50, 50), rng.randint(-50, 50))
            if n5 == 4:     # far away: |index| x tile size in pixels beyond 2^31 / 2^32 / 2^33
                far_i = lambda npx: rng.choice([1, -1]) * (rng.choice([2**31, 2**32, 2**33]) // npx + rng.randint(0, 1000))
                k = (far_i(sp.nx), far_i(sp.ny))
            emit_tile(R, O, gs, sp, k, "F")
            oracle_tile(R, gs, sp, k, False)
            # points on / next to the edges of that tile as the code reports them, and inside
            bb = gs[k].boundingbox
            for x, y in ((bb.left, bb.bottom), (bb.right, bb.top), (math.nextafter(bb.right, -math.inf), math.nextafter(bb.top, math.inf)),
                         (bb.left + rng.random() * tsx, bb.bottom + rng.random() * tsy)):
                emit_pt(R, O, gs, sp, x, y, "F", "|float")
                oracle_point(R, gs, sp, x, y, False)
        for _ in range(5):
            i, j = rng.randint(-50, 48), rng.randint(-50, 48)
            bb = gs[i, j].boundingbox
            kind = rng.random()
            if kind < 0.35:    # exactly a tile / a block of tiles (edges as the code reports them)
                b2 = gs[i + rng.choice([0, 1, 2]) * (-1 if sp.fx else 1), j + rng.choice([0, 1]) * (-1 if sp.fy else 1)].boundingbox
                q = (bb.left, bb.bottom, b2.right, b2.top)
            elif kind < 0.7:   # edges ± 1e-8 / 1e-9 / a few ulps
                d = lambda: rng.choice([1e-8, -1e-8, 1e-9, -1e-9, 3e-8, -3e-8, 0.0])
                q = (bb.left + d(), bb.bottom + d(), bb.right + d(), bb.top + d())
            elif kind < 0.85:  # thin / point queries
                x, y = bb.left + rng.choice([0.0, 0.5, 1.0]) * tsx + rng.choice([0.0, 5e-9, -5e-9]), bb.bottom + rng.random() * tsy
                q = (x, y, x + rng.choice([0.0, 1e-8, 1.5e-8]), y + rng.choice([0.0, tsy / 2]))
            else:
                x, y = bb.left + rng.uniform(-1, 1) * tsx, bb.bottom + rng.uniform(-1, 1) * tsy
                q = (x, y, x + rng.uniform(0, 3) * tsx, y + rng.uniform(0, 2) * tsy)
            if q[0] > q[2] or q[1] > q[3]:
                continue
            emit_query(R, O, gs, sp, q, "F", "|float")
            oracle_query(R, gs, sp, q, False, O)
        j = (rng.randint(-50, 50), rng.randint(-50, 50))
        k = (rng.randint(-50, 50), rng.randint(-50, 50))
        emit_roundtrip(R, O, gs, sp, j, k, "F")
        oracle_roundtrip(R, gs, sp, j, [k, j, (0, 0)], False, O)
        # random convex polygon (triangle / quad) over a few tiles
        bb = gs[rng.randint(-20, 20), rng.randint(-20, 20)].boundingbox
        pts = convex_pts(rng, [(bb.left + rng.uniform(-1.5, 2.5) * tsx, bb.bottom + rng.uniform(-1.5, 2.5) * tsy)
                               for _ in range(rng.choice([3, 4]))])
        if pts is not None:
            emit_poly(R, O, gs, sp, pts, "F", "|float")
            oracle_polygon(R, gs, sp, pts, False, O)
        if rng.random() < 0.5:
            emit_history(R, O, gs, sp, gen_history(rng, sp, False), "F", False)
        geom_queries(R, O, gs, sp, rng, False, False, rng.sample(GEOM_KINDS, 3) + [rng.choice(FINE_KINDS)])
        jb = gs[j].boundingbox
        oracle_sample_tile(R, O, tuple(jb), sp.ny, sp.nx, j[0], j[1], sp.fx, sp.fy, k)

    # geometries given in another CRS (reprojected by the library first): shapely on the reprojected geometry
    import shapely.geometry as sg
    for _ in range(R.pick(6, 40)):
        lon, lat = rng.uniform(115, 148), rng.uniform(-40, -12)
        ring = [(lon, lat), (lon + rng.uniform(0.5, 3), lat), (lon + 1, lat + rng.uniform(0.5, 3)), (lon, lat)]
        ok, what = other_crs_case(O, ring)
        R.oracle(ok, "polygon-query-other-crs", {"op": "poly4326", "ring": [list(p) for p in ring]}, what,
                 sig="poly|other-crs")
        d = rng.uniform(3, 8)
        sb = lambda x, y: sg.box(x, y, x + rng.uniform(0.05, 0.3), y + rng.uniform(0.05, 0.3))
        shapes = [sg.MultiPolygon([sb(lon, lat), sb(lon + d, lat)]), sg.MultiPolygon([sb(lon, lat), sb(lon, lat + d / 2)]),
                  sg.MultiPoint([(lon, lat), (lon + d, lat + rng.uniform(-1, 1))]), sg.Point(lon, lat),
                  sg.LineString([(lon, lat), (lon + d, lat + 1)]),
                  sg.MultiLineString([[(lon, lat), (lon + 0.2, lat + 0.1)], [(lon + d, lat), (lon + d + 0.2, lat - 0.1)]]),
                  sg.GeometryCollection([sb(lon, lat), sg.Point(lon + d, lat), sg.LineString([(lon, lat + 3), (lon + 0.3, lat + 3.2)])]),
                  sg.Polygon([(lon, lat), (lon + 4, lat), (lon + 4, lat + 4), (lon, lat + 4)],
                             [[(lon + 0.5, lat + 0.5), (lon + 0.5, lat + 3.5), (lon + 3.5, lat + 3.5), (lon + 3.5, lat + 0.5)]])]
        for shp in rng.sample(shapes, R.pick(3, len(shapes))):
            ok, what = other_crs_geom(O, shp)
            R.oracle(ok, "polygon-query-other-crs", {"op": "geom4326", "wkb": shp.wkb_hex, "wkt": shp.wkt[:300]}, what,
                     sig="geom|other-crs|" + shp.geom_type)

    # --- growth round: __eq__, alignment, geojson index walk, multi-part geometries, degenerate boxes (exact stream)
    import shapely.geometry as sg3
    lat_sel = rng.sample(lattice, R.pick(24, 64))
    for sp in lat_sel:
        gs = sp.make(O)
        # __eq__: against itself rebuilt, sign-flipped resolutions, other flips / origin / shape, other CRS
        variants = [Spec(sp.ny, sp.nx, sp.rx, sp.ry, sp.ox, sp.oy, sp.fx, sp.fy), Spec(sp.ny, sp.nx, -sp.rx, sp.ry, sp.ox, sp.oy, sp.fx, sp.fy),
                    Spec(sp.ny, sp.nx, sp.rx, -sp.ry, sp.ox, sp.oy, sp.fx, sp.fy), Spec(sp.ny, sp.nx, sp.rx, sp.ry, sp.ox, sp.oy, not sp.fx, sp.fy),
                    Spec(sp.ny, sp.nx, sp.rx, sp.ry, sp.ox + 0.25, sp.oy, sp.fx, sp.fy), Spec(sp.nx, sp.ny, sp.rx, sp.ry, sp.ox, sp.oy, sp.fx, sp.fy),
                    Spec(sp.ny, sp.nx * 2, sp.rx / 2, sp.ry, sp.ox, sp.oy, sp.fx, sp.fy), rng.choice(lattice)]
        for v in variants:
            gv = v.make(O)
            out = corr(R, f"c14 eq E {sp.tok()} {v.tok()} T", lambda: bool_s(gs == gv), sig="eq|same-crs")
            same_tiling = (tuple(gs.tile_shape) == tuple(gv.tile_shape)
                           and all(fbb(gs[k].boundingbox) == fbb(gv[k].boundingbox) for k in ((0, 0), (1, 1), (-2, 3))))
            R.oracle((out == "T") == same_tiling, "gridspec-eq-is-not-same-tiling", {"op": "eq", "a": sp.tok(), "b": v.tok()},
                     f"gs1 == gs2 is {out} but same shape and same tile footprints is {same_tiling}", sig="eq|tiling")
        g_other = O.GridSpec("epsg:32755", (sp.ny, sp.nx), O.resxy_(sp.rx, sp.ry), origin=O.xy_(sp.ox, sp.oy), flipx=sp.fx, flipy=sp.fy)
        corr(R, f"c14 eq E {sp.tok()} {sp.tok()} F", lambda: bool_s(gs == g_other), sig="eq|other-crs")
        # alignment
        corr(R, f"c14 align E {sp.tok()}", lambda: (lambda a: f"{fs(a.x)} {fs(a.y)}")(gs.alignment), sig="align|E")
        corr(R, f"c14 align F {sp.tok()}", lambda: (lambda a: f"{fs(a.x)} {fs(a.y)}")(gs.alignment), sig="align|F")
        # geojson index walk + degenerate boxes + multi-part geometries in tile units
        dx, dy = (-1 if sp.fx else 1), (-1 if sp.fy else 1)
        i0, j0 = rng.randint(-2, 2), rng.randint(-2, 2)
        X = lambda a: float(Fraction(sp.ox) + (dx * i0 + Fraction(a)) * sp.szx)
        Y = lambda b: float(Fraction(sp.oy) + (dy * j0 + Fraction(b)) * sp.szy)
        idxs_of = lambda fc: list_s([tuple(int(v) for v in f["properties"]["idx"].split(",")) for f in fc["features"]], idx_s)
        qb = (X(Fraction(1, 4)), Y(Fraction(1, 4)), X(Fraction(9, 4)), Y(Fraction(5, 4)))
        tri = convex_pts(rng, [(X(Fraction(1, 4)), Y(Fraction(1, 4))), (X(Fraction(11, 4)), Y(Fraction(1, 2))), (X(Fraction(1, 2)), Y(Fraction(9, 4)))])
        ptok = list_s(tri, lambda p: f"{fs(p[0])};{fs(p[1])}")
        bbq = O.BoundingBox(*qb, CRS)
        pq = mk_poly(O, tri)
        for m in "EF":
            corr(R, f"c14 gj {m} {sp.tok()} B {' '.join(fs(v) for v in qb)}", lambda: idxs_of(gs.geojson(bbox=bbq)), sig="geojson|bbox")
            corr(R, f"c14 gj {m} {sp.tok()} P {ptok}", lambda: idxs_of(gs.geojson(geopolygon=pq)), sig="geojson|poly")
            corr(R, f"c14 gj {m} {sp.tok()} PB {ptok} {' '.join(fs(v) for v in qb)}", lambda: idxs_of(gs.geojson(bbox=bbq, geopolygon=pq)),
                 sig="geojson|both")
        for q in ((X(Fraction(1, 4)), Y(Fraction(1, 4)), X(Fraction(1, 4)), Y(Fraction(9, 4))),      # zero width inside a tile column
                  (X(Fraction(1, 4)), Y(Fraction(1, 2)), X(Fraction(13, 4)), Y(Fraction(1, 2))),     # zero height inside a tile row
                  (X(Fraction(3, 4)), Y(Fraction(3, 4)), X(Fraction(3, 4)), Y(Fraction(3, 4))),      # a point inside a tile
                  (X(1), Y(Fraction(1, 4)), X(1), Y(Fraction(5, 4)))):                                # zero width ON a tile edge
            emit_query(R, O, gs, sp, q, "EF" if e_safe_query(sp, q) else "F", "|degenerate")
            oracle_query(R, gs, sp, q, False, O)
            got = guarded_obj(lambda: {tuple(map(int, k)) for k, _ in ltiles(gs.tiles(O.BoundingBox(*q, CRS)))})
            ctr = tuple(map(int, gs.pt2idx((q[0] + q[2]) / 2, (q[1] + q[3]) / 2).xy))
            R.oracle(got is not None and ctr in got, "bbox-query-misses-centre-tile", {"op": "tiles", "grid": sp.tok(), "bbox": [fs(v) for v in q]},
                     f"degenerate query {q}: the tile {ctr} containing its centre is not returned ({sorted(got or [])[:6]})", sig="query|centre")
        # multi-part: convex parts (boxes / triangles) in separate tiles of one row / column / diagonal / scattered
        for arr in ("row", "col", "diag", "near"):
            gap = rng.choice([2, 3])
            cells = {"row": [(0, 0), (gap, 0), (2 * gap, 0)], "col": [(0, 0), (0, gap)], "diag": [(0, 0), (gap, gap)],
                     "near": [(0, 0), (1, 0), (1, 1)]}[arr]
            rings = []
            for (ci, cj) in cells:
                a, b = sorted(rng.sample([Fraction(n, 8) for n in range(1, 8)], 2))
                c, d = sorted(rng.sample([Fraction(n, 8) for n in range(1, 8)], 2))
                if rng.random() < 0.5:
                    ring = [(X(ci + a), Y(cj + c)), (X(ci + b), Y(cj + c)), (X(ci + b), Y(cj + d)), (X(ci + a), Y(cj + d))]
                else:
                    ring = [(X(ci + a), Y(cj + c)), (X(ci + b), Y(cj + c)), (X(ci + a), Y(cj + d))]
                rings.append(convex_pts(rng, ring))
            rng.shuffle(rings)
            mp = sg3.MultiPolygon([sg3.Polygon(r) for r in rings])
            tokp = "|".join(list_s(r, lambda p: f"{fs(p[0])};{fs(p[1])}") for r in rings)
            for m in "EF":
                corr(R, f"c14 mpoly {m} {sp.tok()} {tokp}",
                     lambda: list_s(sorted((tuple(map(int, k)) for k, _ in ltiles(gs.tiles_from_geopolygon(O.geom.Geometry(mp, CRS)))), key=key_yx), idx_s),
                     sig=f"mpoly|{m}|{arr}")
            oracle_geom(R, gs, sp, mp, True, O, kind="mpoly-" + arr)
    spx = lattice[0]
    corr(R, f"c14 mpoly E {spx.tok()} -",
         lambda: list_s([tuple(map(int, k)) for k, _ in ltiles(spx.make(O).tiles_from_geopolygon(O.geom.Geometry(sg3.MultiPolygon([]), CRS)))], idx_s),
         sig="mpoly|empty")
    # alignment on realistic doubles: F-mode line + exact oracle (0 <= a < |res| and origin - a is a multiple of |res|)
    for _ in range(R.pick(60, 600)):
        (ny_, nx_), (rx_, ry_), (ox_, oy_) = rng.choice(presets)
        if rng.random() < 0.5:
            ox_, oy_ = rng.uniform(-6e6, 6e6), rng.uniform(-6e6, 6e6)
        spf = Spec(ny_, nx_, rx_ * rng.choice([1, -1]), ry_ * rng.choice([1, -1]), ox_, oy_, False, False)
        gsf = spf.make(O)
        corr(R, f"c14 align F {spf.tok()}", lambda: (lambda a: f"{fs(a.x)} {fs(a.y)}")(gsf.alignment), sig="align|F|float")
        al = guarded_obj(lambda: gsf.alignment)
        ok = al is not None
        if ok:
            for a, o, r in ((al.x, spf.ox, spf.rx), (al.y, spf.oy, spf.ry)):
                ar = abs(Fraction(r))
                nq = (Fraction(o) - Fraction(a)) / ar
                ok = ok and 0 <= Fraction(a) <= ar and abs(nq - round(nq)) <= Fraction(1, 10**6)
        R.oracle(ok, "alignment-not-pixel-offset", {"op": "align", "grid": spf.tok()}, f"alignment {al} for origin {(spf.ox, spf.oy)} resolution {(spf.rx, spf.ry)}",
                 sig="align|oracle")
    # the proved observation gridspec_eq_ignores_resolution_sign, replayed on the real code
    ga = O.GridSpec(CRS, (10, 10), O.resxy_(0.5, -0.5))
    gb_ = O.GridSpec(CRS, (10, 10), O.resxy_(-0.5, -0.5))
    R.notes.append(f"GridSpec.__eq__ ignores the sign of the resolution (theorem gridspec_eq_ignores_resolution_sign): "
                   f"GridSpec((10,10),(0.5,-0.5)) == GridSpec((10,10),(-0.5,-0.5)) is {ga == gb_} while their tiles [0,0] compare {ga[0, 0] == gb_[0, 0]}")

    # --- the CRS guard of idx_bounds / tiles: a bounding box in a foreign CRS is rejected today (corr stream)
    for sp in rng.sample(lattice, 6):
        gs = sp.make(O)
        for crs_b, same in (("epsg:4326", False), ("epsg:3857", False), (CRS, True), ("EPSG:3577", True)):
            q = (float(Fraction(sp.ox) - sp.szx / 2), float(Fraction(sp.oy) + sp.szy / 4), float(Fraction(sp.ox) + 2 * sp.szx), float(Fraction(sp.oy) + sp.szy))
            bbq = O.BoundingBox(*q, crs_b)
            corr(R, f"c14 idxbc E {sp.tok()} {bool_s(same)} {' '.join(fs(v) for v in q)}",
                 lambda: guarded(lambda: " ".join(str(int(v)) for v in gs.idx_bounds(bbq))) + " "
                 + guarded(lambda: list_s([tuple(map(int, k)) for k, _ in ltiles(gs.tiles(bbq))], idx_s)), sig=f"idxbc|same-crs={same}")

    # --- continental-size geometries in EPSG:4326 against projected grids (curved edges, vertex on the bulging side)
    big_grids = [("epsg:3577", (4000, 4000), 25.0), ("epsg:3577", (2000, 2500), 30.0), ("epsg:32755", (10000, 10000), 10.0),
                 ("epsg:3857", (4000, 4000), 50.0)]
    curved: List[str] = []
    import shapely.geometry as sg2
    fixed_big = [sg2.Polygon([(118.0, -34.0), (146.0, -34.0), (132.0, -24.6)]), sg2.Polygon([(115.0, -20.0), (150.0, -20.0), (132.5, -36.0)])]
    for n in range(R.pick(7, 40)):
        shp = fixed_big[n] if n < len(fixed_big) else gen_big_shape(rng)
        gd = big_grids[0] if n < len(fixed_big) else rng.choice(big_grids)
        miss = oracle_big_crs(R, O, gd, shp)
        if miss:
            worst = max(miss, key=lambda m: m[1])
            curved.append(f"{gd[0]} {shp.wkt[:90]}: {len(miss)} tiles overlapping the densified geometry are not returned, worst {worst[0]} by {worst[1] / 1e6:.0f} km^2")
            R.count("bigcrs|curved-edge-tiles-missed", len(miss))
            if R.match_known("polygon-query-other-crs-curved-edges") is not None:
                R.oracle(False, "polygon-query-other-crs-curved-edges", {"op": "bigcrs", "crs": gd[0], "shape": list(gd[1]), "res": gd[2],
                                                                         "wkb": shp.wkb_hex, "wkt": shp.wkt[:300], "strict": True}, curved[-1])
    if curved:
        R.notes.append("tiles_from_geopolygon reprojects the query's VERTICES only (to_crs without resolution): edges that are straight in "
                       "lon/lat are replaced by chords in the grid CRS; for continental polygons tiles overlapping the true geometry are "
                       "missed, e.g. " + curved[0])

    # --- values survive pickle / copy.copy / copy.deepcopy / another interpreter with behavioural equality:
    #     whole constructor matrix (4 resolution signs x 4 flips, origins), web_tiles, from_sample_tile, float grids
    recipes = [["spec", sp.tok()] for sp in lattice if sp.ox != 0 and abs(Fraction(sp.rx)) == Fraction(1, 2)]
    recipes += [["web", z, npix] for z, npix in ((0, 256), (3, 256), (7, 512), (12, 100))]
    for _ in range(R.pick(6, 30)):
        l, b = rng.uniform(-1e6, 1e6), rng.uniform(-1e6, 1e6)
        recipes.append(["fst", [fs(l), fs(b), fs(l + rng.choice([1.0, 96000.0, 1 / 3])), fs(b + rng.choice([0.25, 100000.0]))], CRS,
                        [rng.choice([10, 3200]), rng.choice([7, 4000])], [rng.randint(-20, 20), rng.randint(-20, 20)],
                        rng.random() < 0.6, rng.random() < 0.6])
    for _ in range(R.pick(8, 40)):
        (ny, nx), (rx, ry), (ox, oy) = rng.choice(presets)
        recipes.append(["spec", Spec(ny, nx, rx * rng.choice([1, -1]), ry * rng.choice([1, -1]), ox, oy, rng.random() < 0.6, rng.random() < 0.6).tok()])
    items = [value_item(O, rec) for rec in recipes]
    restored = roundtrip_values(R, O, items, cross_process=True)
    for rec, how, g2 in restored:      # the restored objects also go through the model correspondence
        if rec[0] == "spec" and how in ("copy.copy", "pickle-2", "copy.deepcopy") and rng.random() < 0.5:
            sp2 = Spec.from_tok(rec[1].split(" "))
            emit_tile(R, O, g2, sp2, (2, -3), "F")
            emit_pt(R, O, g2, sp2, float(Fraction(sp2.ox) - sp2.szx * Fraction(5, 4)), float(Fraction(sp2.oy) + sp2.szy * Fraction(9, 4)), "F", "|restored")
    for sz, o, d in ((2.5, -1.75, -1), (100000.0, -5472000.0, 1), (1 / 3, 0.1, -1)):
        import copy as _copy
        import pickle as _pickle
        b0 = O.Bin1D(sz, o, d)
        for how, b1 in (("copy", _copy.copy(b0)), ("deepcopy", _copy.deepcopy(b0)), ("pickle", guarded_obj(lambda: _pickle.loads(_pickle.dumps(b0))))):
            ok = b1 is not None and b1 == b0 and b1[-7] == b0[-7] and b1.bin(o - 3.3 * sz) == b0.bin(o - 3.3 * sz)
            R.oracle(ok, "value-roundtrip", {"op": "valuert-bin", "sz": fs(sz), "o": fs(o), "d": d, "how": how},
                     f"Bin1D({sz},{o},{d}) through {how}: {b1!r}", sig="valuert|bin1d")

    # --- one GridSpec shared by many threads (time-boxed stress with injected yield points; see thread_stress)
    t_budget = R.pick(1.2, 6.0)
    for n, spx in enumerate([Spec(10, 10, 0.5, -0.5, 0.0, 0.0, False, False), Spec(3, 2, -0.75, 0.25, -0.75, 2.5, True, True)]
                            + [rng.choice(lattice) for _ in range(R.pick(1, 3))]):
        thread_stress(R, O, spx, t_budget, R.seed * 10 + n)
    R.assumptions.append("shared-instance thread safety is SAMPLED by a time-boxed stress (setswitchinterval 1e-6 + yield points injected "
                         "into gridspec.Affine/GeoBox), not proved; the model is a pure function of its arguments")

    # --- web tiles ------------------------------------------------------------------------------------
    # (a) the real constant: F mode must reproduce every rounding of pi*R*(2**(1-z)), y - tsz, …
    hz: List[str] = []
    for z in list(range(0, 25)) + R.pick([26, 30], [25, 26, 27, 28, 29, 30, -1, -3]):
        n = 2**z if z >= 0 else 1
        for npix in (256,) + ((512, 100) if z % 6 == 0 else ()):
            ks = [(0, 0), (n - 1, n - 1), (n // 2, n // 3), (rng.randint(0, max(0, n - 1)), rng.randint(0, max(0, n - 1))), (-1, n)]
            for k in ks[: R.pick(3, 5)]:
                px, py = rng.uniform(-P_WEB, P_WEB), rng.uniform(-P_WEB, P_WEB)
                corr(R, f"c14 web F {fs(P_WEB)} {z} {npix} {fs(px)} {fs(py)} {k[0]} {k[1]}",
                       lambda: probe_s(O.GridSpec.web_tiles(z, npix), px, py, k), sig="web|F|real-pi")
            if 0 <= z <= 24:
                oracle_web(R, O, z, npix, ks[:4])
            elif z > 24:
                # beyond the design's zoom range the rounding of `y - tsz` (a difference of two numbers of size
                # 2e7 that is then multiplied by up to 2^z) exceeds the 1e-9 slack: noted, and only reported as
                # an oracle failure when the integrator has registered it as a known finding
                C2 = Collector()
                oracle_web(C2, O, z, npix, ks[:2])
                if C2.fail:
                    R.count("web|high-zoom-rounding-exceeds-slack")
                    hz.append(f"z={z}: {C2.fail['what']}")
                    if R.match_known("web-tiles-high-zoom-rounding") is not None:
                        R.oracle(False, "web-tiles-high-zoom-rounding", C2.fail["case"], C2.fail["what"])
    corr(R, f"c14 web F {fs(P_WEB)} 3 -1 0 0 0 0", lambda: probe_s(O.GridSpec.web_tiles(3, -1), 0.0, 0.0, (0, 0)))
    corr(R, f"c14 web F {fs(P_WEB)} 3 0 0 0 0 0", lambda: probe_s(O.GridSpec.web_tiles(3, 0), 0.0, 0.0, (0, 0)))
    # (b) exact stream: math.pi substituted by a short dyadic so that every operation is exact (E mode)
    # (defensive: the substitution goes through the module attribute `gridspec.math`; if an odc-geo spells its import differently
    #  the substitution has no effect — detected by probing zoom 0 — and this exact stream is skipped with a note)
    real_math = getattr(O.gridspec, "math", None)
    try:
        for pi_sub in ((3.140625, 3.0, 3.25) if real_math is not None and hasattr(real_math, "pi") else ()):
            fake = types.SimpleNamespace(**{k: getattr(real_math, k) for k in dir(real_math) if not k.startswith("__")})
            fake.pi = pi_sub
            O.gridspec.math = fake
            Pq = pi_sub * 6378137
            assert Fraction(Pq) == Fraction(pi_sub) * 6378137
            probe0 = guarded_obj(lambda: O.GridSpec.web_tiles(0).tile_size.x)
            if probe0 is None or Fraction(probe0) != 2 * Fraction(Pq):
                R.count("web|E|dyadic-pi-substitution-ineffective")
                R.notes.append("web_tiles exact stream skipped: substituting gridspec.math.pi has no effect on this odc-geo "
                               "(the binary64 stream with the real pi and the slippy-map oracle still ran)")
                break
            pbits = Fraction(Pq).numerator.bit_length()
            for z in range(0, 25):
                if pbits + z > 50:
                    continue  # idx*sz / P - tsz would need more than 53 bits: not on the exact stream
                n = 2**z
                for k in ((0, 0), (n - 1, n - 1), (rng.randint(0, n - 1), rng.randint(0, n - 1))):
                    px = float(Fraction(-Pq) + Fraction(2 * Pq) * Fraction(rng.randint(0, 64), 64))
                    py = float(Fraction(-Pq) + Fraction(2 * Pq) * Fraction(rng.randint(0, 64), 64))
                    corr(R, f"c14 web E {fs(Pq)} {z} 256 {fs(px)} {fs(py)} {k[0]} {k[1]}",
                           lambda: probe_s(O.GridSpec.web_tiles(z), px, py, k), sig="web|E|dyadic-pi")
    finally:
        if real_math is not None:
            O.gridspec.math = real_math

    # --- the proved corner: thin query widened (idx_bounds_exact_thin_cex), replayed on the real code
    sp = Spec(10, 10, 0.5, -0.5, 0.0, 0.0, False, False)
    gs = sp.make(O)
    qthin = (5 + 2.0**-28, 1.0, 5 + 2.0**-28, 2.0)
    out = corr(R, f"c14 idxb E {sp.tok()} {' '.join(fs(v) for v in qthin)}",
                 lambda: " ".join(str(int(v)) for v in gs.idx_bounds(O.BoundingBox(*qthin, CRS))), sig="idxb|thin-cex")
    key = "bbox-query-thin-query-widened"
    widened = out == "0 0 2 1"
    R.notes.append(f"thin-query corner (theorem idx_bounds_exact_thin_cex): idx_bounds of the zero-width query x=5+2^-28 "
                   f"on the 5x5 grid returned '{out}' (tile (0,0) is 3.7e-9 away and does not touch the query)")
    if R.match_known(key) is not None:
        R.oracle(not widened, key, {"grid": sp.tok(), "bbox": [fs(v) for v in qthin]},
                 "idx_bounds returns tile (0,0) for a zero-width query that lies 3.7e-9 outside it")
    R.extra["web_tiles_max_deviation_m_zoom_0_24"] = getattr(R, "sample_dev", None)
    if hz:
        R.notes.append("web_tiles beyond zoom 24 (outside DESIGN's range; float rounding only): " + hz[-1])

    # --- growth round 2: public entry points from their RAW arguments, IEEE specials, lazy generators, geojson()
    import sys as _sys
    import time as _time
    _t0 = _time.time()
    c14_args.run_args(R, O, _sys.modules[__name__], lattice, presets)
    R.extra["raw_argument_part_seconds"] = round(_time.time() - _t0, 1)

    R.assumptions.append("shapely/GEOS `disjoint`/`intersects` is the reference for the polygon filter "
                         "(Spec/ConvexDisjoint is validated against it on every run)")
    R.assumptions.append("model fl64 = IEEE-754 binary64 RNE, validated against CPython Fraction->float each run")
    R.searchers.append(search)
    flush_fbuf(R)


def other_crs_case(O, ring):
    """EPSG:4326 triangle queried against the Australian Albers grid; reference = shapely on the polygon as
    reprojected by the library itself"""
    import shapely.geometry as sg

    try:
        gsa = O.GridSpec("epsg:3577", (4000, 4000), 25.0)
        p = O.geom.polygon([tuple(map(float, q)) for q in ring], "epsg:4326")
        got = sorted(tuple(map(int, k)) for k, _ in ltiles(gsa.tiles_from_geopolygon(p)))
        pp = p.to_crs("epsg:3577", check_and_fix=True)
        ref = sorted(tuple(map(int, k)) for k, gb in ltiles(gsa.tiles(pp.boundingbox)) if pp.geom.intersects(sg.box(*gb.boundingbox)))
        return got == ref and len(got) > 0, f"tiles_from_geopolygon {got[:8]} vs shapely reference {ref[:8]}"
    except Exception as e:  # pylint: disable=broad-except
        return False, repr(e)


def guarded_obj(fn):
    try:
        return fn()
    except Exception:  # pylint: disable=broad-except
        return None


def e_safe_fst(q, ix, iy, px, py) -> bool:
    """sz = x1-x0, origin = x0 - sz*idx*dir, res = sz/n (n a power of two) are exact for the small dyadics
    generated; the probe lookup (px - origin)/sz must be exactly representable or away from an integer"""
    l, b, r, t = map(Fraction, q)
    return exact_q((Fraction(px) - l) / (r - l)) and exact_q((Fraction(py) - b) / (t - b))


def exact_q(q: Fraction) -> bool:
    d = q.denominator
    return (d & (d - 1) == 0 and abs(q.numerator).bit_length() <= 50) or not near_int(q)


def convex_pts(rng, pts):
    """distinct points in convex position (counter-clockwise hull of all of them), else None"""
    pts = list(dict.fromkeys(pts))
    if len(pts) < 3:
        return None
    P = sorted((Fraction(x), Fraction(y)) for x, y in pts)

    def cross(o, a, b):
        return (a[0] - o[0]) * (b[1] - o[1]) - (a[1] - o[1]) * (b[0] - o[0])

    lower, upper = [], []
    for p in P:
        while len(lower) >= 2 and cross(lower[-2], lower[-1], p) <= 0:
            lower.pop()
        lower.append(p)
    for p in reversed(P):
        while len(upper) >= 2 and cross(upper[-2], upper[-1], p) <= 0:
            upper.pop()
        upper.append(p)
    hull = lower[:-1] + upper[:-1]
    if len(hull) < 3:
        return None
    return [(float(x), float(y)) for x, y in hull]


# ----------------------------------------------------------------------------- failing-input search
def search(R: Run, mismatches):
    """After a broken proof / correspondence: evaluate the property oracles around the mismatching inputs
    (and on a fixed battery) and return the first input on which the PROPERTY fails on the real code."""
    O = _import()
    C = Collector()
    seen = 0
    for mm in mismatches[:200]:
        t = mm["line"].split(" ")
        op = t[1]
        try:
            if op in ("pt", "tile", "idxb", "tiles", "poly", "fstrt", "grid"):
                sp = Spec.from_tok(t[3:11])
                gs = sp.make(O)
                f = lambda s: float(Fraction(s))
                if op == "pt":
                    oracle_point(C, gs, sp, f(t[11]), f(t[12]), False)
                elif op == "tile":
                    oracle_tile(C, gs, sp, (int(t[11]), int(t[12])), False)
                elif op in ("idxb", "tiles"):
                    oracle_query(C, gs, sp, tuple(f(v) for v in t[11:15]), False, O)
                elif op == "fstrt":
                    oracle_roundtrip(C, gs, sp, (int(t[11]), int(t[12])), [(int(t[13]), int(t[14])), (0, 0)], False, O)
                elif op == "poly":
                    pts = [tuple(f(v) for v in p.split(";")) for p in t[11][1:-1].split(",")]
                    oracle_polygon(C, gs, sp, pts, False, O)
                # around it
                for k in ((0, 0), (1, -2), (-3, 2)):
                    oracle_tile(C, gs, sp, k, False)
                bb = gs[1, -2].boundingbox
                for x, y in ((bb.left, bb.bottom), ((bb.left + bb.right) / 2, (bb.bottom + bb.top) / 2)):
                    oracle_point(C, gs, sp, x, y, False)
                oracle_query(C, gs, sp, tuple(bb), False, O)
                oracle_roundtrip(C, gs, sp, (2, -1), [(0, 0), (5, 7)], False, O)
                if op == "poly":
                    geom_queries(C, O, gs, sp, random.Random(seen), False, False, GEOM_KINDS)
            elif op == "hist":
                sp = Spec.from_tok(t[3:11])
                gs = sp.make(O)
                steps, i = [], 11
                f = lambda v: float(Fraction(v))
                while i < len(t):
                    if t[i] in "Bb":
                        steps.append((t[i], tuple(f(v) for v in t[i + 1:i + 5])))
                        i += 5
                    else:
                        steps.append((t[i], [tuple(f(v) for v in q.split(";")) for q in t[i + 1][1:-1].split(",")]))
                        i += 2
                oracle_history(C, gs, sp, steps, False, O)
                geom_queries(C, O, gs, sp, random.Random(seen), False, False, GEOM_KINDS)
            elif op == "fsb":
                f = lambda v: float(Fraction(v))
                oracle_sample_bin(C, O, int(t[3]), f(t[4]), f(t[5]), int(t[6]), int(t[3]) + 1000)
            elif op == "fst":
                f = lambda v: float(Fraction(v))
                oracle_sample_tile(C, O, tuple(f(v) for v in t[3:7]), int(t[7]), int(t[8]), int(t[9]), int(t[10]),
                                   t[11] == "T", t[12] == "T", (int(t[15]), int(t[16])))
            elif op == "web":
                z = int(t[4])
                if 0 <= z <= 24:     # beyond zoom 24 the slippy-map oracle fails on today's code (recorded finding), see run()
                    n = 2**z
                    oracle_web(C, O, z, int(t[5]), [(0, 0), (n - 1, n - 1), (int(t[8]), int(t[9]))])
        except Exception:  # pylint: disable=broad-except
            pass
        seen += 1
        if C.fail:
            return C.fail
    # fixed battery
    for spx in (Spec(10, 10, 0.5, -0.5, 0.0, 0.0, False, False), Spec(4000, 4000, 25.0, -25.0, 0.0, 0.0, False, True),
                Spec(3, 2, -0.75, 0.25, -0.75, 2.5, True, False)):
        try:
            gs = spx.make(O)
            for k in ((0, 0), (2, -3), (-5, 4)):
                oracle_tile(C, gs, spx, k, False)
                bb = gs[k].boundingbox
                oracle_point(C, gs, spx, bb.left, bb.bottom, False)
                oracle_query(C, gs, spx, tuple(bb), False, O)
                pts = [(bb.left, bb.bottom), (bb.right + float(spx.szx), bb.bottom), (bb.left, bb.top + float(spx.szy))]
                oracle_polygon(C, gs, spx, pts, False, O)
            oracle_roundtrip(C, gs, spx, (3, -2), [(0, 0), (1, 1), (-4, 6)], False, O)
            for n in range(4):
                geom_queries(C, O, gs, spx, random.Random(n), False, False, GEOM_KINDS)
                oracle_history(C, gs, spx, gen_history(random.Random(n), spx, False), False, O)
        except Exception:  # pylint: disable=broad-except
            pass
        if C.fail:
            return C.fail
    for z in (0, 1, 2, 7, 18, 24):
        n = 2**z
        oracle_web(C, O, z, 256, [(0, 0), (n - 1, n - 1), (n // 2, n // 3)])
        if C.fail:
            return C.fail
    try:
        spb = Spec(4000, 4000, 25.0, -25.0, 0.0, 0.0, False, True)
        gsb = spb.make(O)
        for kb in ((600000, -700000), (-2**31 // 4000 - 7, 2**32 // 4000 + 3), (2**40, -2**40), (3, 5), (0, 0)):
            oracle_tile(C, gsb, spb, kb, False)
            oracle_np_index(C, gsb, {"op": "tile", "grid": spb.tok(), "ix": kb[0], "iy": kb[1]}, kb, full=True, unsigned=False)
        if C.fail:
            return C.fail
    except Exception:  # pylint: disable=broad-except
        pass
    try:
        import shapely.geometry as sg
        roundtrip_values(C, O, [value_item(O, rec) for rec in (["spec", "3 2 -3/4 1/4 -3/4 5/2 T T"], ["web", 3, 256],
                                                               ["spec", "10 10 1/2 -1/2 0 0 F T"])], False)
        if not C.fail:
            oracle_big_crs(C, O, ("epsg:3577", (4000, 4000), 25.0), sg.Polygon([(118.0, -34.0), (146.0, -34.0), (132.0, -24.6)]))
        if not C.fail:
            thread_stress(C, O, Spec(3, 2, -0.75, 0.25, -0.75, 2.5, True, True), 3.0, 1)
    except Exception:  # pylint: disable=broad-except
        pass
    if not C.fail:
        try:
            import sys as _sys
            c14_args.battery(C, O, _sys.modules[__name__])
        except Exception:  # pylint: disable=broad-except
            pass
    return C.fail


def replay(R: Run, rec) -> int:
    O = _import()
    case = rec.get("case") or {}
    print("replay key:", rec.get("key"))
    print("replay case:", case)
    print("recorded:", rec.get("what"))
    C = Collector()
    op = case.get("op")
    f = lambda s: float(Fraction(s))
    if isinstance(op, str) and op.startswith("a:"):
        import sys as _sys
        c14_args.replay_args(C, O, _sys.modules[__name__], case)
    elif op == "bigcrs":
        import shapely
        shp = shapely.from_wkb(bytes.fromhex(case["wkb"]))
        print("geometry (EPSG:4326):", shp.wkt[:300])
        miss = oracle_big_crs(C, O, (case["crs"], tuple(case["shape"]), case["res"]), shp)
        if case.get("strict"):
            print("tiles overlapping the densified geometry but not returned:", [(k, round(a / 1e6)) for k, a in (miss or [])][:12])
            return 1 if miss else 0
    elif op == "valuert":
        roundtrip_values(C, O, [value_item(O, case["recipe"])], case.get("how") == "other-process")
    elif op == "threads":
        sp = Spec.from_tok(case["grid"].split(" "))
        for n in range(5):
            if not thread_stress(C, O, sp, 3.0, case.get("seed", 0) + n, case.get("threads", 6)):
                break
    elif op == "geom":
        import shapely
        sp = Spec.from_tok(case["grid"].split(" "))
        gs = sp.make(O)
        shp = shapely.from_wkb(bytes.fromhex(case["wkb"]))
        print("geometry:", shp.wkt[:400])
        print("tiles_from_geopolygon on the real code:",
              guarded(lambda: str(sorted(tuple(map(int, k)) for k, _ in ltiles(gs.tiles_from_geopolygon(O.geom.Geometry(shp, CRS)))))))
        if "history" in case:
            oracle_history(C, gs, sp, steps_from_json(case["history"]), False, O)
        else:
            oracle_geom(C, gs, sp, shp, False, O)
            if shp.geom_type == "Polygon" and not shp.interiors:
                oracle_area(C, gs, sp, shp, False, O, kind=case.get("kind", ""))
            # cache variants of the same geometry
            try:
                g = O.geom.Geometry(shp, CRS)
                a = [k for k, _ in ltiles(gs.tiles_from_geopolygon(g))]
                c2 = {}
                ltiles(gs.tiles(g.boundingbox, c2))
                b2 = [k for k, _ in ltiles(gs.tiles_from_geopolygon(g, c2))]
                if a != b2 and C.fail is None:
                    C.fail = {"what": f"result depends on the cache: {sorted(a)[:8]} vs {sorted(b2)[:8]}"}
            except Exception as e:  # pylint: disable=broad-except
                C.fail = C.fail or {"what": repr(e)}
    elif op == "geom4326":
        import shapely
        ok, what = other_crs_geom(O, shapely.from_wkb(bytes.fromhex(case["wkb"])))
        print(what)
        return 0 if ok else 1
    elif op == "history":
        sp = Spec.from_tok(case["grid"].split(" "))
        oracle_history(C, sp.make(O), sp, steps_from_json(case["steps"]), False, O)
    elif op == "poly" and "history" in case:
        sp = Spec.from_tok(case["grid"].split(" "))
        oracle_history(C, sp.make(O), sp, steps_from_json(case["history"]), False, O)
    elif op == "fsb":
        oracle_sample_bin(C, O, case["idx"], f(case["x0"]), f(case["x1"]), case["d"], case["far"])
    elif op == "fst":
        oracle_sample_tile(C, O, tuple(f(v) for v in case["box"]), case["ny"], case["nx"], case["ix"], case["iy"],
                           case["fx"], case["fy"], tuple(case["k"]))
    elif op == "web":
        z = case["z"]
        n = 2**z
        ks = [(case["i"], case["j"])] if "i" in case else [(0, 0), (n - 1, n - 1)]
        oracle_web(C, O, z, case["npix"], ks)
    elif "grid" in case:
        sp = Spec.from_tok(case["grid"].split(" "))
        gs = sp.make(O)
        if op == "pt":
            oracle_point(C, gs, sp, f(case["x"]), f(case["y"]), False)
        elif op == "tile":
            oracle_tile(C, gs, sp, (case["ix"], case["iy"]), False)
            oracle_np_index(C, gs, case, (case["ix"], case["iy"]), full=True, unsigned=not (sp.fx or sp.fy))
        elif op == "tiles" or "bbox" in case:
            q = tuple(f(v) for v in case["bbox"])
            print("idx_bounds on the real code:", guarded(lambda: str(tuple(map(int, gs.idx_bounds(O.BoundingBox(*q, CRS)))))))
            if rec.get("key") == "bbox-query-thin-query-widened":
                out = tuple(map(int, gs.idx_bounds(O.BoundingBox(*q, CRS))))
                return 1 if out == (0, 0, 2, 1) else 0
            oracle_query(C, gs, sp, q, False, O)
        elif op == "poly":
            oracle_polygon(C, gs, sp, [tuple(f(v) for v in p) for p in case["pts"]], False, O)
        elif op == "fstrt":
            oracle_roundtrip(C, gs, sp, tuple(case["j"]), [tuple(k) for k in case["ks"]], False, O)
    elif rec.get("key") in ("bin-mem", "bins-abut"):
        b1 = O.Bin1D(f(case["sz"]), f(case["o"]), case["d"])
        if "x" in case:
            x = f(case["x"])
            k = b1.bin(x)
            lo, hi = b1[k]
            print(f"bin({x}) = {k}; bin {k} = [{lo},{hi})")
            return 0 if Fraction(lo) <= Fraction(x) < Fraction(hi) else 1
        k = case["k"]
        (lo, hi), (nlo, _) = b1[k], b1[k + case["d"]]
        print(f"bin {k} = [{lo},{hi}); bin {k + case['d']} starts at {nlo}")
        return 0 if hi == nlo and Fraction(hi) - Fraction(lo) == Fraction(case["sz"]) else 1
    elif rec.get("key") == "polygon-query-other-crs":
        ok, what = other_crs_case(O, case["ring"])
        print(what)
        return 0 if ok else 1
    elif rec.get("kind") == "no-failing-input-found":
        for b in rec.get("broken", []):
            for mm in (b.get("first") or [])[:5]:
                print("mismatch:", mm)
                print("model now:", run_driver("C14", [mm["line"]]))
        return 1
    if C.fail:
        print("still fails:", C.fail["what"])
        return 1
    print("does not fail any more")
    return 0
