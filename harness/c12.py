"""C12 — tile queries and tile dependency graphs are complete."""
from __future__ import annotations

import itertools
import math
from fractions import Fraction

import numpy as np

from .common import Run, bool_s, frac_s, guarded, list_s, run_driver
from .c04 import canon, compositions, ints, respell, sequence_vs_fresh, tiling_tok
from .c12_gi import check_linear_of, gi_stream, replay_gi

META = {
    "claimed": True,
    "text": "Lean 4 theorems (unbounded in image size, tiling – regular or variable incl. zero-length chunks –, query "
    "box, scale / translation / mirroring of the grid-to-grid map) about a hand model of GeoboxTiles.range_from_bbox, "
    "_tiles_from_pix_bbox, tiles, _check_linear / snap_affine, _grid_intersect_linear and the control flow of the "
    "general path: the clamped pixel range and the located tile ranges contain every tile owning a pixel that meets "
    "the query box (range_superset); geometry queries return exactly the non-disjoint candidates; on the linear path "
    "every source tile whose footprint overlaps a destination tile with non-empty interior is a dependency "
    "(mirrored maps included) and a tile whose image misses the source image has no dependency (F15 repaired); the "
    "general path drops no candidate.  Tied to /repo by an exact correspondence (exhaustive small tilings x quarter-"
    "pixel boxes, dyadic grid pairs) and a brute-force shapely oracle on real grid_intersect outputs "
    "(same-CRS aligned / shifted / scaled / mirrored / rotated / touching / disjoint; 20000+ px rasters with pixel-size ratios "
    "k(1 +- 1e-2..1e-6); queries and dependency graphs across 13 CRSs: UTM, Albers, LAEA, polar stereographic, web mercator "
    "and geographic CRSs other than EPSG:4326, continental lon/lat boxes with vertices that have no finite image; raising "
    "is an oracle failure of its own; results are held and re-checked after later calls; the same GeoBox under different "
    "tilings in both directions; every query / dependency oracle also on tilings derived by crop / clip / clip_tiles "
    "not starting at tile 0, after a two-sided structural oracle of the derived object; 4326 triangles / slivers / boxes "
    "with long curved edges against continental Albers / LAEA / UTM rasters with small tiles).  PUBLIC ENTRY POINTS end to end "
    "(Model/C12Gi, Props/C12Gi): grid_intersect(src) and tiles(query) are modelled from their arguments (CRS identity, kind of "
    "base raster, affine, shape, tiling): _check_linear's CRS / isinstance tests, the three-way dispatch, the early {} for an "
    "empty common footprint, and the whole same-CRS general path with nothing left as a parameter (rings of "
    "polygon_from_transform, their bounding boxes, range_from_bbox through ~affine, shapely's disjoint on convex rings as the "
    "validated reference semantics Spec/ConvexDisjoint); theorems: for two GeoBoxes of one CRS with ANY invertible affines "
    "(rotated, sheared, mirrored) grid_intersect lists source tile s for destination tile d whenever a world point lies inside a "
    "pixel of each - no footprint / shapely hypothesis (grid_intersect_same_crs_general_complete; "
    "grid_intersect_same_crs_complete for whichever path _check_linear picks), tiles(query) is complete for same-CRS boxes and "
    "convex geometries, CRS-lessness mismatches raise instead of answering.  The correspondence drives the public calls with "
    "exact dyadic affines of power-of-two determinant (16 matrices: rotations by 90/45 degrees, shears, mirrors) with and "
    "without CRS, different CRSs (pyproj values measured), GCPGeoBox bases, singular affines, and compares the chosen path and "
    "the ordered dict; query geometries of every shape (concave, holes, multi-part with overlapping / nested / interleaved part "
    "boxes in either order, lines, points, collections; same CRS and lon/lat) are judged per tile by a brute-force shapely "
    "oracle.  Linear path with the map snap_affine really returns (Props/C12GiSnap): completeness against the snapped map, "
    "transfer to the true map for every overlap deeper than the displacement, and the displacement bound itself - snap_scale "
    "and maybe_int move a value by less than their tolerance in every branch (reciprocal branch included), so the image of a "
    "point moves by at most stol*|u| + tol*|v| + ttol source pixels.  Different-CRS footprints: the arithmetic of "
    "footprint(crs, buffer, npoints) (pad = buffer pixels of the coarser axis, also on mirrored rasters; densification = "
    "longer side / npoints) is modelled and tied; pyproj / shapely stay parameters.  Final increment: the parameterised "
    "branches of the PUBLIC grid_intersect (different CRSs, non-linear base) are the general path with the model's ranges "
    "(Props/C12GiParam: grid_intersect_param_complete, grid_intersect_cross_crs_cases); intercept-free tie of the "
    "different-CRS pipeline (cross_pipeline): footprint(4326, 2) of every raster equals the geometry built from the model's "
    "pad / densification numbers, grid_intersect equals the composition of the public calls the model prescribes on 26 "
    "overlapping and 26 really disjoint cross-CRS pairs (early {}), and a GCPGeoBox extent's bounding box contains every "
    "boundary pixel corner.",
    "note": "Trusted: Lean kernel + {propext, Classical.choice, Quot.sound}; shapely predicates and pyproj are "
    "parameters (general path: completeness under the footprint-superset hypothesis, `_partial`; cross-CRS pairs are "
    "sampled by the oracle only, threshold 0.5 px^2); same-CRS oracle: overlap > 1e-6 source px^2 and, on the linear "
    "path, wider than 2.5e-3 source px (snap_affine shifts the grid map by up to 1e-3 px on purpose); 'intersects' is positive-area overlap (tiles touching a query "
    "only along an edge are not returned by the code and the test-suite pins that); doubles are sampled; lon/lat boxes of "
    "(nearly) global extent or containing a pole are only evaluated while known_findings.json has a 'tiles-query-global-box' "
    "entry (on HEAD they raise GEOSException or return no tile for UTM / Albers / LAEA rasters: vertex-wise reprojection). "
    " Modelled since the growth round: range_from_bbox / tiles for boxes carrying a CRS (corners through "
    "~affine, any invertible affine; foreign CRS as a corner-wise parameter), the general path with the model's own candidate "
    "ranges (gridIntersectGeneralR), rounding on mirrored grids, C12 o C04 link; session 3: grid_intersect / tiles dispatch, "
    "same-CRS general path without parameters (shapely disjoint on convex quadrilaterals = Spec/ConvexDisjoint, validated "
    "against shapely every run), extent rings compared as intermediate values, result order compared.  As repaired "
    "(fix2-C12): a CRS-less geometry against a CRS-less raster is mapped to pixels before candidate tiles are picked "
    "(as found: rotated CRS-less grids lost dependencies, tiles() of a CRS-less polygon returned nothing; _cex "
    "no_crs_candidates_as_found_cex).  NOT mirrored in Lean: pyproj / Geometry.to_crs(check_and_fix) and shapely predicates on "
    "NON-convex or reprojected geometries (parameters: verdict flags); GeoBoxBase.footprint(4326, 2) (padding, "
    "densification) and the `&` of the two footprints (only its emptiness is an input); GeoBox.project for general "
    "geometries (only boxes / rings); BoundingBox.boundary (float32); extent of GCPGeoBox (non-linear) rasters (dispatch "
    "only); CRS equality itself (tags; C19).",
    "technique": "Lean 4 proof over hand model + exhaustive/random differential correspondence with real code",
    "design_ref": "DESIGN.md §4 C12",
}

TTOL, STOL, TOL, STTOL = (Fraction(v) for v in (1e-3, 1e-6, 1e-8, 1e-10))


def _import():
    from affine import Affine
    from odc.geo import geom
    from odc.geo.geobox import GeoBox, GeoboxTiles

    return Affine, geom, GeoBox, GeoboxTiles


def aff_s(A) -> str:
    return ";".join(frac_s(v) for v in tuple(A)[:6])


def bbox_s(b) -> str:
    return ";".join(frac_s(v) for v in (b.left, b.bottom, b.right, b.top))


def idxs_s(xs) -> str:
    return list_s([f"{int(a)};{int(b)}" for a, b in xs])


def range_s(r) -> str:
    return f"{r.start}:{r.stop}"


def gbt_tok(spec):
    """spec = (kind, sy, sx) as produced by `tilings()`; returns NY NX ty tx tokens"""
    kind, sy, sx = spec
    ny = sy[0] if kind == "r" else sum(sy)
    nx = sx[0] if kind == "r" else sum(sx)
    return f"{ny} {nx} {tiling_tok(kind, sy)} {tiling_tok(kind, sx)}"


def mk_gbt(GeoBox, GeoboxTiles, spec, A, crs="EPSG:3857"):
    kind, sy, sx = spec
    ny = sy[0] if kind == "r" else sum(sy)
    nx = sx[0] if kind == "r" else sum(sx)
    gb = GeoBox((ny, nx), A, crs)
    return GeoboxTiles(gb, (sy[1], sx[1]) if kind == "r" else (tuple(sy), tuple(sx)))


def axis_specs():
    """one-axis tilings with at most 4 tiles: regular (N, n) and variable chunk tuples (zero-length included)"""
    reg = [(N, n) for N in range(1, 9) for n in range(1, 9) if -(-N // n) <= 4]
    var = [c for N in range(1, 6) for c in compositions(N) if len(c) <= 4]
    var += [(0, 2), (2, 0), (1, 0, 2), (0, 0, 3), (2, 0, 0, 1), (0, 1, 0, 1)]
    return reg, var


def tile_rects(gbt):
    """pixel rectangle (y0, y1, x0, x1) of every tile, from the chunk tuples (independent of __getitem__)"""
    chy, chx = gbt.chunks
    oy = np.concatenate([[0], np.cumsum(chy)]).astype(int)
    ox = np.concatenate([[0], np.cumsum(chx)]).astype(int)
    return {(r, c): (int(oy[r]), int(oy[r + 1]), int(ox[c]), int(ox[c + 1]))
            for r in range(len(chy)) for c in range(len(chx))}


def tile_polys(gbt):
    """world footprint of every tile as a shapely polygon, from the chunk tuples and the base affine only"""
    import shapely.geometry as sg

    A = gbt.base.affine
    return {k: sg.Polygon([A * (x0, y0), A * (x1, y0), A * (x1, y1), A * (x0, y1)])
            for k, (y0, y1, x0, x1) in tile_rects(gbt).items()}


def spec_of(gbt):
    """tiling description of an existing object: its chunk tuples"""
    return ("v", tuple(int(v) for v in gbt.chunks[0]), tuple(int(v) for v in gbt.chunks[1]))


def check_tiling_object(R: Run, t2, chy, chx, case, rng):
    """two-sided oracle for a (derived) RoiTiles object: shape, base, chunks, every region, tile shapes and locate have
    to be those of the tiling of the rectangle with chunk tuples (chy, chx), counted from 0"""
    oy, ox = [0], [0]
    for c_ in chy:
        oy.append(oy[-1] + c_)
    for c_ in chx:
        ox.append(ox[-1] + c_)
    Ty, Tx = len(chy), len(chx)
    probs = []
    if guarded(lambda: str(tuple(t2.shape.yx))) != str((Ty, Tx)):
        probs.append(f"shape {guarded(lambda: str(tuple(t2.shape.yx)))} != {(Ty, Tx)}")
    if guarded(lambda: str(tuple(int(v) for v in t2.base.yx))) != str((oy[-1], ox[-1])):
        probs.append(f"base {guarded(lambda: str(tuple(t2.base.yx)))} != {(oy[-1], ox[-1])}")
    if Ty and Tx and guarded(lambda: str((list(t2.chunks[0]), list(t2.chunks[1])))) != str((list(chy), list(chx))):
        probs.append(f"chunks {guarded(lambda: str(t2.chunks))} != {(chy, chx)}")
    for r in range(Ty):
        for c in range(Tx):
            want = f"{oy[r]}:{oy[r + 1]} {ox[c]}:{ox[c + 1]}"
            got = guarded(lambda: " ".join(f"{int(v.start)}:{int(v.stop)}" for v in t2[r, c]))
            if got != want:
                probs.append(f"[{r},{c}] = {got} != {want}")
            wsh = f"{oy[r + 1] - oy[r]} {ox[c + 1] - ox[c]}"
            gsh = guarded(lambda: "{} {}".format(*t2.tile_shape((r, c)).yx))
            if gsh != wsh:
                probs.append(f"tile_shape({r},{c}) = {gsh} != {wsh}")
    pix = [(y, x) for y in range(oy[-1]) for x in range(ox[-1])]
    if len(pix) > 60:
        pix = rng.sample(pix, 60) + [(0, 0), (oy[-1] - 1, ox[-1] - 1)]
    for (y, x) in pix:
        wr = max(i for i in range(Ty) if oy[i] <= y < oy[i + 1])
        wc = max(i for i in range(Tx) if ox[i] <= x < ox[i + 1])
        got = guarded(lambda: "{} {}".format(*(int(v) for v in t2.locate((y, x)))))
        if got != f"{wr} {wc}":
            probs.append(f"locate({y},{x}) = {got} != {wr} {wc}")
    for (y, x) in ((-1, 0), (oy[-1], 0), (0, ox[-1])):
        got = guarded(lambda: str(t2.locate((y, x))))
        if got != "ERR:IndexError":
            probs.append(f"locate({y},{x}) = {got}, expected IndexError")
    R.oracle(not probs, "derived-tiling-wrong", case, "; ".join(probs[:6]), sig="derived|" + case.get("how", ""))
    return not probs


def derive(R: Run, Rm, GeoBox, GeoboxTiles, Affine, rng):
    """a tiled GeoBox derived from a parent by crop / clip that does not start at tile (0, 0); returns
    (derived GeoboxTiles, parent, description) after checking the derived objects structurally (two-sided)"""
    kind = rng.choice("rv")
    if kind == "r":
        sy, sx = (rng.randint(5, 14), rng.randint(1, 4)), (rng.randint(5, 14), rng.randint(1, 4))
        chy = [sy[1]] * (-(-sy[0] // sy[1]) - 1) + [sy[0] - (-(-sy[0] // sy[1]) - 1) * sy[1]]
        chx = [sx[1]] * (-(-sx[0] // sx[1]) - 1) + [sx[0] - (-(-sx[0] // sx[1]) - 1) * sx[1]]
    else:
        chy = [rng.choice([1, 2, 3, 0, 2]) for _ in range(rng.randint(3, 6))]
        chx = [rng.choice([1, 2, 4, 0, 3]) for _ in range(rng.randint(3, 6))]
        if sum(chy) == 0 or sum(chx) == 0:
            chy[0], chx[0] = 2, 2
        sy, sx = tuple(chy), tuple(chx)
    res = rng.choice([1, 2, 0.5])
    A = Affine(res, 0, rng.randint(-40, 40) * res, 0, -res, rng.randint(-40, 40) * res)
    parent = mk_gbt(GeoBox, GeoboxTiles, (kind, sy, sx), A)
    Ty, Tx = len(chy), len(chx)
    if Ty < 2 or Tx < 2:
        return None
    a, c = rng.randint(1, Ty - 1), rng.randint(0 if rng.random() < 0.3 else 1, Tx - 1)
    b, d = rng.randint(a + 1, Ty), rng.randint(c + 1, Tx)
    how = rng.choice(["crop", "clip", "roi.crop", "clip_tiles"])
    sub_y, sub_x = chy[a:b], chx[c:d]
    if sum(sub_y) == 0 or sum(sub_x) == 0:
        return None
    case = {"parent": [kind, list(sy), list(sx)], "A": aff_s(A), "how": how, "block": [a, b, c, d]}
    sel = [(a, c), (b - 1, d - 1)] + [(rng.randint(a, b - 1), rng.randint(c, d - 1)) for _ in range(rng.randint(0, 2))]
    try:
        if how == "crop":
            g2 = parent.crop[a:b, c:d]
        elif how == "clip":
            g2, new = parent.clip(sel)
            R.oracle([tuple(int(v) for v in p_) for p_ in new] == [(r - a, cc - c) for r, cc in sel], "derived-tiling-wrong",
                     dict(case, sel=sel), f"clip re-based indexes {new}", sig="derived|clip-idx")
        elif how == "roi.crop":
            t2 = parent.roi.crop((slice(a, b), slice(c, d)))
            g2 = GeoboxTiles(parent[a:b, c:d], None, _tiles=t2)
        else:
            t2, roi, new = Rm.clip_tiles(parent.roi, sel)
            g2 = GeoboxTiles(parent[roi], None, _tiles=t2)
    except Exception as e:  # pylint: disable=broad-except
        R.oracle(False, "derived-tiling-raises", case, repr(e))
        return None
    ok = check_tiling_object(R, g2.roi, sub_y, sub_x, case, rng)
    # the derived GeoBox: shape and exact position inside the parent
    oy0, ox0 = sum(chy[:a]), sum(chx[:c])
    wantA = A * Affine.translation(ox0, oy0)
    okb = tuple(g2.base.shape) == (sum(sub_y), sum(sub_x)) and all(
        Fraction(u) == Fraction(v) for u, v in zip(tuple(g2.base.affine)[:6], tuple(wantA)[:6]))
    R.oracle(okb, "derived-geobox-wrong", case, f"base {g2.base.shape} {aff_s(g2.base.affine)}, want "
             f"{(sum(sub_y), sum(sub_x))} {aff_s(wantA)}", sig="derived|base")
    for _k in range(3):
        i, j = rng.randint(0, b - a - 1), rng.randint(0, d - c - 1)
        g, gp = guarded(lambda: g2[i, j]), guarded(lambda: parent[a + i, c + j])
        same = (not isinstance(g, str)) and (not isinstance(gp, str)) and tuple(g.shape) == tuple(gp.shape) and all(
            Fraction(u) == Fraction(v) for u, v in zip(tuple(g.affine)[:6], tuple(gp.affine)[:6]))
        R.oracle(same, "derived-tile-ne-parent-tile", dict(case, tile=[i, j]),
                 f"tile ({i},{j}) of the derived grid is not tile ({a + i},{c + j}) of the parent", sig="derived|tile")
    return g2, parent, case


def overlap_len(a0, a1, b0, b1):
    return max(Fraction(0), min(Fraction(a1), Fraction(b1)) - max(Fraction(a0), Fraction(b0)))


def exact_ranges(gbt, x1, y1, x2, y2):
    """range_from_bbox re-computed with exact rationals: clamp floor / ceil to the image, then look the two
    pixels up in the cumulative chunk offsets by linear scan."""
    out = []
    for (a1, a2), ch in (((y1, y2), gbt.chunks[0]), ((x1, x2), gbt.chunks[1])):
        N = sum(ch)
        p = min(max(math.floor(Fraction(a1)), 0), N - 1)
        q = min(max(math.ceil(Fraction(a2)), 1), N) - 1
        cum = [0]
        for c in ch:
            cum.append(cum[-1] + c)
        tp = max(i for i in range(len(ch)) if cum[i] <= p < cum[i + 1])
        tq = max(i for i in range(len(ch)) if cum[i] <= q < cum[i + 1])
        out.append(f"{tp}:{tq + 1}")
    return tuple(out)


def exact_linear_deps(dst, src, A):
    """_grid_intersect_linear re-computed with exact rationals from the chunk tuples and the (snapped) map A"""
    a, b, c, d, e, f = (Fraction(v) for v in tuple(A)[:6])
    sny, snx = sum(src.chunks[0]), sum(src.chunks[1])
    out = {}
    for (r, cc), (y0, y1, x0, x1) in tile_rects(dst).items():
        pts = [(a * x + b * y + c, d * x + e * y + f) for x in (x0, x1) for y in (y0, y1)]
        bx1, bx2 = math.floor(min(p[0] for p in pts)), math.ceil(max(p[0] for p in pts))
        by1, by2 = math.floor(min(p[1] for p in pts)), math.ceil(max(p[1] for p in pts))
        if bx2 <= 0 or bx1 >= snx or by2 <= 0 or by1 >= sny:
            out[(r, cc)] = []
            continue
        (ya, yb), (xa, xb) = ([int(v) for v in w.split(":")] for w in exact_ranges(src, bx1, by1, bx2, by2))
        out[(r, cc)] = list(itertools.product(range(ya, yb), range(xa, xb)))
    return out


# ------------------------------------------------------------------ pixel-box queries
def box_queries(R: Run, geom, GeoBox, GeoboxTiles, Affine):
    reg, var = axis_specs()
    rng = R.rng
    BoundingBox = geom.BoundingBox

    def one(spec, x1, y1, x2, y2, tag, gbt=None):
        gbt = gbt if gbt is not None else mk_gbt(GeoBox, GeoboxTiles, spec, Affine.identity())
        bb = BoundingBox(float(x1), float(y1), float(x2), float(y2))
        head = f"{gbt_tok(spec)} {bbox_s(bb)}"
        ny, nx = gbt.base.shape
        outside = x2 <= 0 or x1 >= nx or y2 <= 0 or y1 >= ny
        sig = f"{tag}|{'outside' if outside else 'inside' if (0 <= x1 and x2 <= nx and 0 <= y1 and y2 <= ny) else 'straddle'}"
        rr = []

        def f_range():
            yy, xx = gbt.range_from_bbox(bb)
            rr.append((yy, xx))
            return f"{range_s(yy)} {range_s(xx)}"

        R.corr(f"c12 range {head}", f_range, sig="range|" + sig)
        tt = []

        def f_tiles():
            o = list(gbt.tiles(bb))
            tt.append(o)
            return idxs_s(o)

        R.corr(f"c12 tiles {head}", f_tiles, sig="tiles|" + sig)
        # two-sided oracle: exact re-computation (Fractions; tile lookup by brute force over the chunk tuples)
        want_rng = exact_ranges(gbt, x1, y1, x2, y2)
        if rr:
            R.oracle((range_s(rr[0][0]), range_s(rr[0][1])) == want_rng, "range-from-bbox-not-exact",
                     {"spec": spec, "bbox": [str(v) for v in (x1, y1, x2, y2)]},
                     f"ranges {rr[0]} but exact arithmetic gives {want_rng}", sig="range2|" + sig)
        if tt:
            (ya, yb), (xa, xb) = ([int(v) for v in w.split(":")] for w in want_rng)
            want_t = [] if outside else list(itertools.product(range(ya, yb), range(xa, xb)))
            R.oracle(tt[0] == want_t, "tiles-bbox-not-exact", {"spec": spec, "bbox": [str(v) for v in (x1, y1, x2, y2)]},
                     f"tiles {tt[0]} but exact arithmetic gives {want_t}", sig="tiles2|" + sig)
        # oracle: exact rational overlap area of every tile rectangle with the query box
        rects = tile_rects(gbt)
        need = [k for k, (a0, a1, b0, b1) in rects.items()
                if overlap_len(a0, a1, y1, y2) > 0 and overlap_len(b0, b1, x1, x2) > 0]
        if rr:
            yy, xx = rr[0]
            miss = [k for k in need if not (k[0] in yy and k[1] in xx)]
            R.oracle(not miss, "range-from-bbox-misses-tile", {"spec": spec, "bbox": [str(v) for v in (x1, y1, x2, y2)]},
                     f"ranges {yy},{xx} miss overlapping tiles {miss}", sig="range|" + sig, trivial=outside)
        else:
            R.oracle(False, "range-from-bbox-raises", {"spec": spec, "bbox": [str(v) for v in (x1, y1, x2, y2)]}, "raised")
        if tt:
            miss = [k for k in need if k not in tt[0]]
            R.oracle(not miss, "tiles-bbox-misses-tile", {"spec": spec, "bbox": [str(v) for v in (x1, y1, x2, y2)]},
                     f"tiles {tt[0]} miss overlapping tiles {miss}", sig="tiles|" + sig, trivial=outside)

    q = Fraction(1, 4)
    # per-axis exhaustive: every span on the quarter-pixel lattice, other axis with a fixed in-image span
    axes = [("r", s) for s in reg] + [("v", s) for s in var]
    step = R.pick(2, 1)
    for k, (kind, s) in enumerate(axes):
        N = s[0] if kind == "r" else sum(s)
        other = (3, 2) if kind == "r" else (2, 1)
        pts = [q * i for i in range(-6, 4 * N + 7, step)]
        if R.quick and k % 2:
            pts = [q * i for i in range(-5, 4 * N + 7, 3)]
        for a1, a2 in itertools.combinations_with_replacement(pts, 2):
            if k % 2 == 0:
                one((kind, s, other), Fraction(1, 2), a1, Fraction(3, 2), a2, "y-axis")
            else:
                one((kind, other, s), a1, Fraction(1, 2), a2, Fraction(3, 2), "x-axis")
    # 2-D random boxes (inside, straddling, outside, larger than the image)
    for _ in range(R.pick(1500, 15000)):
        kind = rng.choice("rv")
        pool = reg if kind == "r" else var
        sy, sx = rng.choice(pool), rng.choice(pool)
        ny = sy[0] if kind == "r" else sum(sy)
        nx = sx[0] if kind == "r" else sum(sx)
        xs = sorted(q * rng.randint(-8, 4 * nx + 8) for _ in range(2))
        ys = sorted(q * rng.randint(-8, 4 * ny + 8) for _ in range(2))
        one((kind, sy, sx), xs[0], ys[0], xs[1], ys[1], "2d")
    one(("r", (20, 10), (20, 10)), 100, 100, 120, 120, "2d")
    # world-space boxes (box with the CRS of the raster): corners through ~affine, exact for dyadic affines incl.
    # mirrored and quarter-turn rotated grids; model op `rangew`, two-sided exact oracle through exact_ranges
    for _ in range(R.pick(600, 6000)):
        kind = rng.choice("rv")
        pool = reg if kind == "r" else var
        spec = (kind, rng.choice(pool), rng.choice(pool))
        sc = rng.choice([1, 2, 0.5, 4, 0.25])
        if rng.random() < 0.3:
            W = Affine(0, sc * rng.choice([1, -1]), rng.randint(-40, 40) / 4, sc * rng.choice([1, -1]), 0, rng.randint(-40, 40) / 4)
        else:
            W = Affine(sc * rng.choice([1, -1]), 0, rng.randint(-40, 40) / 4, 0, sc * rng.choice([1, -1]), rng.randint(-40, 40) / 4)
        gbt = mk_gbt(GeoBox, GeoboxTiles, spec, W)
        ny, nx = gbt.base.shape
        pxs = [Fraction(rng.randint(-8, 4 * nx + 8), 4) for _ in range(2)]
        pys = [Fraction(rng.randint(-8, 4 * ny + 8), 4) for _ in range(2)]
        ws = [W * (float(x), float(y)) for x in pxs for y in pys]
        l, r_ = min(p_[0] for p_ in ws), max(p_[0] for p_ in ws)
        b_, t_ = min(p_[1] for p_ in ws), max(p_[1] for p_ in ws)
        bb = BoundingBox(l, b_, r_, t_, "EPSG:3857")
        rr = []

        def fw():
            yy, xx = gbt.range_from_bbox(bb)
            rr.append((yy, xx))
            return f"{range_s(yy)} {range_s(xx)}"

        R.corr(f"c12 rangew {gbt_tok(spec)} {aff_s(W)} {bbox_s(bb)}", fw,
               sig="rangew|" + ("rot90" if W.a == 0 else "mirrored" if (W.a < 0 or W.e > 0) else "north-up"))
        if rr:
            want = exact_ranges(gbt, min(pxs), min(pys), max(pxs), max(pys))
            R.oracle((range_s(rr[0][0]), range_s(rr[0][1])) == want, "range-from-bbox-not-exact",
                     {"spec": spec, "W": aff_s(W), "world_bbox": [str(Fraction(v)) for v in (l, b_, r_, t_)]},
                     f"ranges {rr[0]} but exact arithmetic gives {want}", sig="rangew2")
    # the same queries on DERIVED tilings (crop / clip not starting at tile 0), model = fresh tiling of the sub-chunks
    from odc.geo import roi as Rm

    for _ in range(R.pick(150, 1500)):
        dv = derive(R, Rm, GeoBox, GeoboxTiles, Affine, rng)
        if dv is None:
            continue
        g2, _parent, _case = dv
        ny, nx = g2.base.shape
        for _k in range(R.pick(4, 8)):
            xs = sorted(q * rng.randint(-6, 4 * nx + 6) for _ in range(2))
            ys = sorted(q * rng.randint(-6, 4 * ny + 6) for _ in range(2))
            one(spec_of(g2), xs[0], ys[0], xs[1], ys[1], "derived-" + _case["how"], gbt=g2)
    # doubles a hair away from pixel / tile edges, image borders and half pixels, tiny and huge magnitudes
    # (floor / ceil of a double is exact, so model == code is still required)
    deltas = [0.0, 1e-6, 1e-9, 1e-10, 1e-11, 1e-13, 2.0**-40]

    def near(k):
        d = rng.choice(deltas) * rng.choice([1, -1])
        v = float(k) + d
        if rng.random() < 0.2:
            v = math.nextafter(float(k), rng.choice([-math.inf, math.inf]))
        return Fraction(v)

    odd = [Fraction(v) for v in (5e-324, -5e-324, 1e308, -1e308, 2.0**63, -2.0**63, 1e19, 2.0**53 + 2, 1e-300)]
    for _ in range(R.pick(2500, 25000)):
        kind = rng.choice("rv")
        pool = reg if kind == "r" else var
        sy, sx = rng.choice(pool), rng.choice(pool)
        ny = sy[0] if kind == "r" else sum(sy)
        nx = sx[0] if kind == "r" else sum(sx)

        def coord(n):
            r = rng.random()
            if r < 0.08:
                return rng.choice(odd)
            k = rng.randint(-1, n + 1)
            return near(k + (0.5 if r < 0.2 else 0))

        xs, ys = sorted(coord(nx) for _ in range(2)), sorted(coord(ny) for _ in range(2))
        one((kind, sy, sx), xs[0], ys[0], xs[1], ys[1], "near-int")


# ------------------------------------------------------------------ geometry queries
def geom_queries(R: Run, geom, GeoBox, GeoboxTiles, Affine):
    import shapely.geometry as sg

    rng = R.rng
    reg, var = axis_specs()
    for it in range(R.pick(600, 6000)):
        kind = rng.choice("rv")
        pool = reg if kind == "r" else var
        spec = (kind, rng.choice(pool), rng.choice(pool))
        # exact stream: power-of-two resolution, dyadic origin, possibly mirrored
        res = rng.choice([1, 2, 0.5, 4])
        A = Affine(res * rng.choice([1, -1]), 0, rng.randint(-40, 40) / 4, 0, res * rng.choice([1, -1]), rng.randint(-40, 40) / 4)
        gbt = mk_gbt(GeoBox, GeoboxTiles, spec, A)
        ny, nx = gbt.base.shape
        # query polygon given in pixel space on the quarter lattice, mapped to the world exactly
        k = rng.choice([3, 4, 4, 5])
        pix = [(rng.randint(-6, 4 * nx + 6) / 4, rng.randint(-6, 4 * ny + 6) / 4) for _ in range(k)]
        if rng.random() < 0.4:
            x0, y0 = pix[0]
            x1, y1 = pix[1]
            pix = [(x0, y0), (x1, y0), (x1, y1), (x0, y1)]
        ppoly = sg.Polygon(pix).convex_hull
        if ppoly.geom_type != "Polygon" or ppoly.area == 0:
            continue
        world = geom.Geometry(sg.Polygon([A * p for p in ppoly.exterior.coords]), "EPSG:3857")
        as_bbox = rng.random() < 0.2
        query = world.boundingbox if as_bbox else world
        res_ = []

        def f():
            o = list(gbt.tiles(query))
            res_.append(o)
            return idxs_s(o)

        # inputs of the model: the pixel-space bounding box the code derives, and shapely's verdicts
        qpoly = query.polygon if as_bbox else query
        pbb = gbt.base.project(qpoly.boundingbox.polygon).boundingbox
        try:
            yy, xx = gbt.range_from_bbox(qpoly.boundingbox)
            cands = list(itertools.product(yy, xx))
            flags = [bool(qpoly.disjoint(gbt[i].extent)) for i in cands]
        except Exception:  # pylint: disable=broad-except
            cands, flags = [], []
        R.corr(f"c12 geom {gbt_tok(spec)} {bbox_s(pbb)} {list_s([bool_s(v) for v in flags])}", f,
               sig=f"geom|{'bbox-crs' if as_bbox else 'poly'}")
        if not res_:
            R.oracle(False, "tiles-geom-raises", {"spec": spec, "A": aff_s(A), "pix": pix}, "raised")
            continue
        # oracle in pixel space (exact lattice coordinates): tiles with positive overlap area must be
        # returned; returned tiles must at least touch the query
        qp = sg.Polygon([(~A) * p for p in qpoly.geom.exterior.coords])
        miss, extra = [], []
        for key, (a0, a1, b0, b1) in tile_rects(gbt).items():
            rect = sg.box(b0, a0, b1, a1)
            if rect.area > 0 and qp.intersection(rect).area > 1e-6 and key not in res_[0]:
                miss.append(key)
            if key in res_[0] and not qp.intersects(rect):
                extra.append(key)
        case = {"spec": spec, "A": aff_s(A), "pix": pix, "as_bbox": as_bbox}
        R.oracle(not miss, "tiles-geom-misses-tile", case, f"tiles {res_[0]} miss {miss}", sig="geom")
        R.oracle(not extra, "tiles-geom-returns-disjoint-tile", case, f"tiles {res_[0]} include disjoint {extra}", sig="geom")

    # cross-CRS geometry queries (oracle only; footprints through pyproj)
    base = GeoBox((60, 80), Affine(1000, 0, 400000, 0, -1000, 6500000), "EPSG:32633")
    gbt = GeoboxTiles(base, (16, 25))
    for _ in range(R.pick(40, 400)):
        y0, x0 = rng.randint(-20, 70), rng.randint(-20, 90)
        h, w = rng.randint(1, 40), rng.randint(1, 40)
        sub = GeoBox((h, w), base.affine * Affine.translation(x0 + rng.random(), y0 + rng.random()), base.crs)
        q = sub.extent.to_crs("EPSG:4326")
        got = guarded(lambda: idxs_s(sorted(gbt.tiles(q))))
        if got.startswith("ERR"):
            R.oracle(False, "tiles-geom-raises", {"cross": True, "y0": y0, "x0": x0, "h": h, "w": w}, got)
            continue
        qb = q.to_crs(base.crs, resolution=0.001)
        miss = []
        for r, c in np.ndindex(gbt.shape.shape):
            ext = gbt[r, c].extent
            if ext.geom.intersection(qb.geom).area / 1e6 > 0.5 and f"{r};{c}" not in got:
                miss.append((r, c))
        R.oracle(not miss, "tiles-geom-misses-tile", {"cross": True, "y0": y0, "x0": x0, "h": h, "w": w},
                 f"{got} misses {miss}", sig="geom|cross-crs")


# ------------------------------------------------------------------ grid_intersect
def deps_s(d) -> str:
    return list_s([f"{k[0]};{k[1]}={idxs_s(v)}" for k, v in d.items()])


def brute_deps(dst, src, thr, min_span=0.0):
    """tile pairs whose footprints overlap by more than `thr` source px² (same CRS; shapely).
    `min_span` (linear path): the overlap must also be wider and higher than that many source pixels –
    snap_affine moves the grid-to-grid translation by up to 1e-3 source pixel on purpose, thinner
    overlaps are the slivers the property excludes."""
    Sa = src.base.affine
    det = abs(Sa.determinant)
    out = {}
    # footprints from the chunk tuples and the base affine, not from the tile lookup under test
    sext = tile_polys(src)
    dext = tile_polys(dst)
    for d, de in dext.items():
        if de.area == 0:
            continue
        for s, se in sext.items():
            if se.area == 0:
                continue
            inter = de.intersection(se)
            if inter.area / det <= thr:
                continue
            if min_span:
                x0, y0, x1, y1 = inter.bounds
                if (x1 - x0) / abs(Sa.a) <= min_span or (y1 - y0) / abs(Sa.e) <= min_span:
                    continue
            out.setdefault(d, []).append(s)
    return out


def grid_pairs(R: Run, geom, GeoBox, GeoboxTiles, Affine):
    rng = R.rng
    reg, var = axis_specs()
    reg2 = [(N, n) for N in range(2, 13) for n in range(1, 7) if -(-N // n) <= 4]

    def rnd_spec():
        kind = rng.choice("rrv")
        pool = reg2 if kind == "r" else [v for v in var if sum(v) >= 2]
        return (kind, rng.choice(pool), rng.choice(pool))

    def pair_case(dspec, sspec, D, S, tag, exact=True, crs_d="EPSG:3857", crs_s="EPSG:3857", dst=None, src=None, extra=None):
        prebuilt = dst is not None
        dst = dst if dst is not None else mk_gbt(GeoBox, GeoboxTiles, dspec, D, crs_d)
        src = src if src is not None else mk_gbt(GeoBox, GeoboxTiles, sspec, S, crs_s)
        case = {"dspec": dspec, "sspec": sspec, "D": aff_s(D), "S": aff_s(S), "tag": tag, "crs": [crs_d, crs_s]}
        if prebuilt:
            case["derived"] = extra
        res = []

        def f():
            o = dst.grid_intersect(src)
            res.append(o)
            return deps_s(o)

        A = None
        if crs_d == crs_s:
            ar = []

            def fa():
                a = check_linear_of(dst, src)
                ar.append(a)
                return "N" if a is None else aff_s(a)

            line = (f"c12 checklinear {aff_s(S)} {aff_s(D)} {frac_s(TTOL)} {frac_s(STOL)} {frac_s(TOL)} {frac_s(STTOL)}")
            if exact:
                R.corr(line, fa, sig=f"checklinear|{tag}")
            else:
                fa()
            A = ar[0] if ar else None
        if A is not None and exact:
            R.corr(f"c12 linear {gbt_tok(dspec)} {gbt_tok(sspec)} {aff_s(A)}", f, sig=f"linear|{tag}")
            if res:
                want = exact_linear_deps(dst, src, A)
                R.oracle({k: list(v) for k, v in res[0].items()} == want, "grid-intersect-linear-not-exact", case,
                         f"deps {deps_s(res[0])} but exact arithmetic gives {deps_s(want)}", sig=f"linear2|{tag}")
        elif crs_d == crs_s and A is None:
            # general path, same CRS: feed the model with the candidates / shapely verdicts the code sees
            try:
                fp = src.base.extent
                yy, xx = dst.range_from_bbox(fp.boundingbox)
                dc = list(itertools.product(yy, xx))
                df = [bool(fp.disjoint(dst[i].extent)) for i in dc]
                scs, sfs = [], []
                for i, dj in zip(dc, df):
                    if dj:
                        continue
                    ext = dst[i].extent
                    y2, x2 = src.range_from_bbox(ext.boundingbox)
                    sc = list(itertools.product(y2, x2))
                    scs.append(idxs_s(sc))
                    sfs.append(list_s([bool_s(bool(ext.disjoint(src[j].extent))) for j in sc]))
                line = (f"c12 general {idxs_s(dc)} {list_s([bool_s(v) for v in df])} "
                        f"{'|'.join(scs) if scs else '[]'} {'|'.join(sfs) if sfs else '[]'}")
                R.corr(line, f, sig=f"general|{tag}")
                # the same through the model's own candidate ranges: pixel bounding boxes (exact value of the doubles
                # the code floors / ceils) instead of candidate lists
                fpb = dst.base.project(fp.boundingbox.polygon).boundingbox
                exts = [bbox_s(src.base.project(dst[i].extent.boundingbox.polygon).boundingbox) for i, dj in zip(dc, df) if not dj]
                line2 = (f"c12 generalr {gbt_tok(dspec)} {gbt_tok(sspec)} {bbox_s(fpb)} {list_s([bool_s(v) for v in df])} "
                         f"{'|'.join(exts) if exts else '-'} {'|'.join(sfs) if sfs else '-'}")
                R.corr(line2, lambda: deps_s(res[0]) if res else guarded(lambda: deps_s(dst.grid_intersect(src))),
                       sig=f"generalr|{tag}")
            except Exception as e:  # pylint: disable=broad-except
                R.oracle(False, "grid-intersect-raises", case, repr(e))
                return
        else:
            f()
        if not res:
            R.oracle(False, "grid-intersect-raises", case, guarded(lambda: deps_s(dst.grid_intersect(src))))
            return
        deps = res[0]
        if crs_d == crs_s:
            # linear path: snap_affine may move the map by 1e-3 px (translation) + 1e-6 * pixel coordinate (scale)
            slack = 2.5e-3 + 2.5e-6 * max(dst.base.shape) * max(1.0, abs(A.a), abs(A.e)) if A is not None else 0.0
            need = brute_deps(dst, src, 1e-6, slack)
            miss = [(d, s) for d, ss in need.items() for s in ss if s not in deps.get(d, [])]
            R.oracle(not miss, "grid-intersect-misses-dependency", case, f"missing (dst, src) pairs {miss[:6]}",
                     sig=f"deps|{tag}")
            # "do not overlap": no common area on the linear path (touching rasters included); on the
            # general path the code keeps tiles that shapely calls not disjoint, i.e. also tiles that merely
            # touch, so there only rasters without a common point are required to give an empty graph
            if A is not None:
                rasters_overlap = dst.base.extent.geom.intersection(src.base.extent.geom).area > 0
            else:
                rasters_overlap = not dst.base.extent.geom.disjoint(src.base.extent.geom)
            if not rasters_overlap:
                edges = [(d, s) for d, ss in deps.items() for s in ss]
                R.oracle(not edges, "grid-intersect-disjoint-not-empty", case,
                         f"rasters do not overlap but the graph has edges {edges[:6]}", sig=f"disjoint|{tag}")
        return deps

    def dy(lo, hi, den):
        return rng.randint(lo * den, hi * den) / den

    n_iter = R.pick(700, 7000)
    for it in range(n_iter):
        dspec, sspec = rnd_spec(), rnd_spec()
        dny = dspec[1][0] if dspec[0] == "r" else sum(dspec[1])
        dnx = dspec[2][0] if dspec[0] == "r" else sum(dspec[2])
        sny = sspec[1][0] if sspec[0] == "r" else sum(sspec[1])
        snx = sspec[2][0] if sspec[0] == "r" else sum(sspec[2])
        r = rng.random()
        sres = rng.choice([1, 2, 4, 0.5])
        S = Affine(sres, 0, dy(-8, 8, 1) * sres, 0, -sres, dy(-8, 8, 1) * sres)
        if r < 0.18:      # aligned, same resolution, integer pixel shift (overlapping or not)
            D = Affine(sres, 0, S.c + sres * rng.randint(-dnx - 2, snx + 2), 0, -sres, S.f - sres * rng.randint(-dny - 2, sny + 2))
            tag = "aligned"
        elif r < 0.34:    # sub-pixel shift
            D = Affine(sres, 0, S.c + sres * dy(-3, snx, 4), 0, -sres, S.f - sres * dy(-3, sny, 4))
            tag = "subpixel"
        elif r < 0.50:    # scaled by a power of two / integer
            k = rng.choice([2, 4, 0.5, 0.25, 3])
            D = Affine(sres * k, 0, S.c + sres * dy(-2, snx, 2), 0, -sres * k, S.f - sres * dy(-2, sny, 2))
            tag = "scaled"
        elif r < 0.64:    # mirrored in x and / or y
            mx, my = rng.choice([(-1, 1), (1, -1), (-1, -1)])
            D = Affine(sres * mx, 0, S.c + sres * dy(0, snx + 2, 2), 0, -sres * my, S.f - sres * dy(0, sny + 2, 2))
            tag = "mirrored"
        elif r < 0.76:    # touching: destination starts exactly where the source ends
            side = rng.choice("EWNS")
            tx = snx if side == "E" else -dnx if side == "W" else rng.randint(-1, 1)
            ty = sny if side == "S" else -dny if side == "N" else rng.randint(-1, 1)
            D = Affine(sres, 0, S.c + sres * tx, 0, -sres, S.f - sres * ty)
            tag = "touching"
        elif r < 0.88:    # disjoint, near and far
            far = rng.choice([1, 3, 1000])
            tx = rng.choice([snx + far, -dnx - far, 0])
            ty = rng.choice([sny + far, -dny - far]) if tx == 0 else rng.choice([0, sny + far, -dny - far])
            D = Affine(sres, 0, S.c + sres * tx, 0, -sres, S.f - sres * ty)
            tag = "disjoint"
        else:             # rotated -> general path
            ang = rng.choice([1, 5, 30, 45, 90, 137])
            D = Affine.translation(S.c + sres * dy(-1, snx, 2), S.f - sres * dy(-1, sny, 2)) * Affine.rotation(ang) * Affine.scale(sres, -sres)
            pair_case(dspec, sspec, D, S, "rotated", exact=False)
            if rng.random() < 0.3:
                far = Affine.translation(sres * (snx + dnx + dny + 50), 0) * D
                pair_case(dspec, sspec, far, S, "rotated-disjoint", exact=False)
            continue
        pair_case(dspec, sspec, D, S, tag)

    # the SAME GeoBox cut into different tilings (the re-chunk case), both directions: regular vs regular of another
    # size, equal tile counts with different sizes, regular vs variable
    def rnd_axis(N, kind):
        if kind == "r":
            return (N, rng.randint(1, N + 1))
        cuts = sorted(rng.sample(range(1, N), min(N - 1, rng.randint(0, 3)))) if N > 1 else []
        ch = [b_ - a_ for a_, b_ in zip([0] + cuts, cuts + [N])]
        if rng.random() < 0.3:
            ch.insert(rng.randint(0, len(ch)), 0)
        return tuple(ch)

    def same_count_axis(N):
        """two regular tile sizes giving the same number of tiles"""
        opts = {}
        for n in range(1, N + 1):
            opts.setdefault(-(-N // n), []).append(n)
        multi = [v for v in opts.values() if len(v) > 1]
        if not multi:
            return (N, 1), (N, 1)
        v = rng.choice(multi)
        n1, n2 = rng.sample(v, 2)
        return (N, n1), (N, n2)

    for _ in range(R.pick(250, 2500)):
        NY, NX = rng.randint(2, 14), rng.randint(2, 14)
        res = rng.choice([1, 2, 0.5, 10])
        G = Affine(res, 0, rng.randint(-20, 20) * res, 0, -res, rng.randint(-20, 20) * res)
        r = rng.random()
        if r < 0.4:
            (ay, by), (ax_, bx_) = same_count_axis(NY), same_count_axis(NX)
            dspec, sspec = ("r", ay, ax_), ("r", by, bx_)
        elif r < 0.7:
            dspec, sspec = ("r", rnd_axis(NY, "r"), rnd_axis(NX, "r")), ("r", rnd_axis(NY, "r"), rnd_axis(NX, "r"))
        else:
            dspec, sspec = ("r", rnd_axis(NY, "r"), rnd_axis(NX, "r")), ("v", rnd_axis(NY, "v"), rnd_axis(NX, "v"))
        pair_case(dspec, sspec, G, G, "same-geobox")
        pair_case(sspec, dspec, G, G, "same-geobox")
    # large same-GeoBox re-chunk (as in dask re-chunking): 1100 px in 400 px vs 500 px tiles and the like
    for _ in range(R.pick(10, 100)):
        NY, NX = rng.choice([1100, 2048, 999, 4097]), rng.choice([1100, 3000, 777])
        (ay, by), (ax_, bx_) = same_count_axis(NY), same_count_axis(NX)
        if -(-NY // ay[1]) > 6 or -(-NX // ax_[1]) > 6:
            ay, by, ax_, bx_ = (NY, 400), (NY, 500), (NX, 400), (NX, 500)
        G = Affine(10, 0, 500000, 0, -10, 6000000)
        pair_case(("r", ay, ax_), ("r", by, bx_), G, G, "same-geobox-large", exact=False)

    # DERIVED tilings (crop / clip not starting at tile 0) on either side of grid_intersect
    from odc.geo import roi as Rm

    for _ in range(R.pick(150, 1500)):
        dv = derive(R, Rm, GeoBox, GeoboxTiles, Affine, rng)
        if dv is None:
            continue
        g2, parent, dcase = dv
        other = parent
        if rng.random() < 0.5:
            ospec = rnd_spec()
            pa = parent.base.affine
            other = mk_gbt(GeoBox, GeoboxTiles, ospec,
                           Affine(pa.a, 0, pa.c + pa.a * rng.randint(-3, 6), 0, pa.e, pa.f + pa.e * rng.randint(-3, 6)))
        for dd, ss in ((g2, other), (other, g2)):
            pair_case(spec_of(dd), spec_of(ss), dd.base.affine, ss.base.affine, "derived-" + dcase["how"], dst=dd, src=ss,
                      extra=dcase)

    # the replay of finding F15
    pair_case(("r", (20, 10), (20, 10)), ("r", (20, 10), (20, 10)), Affine(1, 0, 0, 0, -1, 20), Affine(1, 0, 1000, 0, -1, 20), "disjoint")

    # float stream: arbitrary realistic doubles (oracle only)
    for _ in range(R.pick(150, 1500)):
        dspec, sspec = rnd_spec(), rnd_spec()
        res = rng.choice([30.0, 10.0, 0.00025, 1 / 3, 100.0])
        ox, oy = rng.uniform(-1e6, 1e6), rng.uniform(-1e6, 1e6)
        S = Affine(res, 0, ox, 0, -res, oy)
        k = rng.choice([1, 1, 2, 3, 0.5, 1.5])
        def shift():
            if rng.random() < 0.5:
                return rng.uniform(-6, 10)
            # a hair away from whole source pixels / the snapping tolerance of 1e-3 px
            return rng.randint(-6, 10) + rng.choice([0, 1e-6, 1e-9, 1e-11, 9e-4, 1.1e-3, 2.0**-40, 0.5 - 1e-9]) * rng.choice([1, -1])

        D = Affine(res * k, 0, ox + res * shift(), 0, -res * k, oy - res * shift())
        pair_case(dspec, sspec, D, S, "float", exact=False)

    # large rasters (>= 20000 px, a few tiles per side) whose pixel sizes differ by k * (1 +- eps): a tolerance change in
    # the linear test moves the far edge tiles by many pixels; judged by the brute-force footprint oracle
    for _ in range(R.pick(60, 600)):
        Ns = [rng.choice([20000, 24000, 30011, 65536]) for _ in range(4)]
        dspec = ("r", (Ns[0], Ns[0] // rng.randint(3, 5) + rng.randint(0, 7)), (Ns[1], Ns[1] // rng.randint(3, 5) + rng.randint(0, 7)))
        sspec = ("r", (Ns[2], Ns[2] // rng.randint(3, 5) + rng.randint(0, 7)), (Ns[3], Ns[3] // rng.randint(3, 5) + rng.randint(0, 7)))
        res = rng.choice([10.0, 30.0, 0.00025, 100.0, 1.0])
        ox, oy = rng.choice([0.0, 500000.0, rng.uniform(-1e6, 1e6)]), rng.choice([0.0, 6000000.0, rng.uniform(-1e6, 1e6)])
        S = Affine(res, 0, ox, 0, -res, oy)
        eps = rng.choice([1e-2, 1e-3, 8e-4, 5e-4, 1e-4, 1e-5, 2e-6, 1e-6, 5e-7, 0.0]) * rng.choice([1, -1])
        k = rng.choice([1, 1, 1, 2, 3, 0.5])
        kx, ky = k * (1 + eps), k * (1 + (eps if rng.random() < 0.7 else 0.0))
        sh = rng.choice([0, 0, rng.randint(-50, 50), rng.uniform(-50, 50)])
        D = Affine(res * kx, 0, ox + res * sh, 0, -res * ky, oy - res * sh)
        pair_case(dspec, sspec, D, S, "large-scale-ratio", exact=False)

    # cross-CRS pairs (oracle only, 0.5 px² threshold; footprints through pyproj)
    utm = GeoBox((64, 80), Affine(1000, 0, 400000, 0, -1000, 6500000), "EPSG:32633")
    for _ in range(R.pick(6, 40)):
        sub = utm[rng.randint(0, 20):rng.randint(30, 64), rng.randint(0, 20):rng.randint(40, 80)]
        ll = GeoBox.from_bbox(sub.extent.to_crs("EPSG:4326").boundingbox, resolution=0.02, tight=True)
        dst, src = GeoboxTiles(ll, (16, 16)), GeoboxTiles(utm, (20, 32))
        case = {"cross": True, "sub": str(sub.shape), "aff": aff_s(sub.affine)}
        deps = guarded(lambda: dst.grid_intersect(src))
        if isinstance(deps, str):
            R.oracle(False, "grid-intersect-raises", case, deps)
            continue
        miss = []
        for d in np.ndindex(dst.shape.shape):
            de = dst[d].extent.to_crs(utm.crs, resolution=0.001).geom
            for s in np.ndindex(src.shape.shape):
                if de.intersection(src[s].extent.geom).area / 1e6 > 0.5 and s not in deps.get(d, []):
                    miss.append((d, s))
        R.oracle(not miss, "grid-intersect-misses-dependency", case, f"missing {miss[:6]}", sig="deps|cross-crs")
    # cross-CRS, rasters far apart: empty graph, no error
    far = GeoBox((40, 40), Affine(0.01, 0, -70.0, 0, -0.01, -30.0), "EPSG:4326")
    deps = guarded(lambda: GeoboxTiles(far, (16, 16)).grid_intersect(GeoboxTiles(utm, (20, 32))))
    R.oracle(isinstance(deps, dict) and not any(deps.values()), "grid-intersect-disjoint-not-empty",
             {"cross": True, "far": True}, f"{deps}", sig="disjoint|cross-crs")
    deps = guarded(lambda: GeoboxTiles(utm, (20, 32)).grid_intersect(GeoboxTiles(far, (16, 16))))
    R.oracle(isinstance(deps, dict) and not any(deps.values()), "grid-intersect-disjoint-not-empty",
             {"cross": True, "far": True, "swapped": True}, f"{deps}", sig="disjoint|cross-crs")



# ------------------------------------------------------------------ many kinds of CRS: queries and dependency graphs
# (native CRS of the raster, bounding box in that CRS, pixel size, other CRSs that are valid over the area)
REGIONS = [
    ("EPSG:32755", (300000, 5200000, 620000, 5500000), 500, ["EPSG:4326", "EPSG:4283", "EPSG:3577", "EPSG:3857"]),
    ("EPSG:3577", (800000, -4300000, 1700000, -3700000), 2000, ["EPSG:4326", "EPSG:4283", "EPSG:3857", "EPSG:32755"]),
    ("EPSG:4283", (140, -39, 150, -33), 0.02, ["EPSG:4326", "EPSG:3577", "EPSG:3857", "EPSG:4283"]),
    ("EPSG:4326", (141, -38, 149, -34), 0.02, ["EPSG:4283", "EPSG:3577", "EPSG:3857"]),
    ("EPSG:32633", (400000, 6400000, 500000, 6500000), 250, ["EPSG:4326", "EPSG:4258", "EPSG:3857", "EPSG:3035"]),
    ("EPSG:4258", (5, 45, 15, 52), 0.02, ["EPSG:4326", "EPSG:3035", "EPSG:3857", "EPSG:32632"]),
    ("EPSG:3035", (4000000, 2500000, 4600000, 3100000), 1500, ["EPSG:4258", "EPSG:4326", "EPSG:3857"]),
    ("EPSG:4269", (-100, 35, -90, 42), 0.02, ["EPSG:4326", "EPSG:5070", "EPSG:3857"]),
    ("EPSG:5070", (-500000, 1200000, 300000, 1900000), 2000, ["EPSG:4269", "EPSG:4326", "EPSG:3857"]),
    ("EPSG:4612", (135, 33, 141, 38), 0.02, ["EPSG:4326", "EPSG:3857", "EPSG:32653"]),
    ("EPSG:3031", (300000, 300000, 900000, 800000), 2000, ["EPSG:4326"]),
    ("EPSG:3413", (-600000, -1500000, 200000, -800000), 2500, ["EPSG:4326"]),
    ("EPSG:3857", (16000000, -4600000, 16800000, -4000000), 2000, ["EPSG:4326", "EPSG:4283", "EPSG:3577"]),
]
# lon / lat boxes far larger than any of the rasters (continental scale), partly outside the valid area of the
# projected CRSs (some vertices have no finite image there)
BIG_BOXES = [(60, -50, 160, 0), (-30, 30, 60, 72), (-130, 20, -60, 55), (100, 20, 160, 50), (110, -45, 155, -10),
             (-10, 35, 30, 60), (90, -60, 179, -5), (-20, 25, 70, 70)]
# boxes of (nearly) global extent or containing a pole: the vertex-wise reprojection of odc-geo cannot represent them in
# most projected CRSs; evaluated only while `known_findings.json` carries the entry (see GLOBAL_KEY)
GLOBAL_BOXES = [(-180, -90, 180, -55), (-180, 55, 180, 90), (-180, -85, 180, 85), (-170, -80, 170, 80), (-179, -60, 179, 60)]
GLOBAL_KEY = "tiles-query-global-box"


_TR_CACHE = {}


def shared_transformer(a, b):
    """one pyproj Transformer per ordered CRS pair for the whole run (constructing one costs 10-20 ms); built straight
    from the CRS definitions by pyproj, never through odc.geo.crs"""
    from pyproj import CRS as PCRS
    from pyproj import Transformer

    k = (str(a), str(b))
    t = _TR_CACHE.get(k)
    if t is None:
        t = _TR_CACHE[k] = Transformer.from_crs(PCRS.from_user_input(k[0]), PCRS.from_user_input(k[1]), always_xy=True)
    return t


# the REGIONS by kind of CRS: the quick tier treats one region of every kind per seed (plus two more), thorough all
REGION_KINDS = {"utm": ("EPSG:32755", "EPSG:32633"), "conic": ("EPSG:3577", "EPSG:3035", "EPSG:5070"),
                "geographic": ("EPSG:4283", "EPSG:4258", "EPSG:4269", "EPSG:4612"), "wgs84": ("EPSG:4326",),
                "polar": ("EPSG:3031", "EPSG:3413"), "mercator": ("EPSG:3857",)}


def regions_for(R):
    if not R.quick:
        return list(REGIONS)
    rng = R.rng
    by = {g[0]: g for g in REGIONS}
    pick = [by[rng.choice(v)] for v in REGION_KINDS.values()]
    rest = [g for g in REGIONS if g not in pick]
    pick += rng.sample(rest, 1)
    return [g for g in REGIONS if g in pick]


def _tile_probe_points(gbt, idx, k=3):
    """interior points of a tile in world coordinates (centre and an inner k x k lattice)"""
    y0, y1, x0, x1 = tile_rects(gbt)[idx]
    A = gbt.base.affine
    pts = []
    for fy in np.linspace(0.2, 0.8, k):
        for fx in np.linspace(0.2, 0.8, k):
            pts.append(A * (x0 + fx * (x1 - x0), y0 + fy * (y1 - y0)))
    return pts


def crs_kinds_stream(R: Run, geom, GeoBox, GeoboxTiles, Affine):
    import shapely.geometry as sg
    from pyproj import Transformer

    rng = R.rng
    BoundingBox = geom.BoundingBox

    def tr(a, b):
        return shared_transformer(a, b)

    def mk(region, shrink=1.0, shift=(0.0, 0.0), tile=None):
        crs, (l, b, r, t), res, _ = region
        w, h = (r - l), (t - b)
        cx, cy = (l + r) / 2 + shift[0] * w, (b + t) / 2 + shift[1] * h
        box = BoundingBox(cx - w * shrink / 2, cy - h * shrink / 2, cx + w * shrink / 2, cy + h * shrink / 2, crs)
        gb = GeoBox.from_bbox(box, resolution=res)
        ny, nx = gb.shape
        tile = tile or (max(1, ny // rng.randint(2, 4) + 1), max(1, nx // rng.randint(2, 4) + 1))
        return GeoboxTiles(gb, tile)

    n_q = R.pick(2, 12)
    for region in regions_for(R):
        crs, _box, _res, others = region
        crs_churn(rng, 30)
        gbt = mk(region)
        rects = tile_rects(gbt)
        held = []
        # ---- tile queries in other CRSs: inside, straddling, larger than the raster, far larger (BIG_BOXES), outside
        queries = []
        for oc in others + ["EPSG:4326"]:
            t = tr(crs, oc)
            ext = gbt.base.extent
            l, b, r, tt_ = ext.boundingbox.bbox
            for _k in range(n_q):
                f = rng.choice([0.3, 0.6, 1.0, 1.5, 3.0])
                cx, cy = rng.uniform(l, r), rng.uniform(b, tt_)
                ww, hh = (r - l) * f / 2, (tt_ - b) * f / 2
                corners = [(cx - ww, cy - hh), (cx + ww, cy - hh), (cx + ww, cy + hh), (cx - ww, cy + hh)]
                pts = [t.transform(x, y) for x, y in corners]
                if not all(math.isfinite(v) for p in pts for v in p):
                    continue
                qb = sg.Polygon(pts)
                if not qb.is_valid or qb.area == 0:
                    continue
                queries.append((geom.Geometry(qb, oc), f"poly {oc} f={f}"))
                queries.append((geom.Geometry(qb, oc).boundingbox, f"bbox {oc} f={f}"))
        for bb in BIG_BOXES:
            gcrs = rng.choice(["EPSG:4326"] + [o for o in others if o in ("EPSG:4283", "EPSG:4258", "EPSG:4269", "EPSG:4612")])
            q = BoundingBox(*bb, gcrs)
            queries.append((q, f"big bbox {gcrs} {bb}"))
            queries.append((q.polygon, f"big poly {gcrs} {bb}"))
        if R.match_known(GLOBAL_KEY) is not None:
            for bb in GLOBAL_BOXES:
                q = BoundingBox(*bb, "EPSG:4326")
                queries += [(q, f"global bbox EPSG:4326 {bb}"), (q.polygon, f"global poly EPSG:4326 {bb}")]
        else:
            R.count("skipped:global-box-queries(no known-finding entry)")
        to_q = {}
        for q, label in queries:
            qcrs = str(q.crs)
            qpoly = (q.polygon if isinstance(q, BoundingBox) else q).geom
            case = {"raster": crs, "shape": list(gbt.base.shape), "query": label,
                    "wkt": qpoly.wkt[:300]}
            got = guarded(lambda: sorted(gbt.tiles(q)))
            if isinstance(got, str):
                R.oracle(False, GLOBAL_KEY if label.startswith("global") else "tiles-query-raises", case,
                         f"tiles() raised {got} instead of returning the intersecting tiles",
                         sig="query-raises|" + label.split(" ")[0])
                continue
            held.append((label, case, got, list(got)))
            # oracle: a tile with an interior probe point strictly inside the query has to be returned.  odc-geo
            # re-projects a query vertex by vertex, so "inside" is required in both readings: inside the polygon as
            # drawn in its own CRS and inside the polygon through the projected vertices (those with a finite image)
            if qcrs not in to_q:
                to_q[qcrs] = (tr(crs, qcrs), tr(qcrs, crs))
            inner = qpoly.buffer(-1e-6 * math.sqrt(qpoly.area))
            vpts = [to_q[qcrs][1].transform(x, y) for x, y in list(qpoly.exterior.coords)[:-1]] if qcrs != crs else \
                list(qpoly.exterior.coords)[:-1]
            vpts = [p_ for p_ in vpts if math.isfinite(p_[0]) and math.isfinite(p_[1])]
            if len(vpts) < 3:
                continue
            chord = sg.Polygon(vpts)
            if not chord.is_valid:
                chord = chord.buffer(0)
            if chord.is_empty or chord.area == 0:
                continue
            chord_in = chord.buffer(-1e-6 * math.sqrt(chord.area))
            miss = []
            for idx in rects:
                for (wx, wy) in _tile_probe_points(gbt, idx, 2):
                    px, py = to_q[qcrs][0].transform(wx, wy) if qcrs != crs else (wx, wy)
                    if (math.isfinite(px) and math.isfinite(py) and inner.contains(sg.Point(px, py))
                            and chord_in.contains(sg.Point(wx, wy)) and idx not in got):
                        miss.append(idx)
                        break
            key = GLOBAL_KEY if label.startswith("global") else "tiles-geom-misses-tile"
            R.oracle(not miss, key, case, f"tiles {got} miss {miss}: their interior lies inside the query",
                     sig="geom|crs-kinds|" + label.split(" ")[0])
        for label, case, live, snap in held:
            R.oracle(live == snap, "result-mutated-by-later-call", case, f"tiles() result of query {label} changed afterwards",
                     sig="held", trivial=True)

        # ---- dependency graphs against rasters in the other CRSs (both directions), overlapping and far away
        for oc in others:
            oreg = next((g for g in REGIONS if g[0] == oc), None)
            t = tr(crs, oc)
            l, b, r, tt_ = gbt.base.extent.boundingbox.bbox
            shiftx, shifty = rng.choice([0, 0.3, -0.4]), rng.choice([0, 0.25, -0.3])
            cs = [t.transform(x + shiftx * (r - l), y + shifty * (tt_ - b)) for x in (l, r) for y in (b, tt_)]
            if not all(math.isfinite(v) for p in cs for v in p):
                continue
            xs_, ys_ = [p[0] for p in cs], [p[1] for p in cs]
            span = max(max(xs_) - min(xs_), max(ys_) - min(ys_))
            ores = oreg[2] if oreg else span / 150
            if span / ores > 400:
                ores = span / 300
            other = GeoBox.from_bbox(BoundingBox(min(xs_), min(ys_), max(xs_), max(ys_), oc), resolution=ores)
            ogbt = GeoboxTiles(other, (max(1, other.shape[0] // 3 + 1), max(1, other.shape[1] // 3 + 2)))
            for dst, src, dname in ((gbt, ogbt, f"{crs}<-{oc}"), (ogbt, gbt, f"{oc}<-{crs}")):
                case = {"dst": str(dst.base.crs), "src": str(src.base.crs), "dst_shape": list(dst.base.shape),
                        "src_shape": list(src.base.shape), "dst_aff": aff_s(dst.base.affine), "src_aff": aff_s(src.base.affine)}
                deps = guarded(lambda: dst.grid_intersect(src))
                if isinstance(deps, str):
                    R.oracle(False, "grid-intersect-raises", case, f"grid_intersect raised {deps} instead of returning the graph",
                             sig="deps-raises|" + dname)
                    continue
                snap = {k: list(v) for k, v in deps.items()}
                d2s = tr(str(dst.base.crs), str(src.base.crs))
                srect = tile_rects(src)
                sny, snx = src.base.shape
                invS = ~src.base.affine
                miss = []
                drect = tile_rects(dst)
                DA = dst.base.affine

                def to_src_px(x, y):
                    sx_, sy_ = d2s.transform(*(DA * (x, y)))
                    return invS * (sx_, sy_) if math.isfinite(sx_) and math.isfinite(sy_) else (math.nan, math.nan)

                for didx, (y0, y1, x0, x1) in drect.items():
                    if y0 == y1 or x0 == x1:
                        continue
                    # the code projects the four corners of the tile only: allow for the sag of its curved edges
                    cs = [(x0, y0), (x1, y0), (x1, y1), (x0, y1)]
                    sag = 0.0
                    for (ax, ay), (bx, by) in zip(cs, cs[1:] + cs[:1]):
                        pa, pb, pm = to_src_px(ax, ay), to_src_px(bx, by), to_src_px((ax + bx) / 2, (ay + by) / 2)
                        sag = max(sag, math.hypot(pm[0] - (pa[0] + pb[0]) / 2, pm[1] - (pa[1] + pb[1]) / 2))
                    if not math.isfinite(sag):
                        continue
                    mg = 2 + 2 * sag
                    for (wx, wy) in _tile_probe_points(dst, didx, 3):
                        sx_, sy_ = d2s.transform(wx, wy)
                        if not (math.isfinite(sx_) and math.isfinite(sy_)):
                            continue
                        px, py = invS * (sx_, sy_)
                        if not (mg <= px <= snx - mg and mg <= py <= sny - mg):
                            continue
                        for sidx, (a0, a1, b0, b1) in srect.items():
                            if a0 + mg <= py <= a1 - mg and b0 + mg <= px <= b1 - mg and sidx not in deps.get(didx, []):
                                miss.append((didx, sidx))
                R.oracle(not miss, "grid-intersect-misses-dependency", case,
                         f"interior points of dst tiles fall well inside src tiles that are not listed: {sorted(set(miss))[:6]}",
                         sig="deps|crs-kinds|" + dname)
                again = guarded(lambda: dst.grid_intersect(src)) if (not R.quick or rng.random() < 0.34) else snap
                R.oracle(deps == snap and again == snap, "result-mutated-by-later-call", case,
                         "grid_intersect result changed after / differs on a second call", sig="held", trivial=True)
            # far away raster in the other CRS (another region using that CRS, if any): empty graph, no error
            for freg in REGIONS:
                if freg[0] != oc or freg is oreg and False:
                    continue
                fgbt = mk(freg)
                if fgbt.base.extent.to_crs("EPSG:4326").intersects(gbt.base.extent.to_crs("EPSG:4326")):
                    continue
                for dst, src in ((gbt, fgbt), (fgbt, gbt)):
                    case = {"dst": str(dst.base.crs), "src": str(src.base.crs), "far": True,
                            "dst_aff": aff_s(dst.base.affine), "src_aff": aff_s(src.base.affine)}
                    deps = guarded(lambda: dst.grid_intersect(src))
                    if isinstance(deps, str):
                        R.oracle(False, "grid-intersect-raises", case, f"raised {deps} for rasters that do not overlap",
                                 sig="deps-raises|far")
                    else:
                        R.oracle(not any(deps.values()), "grid-intersect-disjoint-not-empty", case, f"{str(deps)[:200]}",
                                 sig="disjoint|crs-kinds")
    # rasters on different continents, every pair of regions
    gb_all = [mk(g) for g in REGIONS]
    ll = [g.base.extent.to_crs("EPSG:4326") for g in gb_all]
    for i, j in itertools.permutations(range(len(REGIONS)), 2):
        if rng.random() > R.pick(0.25, 1.0) or ll[i].intersects(ll[j]):
            continue
        case = {"dst": REGIONS[i][0], "src": REGIONS[j][0], "far": True}
        deps = guarded(lambda: gb_all[i].grid_intersect(gb_all[j]))
        if isinstance(deps, str):
            R.oracle(False, "grid-intersect-raises", case, f"raised {deps} for rasters that do not overlap", sig="deps-raises|far")
        else:
            R.oracle(not any(deps.values()), "grid-intersect-disjoint-not-empty", case, f"{str(deps)[:200]}", sig="disjoint|crs-kinds")



# ------------------------------------------------------------------ cross-CRS queries with long curved edges
CURVED_RASTERS = [
    # (CRS, origin x, origin y, pixel size, pixels per side, tile size, lon range, lat range of usable query vertices)
    ("EPSG:3577", -2_000_000, -1_000_000, 1000, 4096, 64, (112, 154), (-42, -10)),
    ("EPSG:5070", -2_300_000, 3_200_000, 1000, 4096, 64, (-122, -72), (25, 49)),
    ("EPSG:3035", 2_500_000, 5_400_000, 1000, 4096, 64, (-10, 40), (36, 70)),
    ("EPSG:32633", -500_000, 7_800_000, 1000, 3072, 48, (3, 27), (40, 68)),
    ("EPSG:32755", -300_000, 9_500_000, 1000, 3072, 48, (135, 159), (-45, -12)),
    ("EPSG:3857", 12_300_000, -900_000, 1000, 4096, 64, (112, 146), (-40, -10)),
]


def curved_queries(R: Run, geom, GeoBox, GeoboxTiles, Affine):
    """Triangles, thin diagonal polygons and large boxes given in EPSG:4326 against continental rasters in conic /
    azimuthal / transverse CRSs with tiles that are small compared with the bulge of the projected outline.  odc-geo maps
    a query vertex by vertex, so the reference is the polygon through the pyproj images of the vertices: every tile that
    overlaps it, or contains a point sampled densely along its outline / interior, has to be returned, and no tile
    away from it."""
    import shapely
    import shapely.geometry as sg
    from pyproj import Transformer

    rng = R.rng
    for (crs, x0, y0, res, n, tile, lon_r, lat_r) in CURVED_RASTERS:
        gb = GeoBox((n, n), Affine(res, 0, x0, 0, -res, y0), crs)
        gbt = GeoboxTiles(gb, (tile, tile))
        T = -(-n // tile)
        tr = Transformer.from_crs("EPSG:4326", crs, always_xy=True)
        ii, jj = np.meshgrid(np.arange(T), np.arange(T), indexing="ij")
        bx0 = x0 + res * jj * tile
        bx1 = np.minimum(x0 + res * (jj + 1) * tile, x0 + res * n)
        by1 = y0 - res * ii * tile
        by0 = np.maximum(y0 - res * (ii + 1) * tile, y0 - res * n)
        boxes = shapely.box(bx0, by0, bx1, by1)

        def rl():
            return rng.uniform(*lon_r), rng.uniform(*lat_r)

        for k in range(R.pick(5, 40)):
            kind = k % 4
            lo0, lo1 = sorted((rng.uniform(*lon_r), rng.uniform(*lon_r)))
            la0, la1 = sorted((rng.uniform(*lat_r), rng.uniform(*lat_r)))
            if lo1 - lo0 < 8:
                lo0, lo1 = lon_r[0] + 2, lon_r[1] - 2
            if la1 - la0 < 4:
                la0, la1 = lat_r[0] + 1, lat_r[1] - 1
            if kind == 0:      # triangle whose apex sits over the middle of a long parallel edge
                up = rng.random() < 0.5
                pts = [(lo0, la0 if up else la1), (lo1, la0 if up else la1), ((lo0 + lo1) / 2 + rng.uniform(-2, 2), la1 if up else la0)]
            elif kind == 1:    # thin diagonal sliver
                w = rng.uniform(0.3, 1.5)
                pts = [(lo0, la0), (lo0 + w, la0), (lo1, la1), (lo1 - w, la1)]
            elif kind == 2:    # large box (as polygon or as BoundingBox)
                pts = [(lo0, la0), (lo1, la0), (lo1, la1), (lo0, la1)]
            else:              # flat wide triangle / random triangle
                pts = [(lo0, la0), (lo1, la0 + rng.uniform(0, 1)), ((lo0 + lo1) / 2, la0 + rng.uniform(2, 6))]
            qp = sg.Polygon(pts)
            if not qp.is_valid or qp.area == 0:
                continue
            as_bbox = kind == 2 and rng.random() < 0.5
            q = geom.BoundingBox(lo0, la0, lo1, la1, "EPSG:4326") if as_bbox else geom.Geometry(qp, "EPSG:4326")
            verts = [(lo0, la0), (lo0, la1), (lo1, la1), (lo1, la0)] if as_bbox else list(qp.exterior.coords)[:-1]
            wv = [tr.transform(x, y) for x, y in verts]
            if not all(math.isfinite(v) for p_ in wv for v in p_):
                continue
            chord = sg.Polygon(wv)
            if not chord.is_valid or chord.area == 0:
                continue
            case = {"raster": crs, "tile": tile, "n": n, "lonlat": [[round(x, 6), round(y, 6)] for x, y in verts], "as_bbox": as_bbox}
            got = guarded(lambda: set(gbt.tiles(q)))
            if isinstance(got, str):
                R.oracle(False, "tiles-query-raises", case, f"tiles() raised {got}", sig="curved-raises")
                continue
            area = shapely.area(shapely.intersection(boxes, chord)) / (res * res)
            need = {(int(i), int(j)) for i, j in zip(*np.nonzero(area > 1e-3))}
            # points sampled densely along the outline (pulled 0.05 px inwards) and in the interior
            inner = chord.buffer(-0.05 * res)
            samples = []
            if not inner.is_empty:
                bd = inner.boundary
                samples += [bd.interpolate(t_, normalized=True) for t_ in np.linspace(0, 1, 800, endpoint=False)]
                bx = chord.bounds
                cand = [sg.Point(rng.uniform(bx[0], bx[2]), rng.uniform(bx[1], bx[3])) for _ in range(300)]
                samples += [p_ for p_ in cand if inner.contains(p_)]
            for p_ in samples:
                px, py = (p_.x - x0) / res, (y0 - p_.y) / res
                fx, fy = px - math.floor(px), py - math.floor(py)
                if 0 <= px < n and 0 <= py < n and min(fx, 1 - fx, fy, 1 - fy) > 0.02:
                    need.add((int(py // tile), int(px // tile)))
            miss = sorted(need - got)
            R.oracle(not miss, "tiles-geom-misses-tile", case,
                     f"{len(miss)} tiles overlapping the projected query are not returned, e.g. {miss[:6]} ({len(got)} returned)",
                     sig=f"curved|{crs}|{kind}")
            far = shapely.distance(boxes, chord) > 1e-6 * res
            extra = sorted(t_ for t_ in got if far[t_[0], t_[1]])
            R.oracle(not extra, "tiles-geom-returns-disjoint-tile", case, f"returned tiles away from the query: {extra[:6]}",
                     sig=f"curved-extra|{crs}")



# ------------------------------------------------------------------ long-lived process: CRS churn
def _crs_specs():
    """a few hundred distinct CRS definitions: every UTM zone (several datums), national grids, custom proj strings"""
    specs = [f"EPSG:{c}" for c in list(range(32601, 32661)) + list(range(32701, 32761))]
    specs += [f"EPSG:{c}" for c in list(range(25828, 25839)) + list(range(26901, 26924)) + list(range(32201, 32261))]
    specs += [f"EPSG:{c}" for c in (27700, 2154, 3035, 3577, 28355, 28356, 2193, 3111, 5070, 3005, 3347, 3978, 2056, 21781,
                                   31467, 3006, 3067, 5514, 2180, 3763, 2100, 23030, 3112, 7855, 7856, 6933, 8857, 3832,
                                   3413, 3031, 3976, 4283, 4269, 4258, 4612, 4326, 3857, 4674, 4148, 4167)]
    specs += [f"+proj=tmerc +lat_0=0 +lon_0={lon} +k=0.9996 +x_0=500000 +y_0={y0} +datum=WGS84 +units=m +no_defs"
              for lon in range(-177, 180, 5) for y0 in (0, 10000000)]
    specs += [f"+proj=laea +lat_0={lat} +lon_0={lon} +datum=WGS84 +units=m +no_defs" for lat in (-60, -20, 30, 55)
              for lon in (-100, -30, 20, 80, 140)]
    return specs


def crs_churn(rng, n=None):
    """what a long running process does: normalise many distinct CRSs through odc.geo.crs, drop them, collect garbage"""
    import gc

    from odc.geo.crs import CRS

    specs = _crs_specs()
    if n is not None:
        specs = rng.sample(specs, min(n, len(specs)))
    k = 0
    for sp in specs:
        try:
            c = CRS(sp)
            _ = (c.epsg, c.units, str(c))
            k += 1
        except Exception:  # pylint: disable=broad-except
            pass  # definition not in this PROJ database
    gc.collect()
    return k


def _utm_like_query(spec):
    """a 200 km box that is valid in transverse-mercator-like CRSs with a 500 km false easting"""
    south = ("+y_0=10000000" in spec) or (spec.startswith("EPSG:327"))
    y0 = 8_000_000 if south else 1_000_000
    return (400_000, y0, 600_000, y0 + 200_000)


def crs_churn_stream(R: Run, geom, GeoBox, GeoboxTiles, Affine):
    """Cross-CRS answers must not depend on how many other CRSs the process has seen.  After normalising several hundred
    CRSs (twice, with gc in between) a world raster is queried with a small box in each of ~250 transverse-mercator CRSs
    and dependency graphs from UTM rasters are built; the reference uses a fresh pyproj Transformer made from the CRS
    definition itself (never odc.geo.crs): must-tiles (positive overlap with the polygon through the projected vertices)
    have to be returned, and nothing that does not touch it."""
    import gc

    import shapely
    import shapely.geometry as sg
    from pyproj import CRS as PCRS
    from pyproj import Transformer

    rng = R.rng
    n_seen = crs_churn(rng)
    R.count("crs-churn:normalised", n_seen)
    worlds = []
    for (crs, box, res, tile) in (("EPSG:3857", (-20e6, -10e6, 20e6, 10e6), 100_000, (10, 10)),
                                  ("EPSG:4326", (-180, -85, 180, 85), 1.0, (9, 10))):
        gb = GeoBox.from_bbox(geom.BoundingBox(*box, crs), resolution=res)
        gbt = GeoboxTiles(gb, tile)
        rects = tile_rects(gbt)
        keys = list(rects)
        A = gb.affine
        xs0 = np.array([A.c + A.a * rects[k][2] for k in keys])
        xs1 = np.array([A.c + A.a * rects[k][3] for k in keys])
        ys0 = np.array([A.f + A.e * rects[k][1] for k in keys])
        ys1 = np.array([A.f + A.e * rects[k][0] for k in keys])
        worlds.append((crs, gbt, keys, shapely.box(xs0, ys0, xs1, ys1), abs(A.a * A.e)))
    # near-global rasters whose footprint, padded by the 2 pixels grid_intersect adds, stays inside the CRS's valid area
    hemis = [GeoboxTiles(GeoBox.from_bbox(geom.BoundingBox(-19e6, -9e6, 19e6, 9e6, "EPSG:3857"), resolution=100_000), (10, 10)),
             GeoboxTiles(GeoBox.from_bbox(geom.BoundingBox(-175, -80, 175, 80, "EPSG:4326"), resolution=1.0), (9, 10))]
    tm = [sp for sp in _crs_specs() if "+proj=tmerc" in sp or sp.startswith(("EPSG:326", "EPSG:327", "EPSG:258", "EPSG:269", "EPSG:322"))]
    for round_no in range(2):
        order = tm[:]
        rng.shuffle(order)
        if R.quick:
            order = order[: 110]
        for i, sp in enumerate(order):
            if i % 40 == 39:
                crs_churn(rng, 60)
            try:
                pc = PCRS.from_user_input(sp)
            except Exception:  # pylint: disable=broad-except
                continue
            bbox = _utm_like_query(sp)
            wcrs, gbt, keys, boxes, pixarea = worlds[(i + round_no) % 2]
            case = {"query_crs": sp, "bbox": list(bbox), "raster": wcrs, "round": round_no, "seen_before": n_seen}
            q = geom.box(*bbox, sp) if i % 3 else geom.BoundingBox(*bbox, sp)
            got = guarded(lambda: set(gbt.tiles(q)))
            if isinstance(got, str):
                R.oracle(False, "tiles-query-raises", case, f"tiles() raised {got}", sig="churn-raises")
                continue
            tr = shared_transformer(sp, wcrs)   # straight from pyproj (never odc.geo.crs), one per CRS pair and run
            x0, y0, x1, y1 = bbox
            px, py = tr.transform([x0, x0, x1, x1], [y0, y1, y1, y0])
            if not all(map(math.isfinite, list(px) + list(py))):
                continue
            chord = sg.Polygon(list(zip(px, py)))
            if not chord.is_valid or chord.area == 0 or (max(px) - min(px)) > 90 * (1 if wcrs == "EPSG:4326" else 111_000):
                continue  # crosses the antimeridian in the target CRS
            area = shapely.area(shapely.intersection(boxes, chord)) / pixarea
            dist = shapely.distance(boxes, chord)
            must = {keys[j] for j in np.nonzero(area > 1e-6)[0]}
            may = {keys[j] for j in np.nonzero(dist <= 1e-9 * math.sqrt(pixarea))[0]}
            R.oracle(must <= got, "tiles-geom-misses-tile", case,
                     f"after {n_seen}+ CRSs in the process: tiles {sorted(got)} miss {sorted(must - got)}", sig="churn|miss")
            R.oracle(got <= may, "tiles-geom-returns-disjoint-tile", case,
                     f"after {n_seen}+ CRSs in the process: tiles {sorted(got - may)} are away from the query", sig="churn|extra")
        gc.collect()
        # dependency graphs from UTM rasters of random zones to the world rasters, judged by dense independent sampling
        zones = [(rng.randint(1, 60), rng.random() < 0.5) for _k in range(R.pick(2, 12))]
        if R.match_known(GLOBAL_RASTER_KEY) is not None:
            zones += [(60, True), (1, False)]     # next to the antimeridian, where the padded global footprint wraps
        for zone, south in zones:
            code = f"EPSG:{(32700 if south else 32600) + zone}"
            y0 = rng.choice([7_000_000, 8_000_000]) if south else rng.choice([1_000_000, 3_000_000, 5_000_000])
            ugb = GeoBox.from_bbox(geom.BoundingBox(300_000, y0, 700_000, y0 + 400_000, code), resolution=2000)
            ugt = GeoboxTiles(ugb, (70, 90))
            for gbt, wkey in ((hemis[0], None), (hemis[1], None), (worlds[0][1], GLOBAL_RASTER_KEY), (worlds[1][1], GLOBAL_RASTER_KEY)):
                if wkey is not None and R.match_known(wkey) is None:
                    R.count("skipped:global-raster-deps(no known-finding entry)")
                    continue
                for dst, src in ((ugt, gbt), (gbt, ugt)):
                    dense_dep_oracle(R, dst, src, {"dst": str(dst.base.crs), "src": str(src.base.crs), "round": round_no,
                                                   "dst_aff": aff_s(dst.base.affine), "dst_shape": list(dst.base.shape),
                                                   "src_aff": aff_s(src.base.affine), "src_shape": list(src.base.shape),
                                                   "seen_before": n_seen}, sig="churn|deps", key=wkey)
        n_seen += crs_churn(rng)


# a raster covering (nearly) the whole valid area of its CRS: grid_intersect pads its footprint by 2 pixels before going to
# EPSG:4326, the padded outline leaves the valid area, wraps and becomes an invalid polygon -> dependencies are lost.
# Evaluated only while known_findings.json carries this key.
GLOBAL_RASTER_KEY = "grid-intersect-global-raster"


def dense_dep_oracle(R: Run, dst, src, case, sig, k=6, restrict=None, key=None):
    """missing-dependency oracle by dense independent sampling: a k x k lattice of points inside every destination tile
    is mapped into the source raster with a fresh pyproj Transformer; a point landing well inside the source raster and
    well inside a source tile (margin = 3 px + twice the sag of the tile's projected edges, because the code maps
    the four tile corners only) requires that source tile among the tile's dependencies.  Raising is its own key."""
    from pyproj import CRS as PCRS
    from pyproj import Transformer

    deps = guarded(lambda: dst.grid_intersect(src))
    if isinstance(deps, str):
        R.oracle(False, key or "grid-intersect-raises", case, f"grid_intersect raised {deps}", sig=sig + "|raises")
        return None
    tr = shared_transformer(str(dst.base.crs), str(src.base.crs))
    DA, SA = dst.base.affine, src.base.affine
    invS = ~SA
    drect = tile_rects(dst)
    keys = [kk for kk, (y0, y1, x0, x1) in drect.items() if y1 > y0 and x1 > x0]
    if restrict is not None:
        keys = [kk for kk in keys if restrict(kk)]
    if not keys:
        return deps
    R_ = np.array([drect[kk] for kk in keys], dtype="float64")          # y0 y1 x0 x1
    f = (np.arange(k) + 0.5) / k
    fy, fx = np.meshgrid(f, f, indexing="ij")
    PX = R_[:, 2][:, None] + (R_[:, 3] - R_[:, 2])[:, None] * fx.ravel()[None, :]
    PY = R_[:, 0][:, None] + (R_[:, 1] - R_[:, 0])[:, None] * fy.ravel()[None, :]

    def to_src(px, py):
        wx, wy = DA.a * px + DA.b * py + DA.c, DA.d * px + DA.e * py + DA.f
        sx, sy = tr.transform(wx, wy)
        sx, sy = np.asarray(sx, dtype="float64"), np.asarray(sy, dtype="float64")
        return invS.a * sx + invS.b * sy + invS.c, invS.d * sx + invS.e * sy + invS.f

    SX, SY = to_src(PX, PY)
    # sag of the four edges of each tile (corner-only reprojection in the code)
    cx = np.stack([R_[:, 2], R_[:, 3], R_[:, 3], R_[:, 2]], axis=1)
    cy = np.stack([R_[:, 0], R_[:, 0], R_[:, 1], R_[:, 1]], axis=1)
    ax_, ay_ = to_src(cx, cy)
    mx_, my_ = to_src((cx + np.roll(cx, -1, axis=1)) / 2, (cy + np.roll(cy, -1, axis=1)) / 2)
    sag = np.hypot(mx_ - (ax_ + np.roll(ax_, -1, axis=1)) / 2, my_ - (ay_ + np.roll(ay_, -1, axis=1)) / 2).max(axis=1)
    mg = 3 + 2 * np.where(np.isfinite(sag), sag, np.inf)
    chy, chx = [int(v) for v in src.chunks[0]], [int(v) for v in src.chunks[1]]
    oy, ox = np.concatenate([[0], np.cumsum(chy)]), np.concatenate([[0], np.cumsum(chx)])
    sny, snx = int(oy[-1]), int(ox[-1])
    miss = []
    with np.errstate(invalid="ignore"):
        ok = np.isfinite(SX) & np.isfinite(SY) & (SX >= mg[:, None]) & (SX <= snx - mg[:, None]) & (SY >= mg[:, None]) & (SY <= sny - mg[:, None])
    ti = np.clip(np.searchsorted(oy, np.where(ok, SY, 0), "right") - 1, 0, len(chy) - 1)
    tj = np.clip(np.searchsorted(ox, np.where(ok, SX, 0), "right") - 1, 0, len(chx) - 1)
    with np.errstate(invalid="ignore"):
        deep = ok & (SY >= oy[ti] + mg[:, None]) & (SY <= oy[ti + 1] - mg[:, None]) & (SX >= ox[tj] + mg[:, None]) & (SX <= ox[tj + 1] - mg[:, None])
    n_req = 0
    for a, kk in enumerate(keys):
        idx = np.nonzero(deep[a])[0]
        if not len(idx):
            continue
        have = set(deps.get(kk, []))
        need = {(int(ti[a, b]), int(tj[a, b])) for b in idx}
        n_req += len(need)
        for s_ in need - have:
            b = next(b for b in idx if (int(ti[a, b]), int(tj[a, b])) == s_)
            miss.append((kk, s_, round(float(SY[a, b]), 1), round(float(SX[a, b]), 1), round(float(mg[a]), 1)))
    R.oracle(not miss, key or "grid-intersect-misses-dependency", case,
             f"{len(miss)} of {n_req} required (dst tile, src tile) links missing; e.g. (dst, src, src row, src col, margin px) "
             f"{miss[:5]}", sig=sig, trivial=n_req == 0)
    return deps


# ------------------------------------------------------------------ large cross-CRS rasters (edge curvature >> 1 px)
LARGE_PAIRS = [
    # projected raster: (crs, bbox, resolution, tile)   lon/lat raster: (bbox, resolution, tile)
    (("EPSG:3577", (-2_000_000, -5_000_000, 2_200_000, -1_000_000), 1000, (500, 500)), ((100, -50, 165, -5), 0.05, (25, 25))),
    (("EPSG:3577", (-1_900_000, -4_800_000, 2_100_000, -1_100_000), 500, (1000, 900)), ((105, -47, 160, -8), 0.04, (40, 32))),
    (("EPSG:5070", (-2_300_000, 300_000, 2_200_000, 3_200_000), 1000, (512, 512)), ((-130, 20, -62, 53), 0.05, (30, 30))),
    (("EPSG:3035", (2_500_000, 1_400_000, 6_500_000, 5_400_000), 1000, (500, 640)), ((-25, 30, 50, 72), 0.05, (32, 25))),
    (("EPSG:3857", (12_300_000, -5_000_000, 17_000_000, -900_000), 1000, (512, 700)), ((108, -42, 155, -6), 0.03, (40, 40))),
    (("EPSG:32755", (-600_000, 5_500_000, 1_600_000, 9_500_000), 500, (800, 640)), ((133, -41, 161, -4), 0.02, (50, 50))),
    (("EPSG:32633", (-400_000, 4_000_000, 1_400_000, 7_800_000), 400, (900, 750)), ((2, 35, 30, 71), 0.02, (64, 50))),
]


def large_cross_crs(R: Run, geom, GeoBox, GeoboxTiles, Affine):
    """Continental rasters (thousands of pixels per side) in Albers / LAEA / mercator / UTM against lon/lat rasters: the
    edges of the footprints curve by many pixels.  Both directions, dense independent sampling oracle."""
    rng = R.rng
    pairs = LARGE_PAIRS[:]
    rng.shuffle(pairs)
    for (pcrs, pbox, pres, ptile), (gbox_, gres, gtile) in pairs[: R.pick(2, len(pairs))]:
        gcrs = rng.choice(["EPSG:4326", "EPSG:4326", "EPSG:4283" if pcrs in ("EPSG:3577", "EPSG:32755", "EPSG:3857") else "EPSG:4326"])
        proj = GeoboxTiles(GeoBox.from_bbox(geom.BoundingBox(*pbox, pcrs), resolution=pres), ptile)
        geo = GeoboxTiles(GeoBox.from_bbox(geom.BoundingBox(*gbox_, gcrs), resolution=gres), gtile)
        for dst, src, name in ((geo, proj, "lonlat<-proj"), (proj, geo, "proj<-lonlat")):
            case = {"dst": str(dst.base.crs), "src": str(src.base.crs), "dst_shape": list(dst.base.shape),
                    "src_shape": list(src.base.shape), "dst_aff": aff_s(dst.base.affine), "src_aff": aff_s(src.base.affine),
                    "dst_tile": list(dst.roi.tile_shape((0, 0)).yx), "src_tile": list(src.roi.tile_shape((0, 0)).yx)}
            dense_dep_oracle(R, dst, src, case, sig=f"large-cross|{name}|{pcrs}", k=R.pick(4, 6))



# ------------------------------------------------------------------ one instance, a sequence of calls  vs  a fresh instance per call
def stateful_sequences(R: Run, geom, GeoBox, GeoboxTiles, Affine):
    """queries, clips and dependency graphs asked repeatedly of the SAME GeoboxTiles objects (arguments permuted,
    duplicated, sub-/supersets, other container types, other CRS spellings) must answer like fresh objects"""
    rng = R.rng
    reg, var = axis_specs()
    BoundingBox = geom.BoundingBox
    for it in range(R.pick(80, 800)):
        kind = rng.choice("rv")
        pool = [v for v in (reg if kind == "r" else var) if (v[0] if kind == "r" else sum(v)) >= 2]
        spec = (kind, rng.choice(pool), rng.choice(pool))
        res = rng.choice([1, 2, 0.5])
        A = Affine(res, 0, rng.randint(-20, 20) * res, 0, -res, rng.randint(-20, 20) * res)
        ospec = (rng.choice("rv"),)
        opool = [v for v in (reg if ospec[0] == "r" else var) if (v[0] if ospec[0] == "r" else sum(v)) >= 2]
        ospec = (ospec[0], rng.choice(opool), rng.choice(opool))
        B = Affine(res, 0, A.c + res * rng.randint(-3, 5), 0, -res, A.f - res * rng.randint(-3, 5))

        def mk():
            return mk_gbt(GeoBox, GeoboxTiles, spec, A)

        def mk_other():
            return mk_gbt(GeoBox, GeoboxTiles, ospec, B)

        g0 = mk()
        ny, nx = g0.base.shape
        Ty, Tx = g0.shape.yx
        calls = []
        sel = [(rng.randint(0, Ty - 1), rng.randint(0, Tx - 1)) for _ in range(rng.randint(1, 3))]
        for _k in range(rng.randint(6, 12)):
            r = rng.random()
            xs = sorted(rng.randint(-4, 4 * nx + 4) / 4 for _ in range(2))
            ys = sorted(rng.randint(-4, 4 * ny + 4) / 4 for _ in range(2))
            if r < 0.25:
                bb = BoundingBox(xs[0], ys[0], xs[1], ys[1])
                calls.append((f"tiles(pix {canon(bb)})", lambda g, bb=bb: list(g.tiles(bb))))
                calls.append((f"range_from_bbox({canon(bb)})", lambda g, bb=bb: g.range_from_bbox(bb)))
            elif r < 0.45:
                w = [A * (x, y) for x in xs for y in ys]
                wb = BoundingBox(min(p_[0] for p_ in w), min(p_[1] for p_ in w), max(p_[0] for p_ in w), max(p_[1] for p_ in w),
                                 rng.choice(["EPSG:3857", "epsg:3857", 3857]))
                q = wb if rng.random() < 0.5 else wb.polygon
                calls.append((f"tiles(world {canon(wb)} {'bbox' if q is wb else 'poly'})", lambda g, q=q: list(g.tiles(q))))
            elif r < 0.7:
                sel = respell(rng, sel)
                s_ = sel
                calls.append((f"clip({canon(s_)})", lambda g, s_=s_: g.clip(s_)))
                bb = BoundingBox(0, 0, 1.5, 1.5)
                calls.append((f"clip({canon(s_)})[0].tiles", lambda g, s_=s_, bb=bb: list(g.clip(s_)[0].tiles(bb))))
            elif r < 0.85:
                calls.append(("grid_intersect(other)", lambda g: g.grid_intersect(mk_other())))
                calls.append(("other.grid_intersect(self)", lambda g: mk_other().grid_intersect(g)))
            else:
                a_, c_ = rng.randint(0, Ty - 1), rng.randint(0, Tx - 1)
                roi = (slice(a_, rng.randint(a_ + 1, Ty)), slice(c_, rng.randint(c_ + 1, Tx)))
                calls.append((f"crop[{canon(roi)}].grid_intersect(self)", lambda g, roi=roi: g.crop[roi].grid_intersect(g)))
                calls.append((f"grid_intersect(crop[{canon(roi)}])", lambda g, roi=roi: g.grid_intersect(g.crop[roi])))
        sequence_vs_fresh(R, mk, calls, {"spec": spec, "A": aff_s(A), "ospec": ospec, "B": aff_s(B)}, "GeoboxTiles")



# ------------------------------------------------------------------ pixel size tiny against the coordinate magnitude
HIGHRES = [
    # (crs, (x range), (y range), pixel sizes, other CRS for foreign queries / partner rasters)
    ("EPSG:32755", (2e5, 8e5), (1e6, 9e6), (0.01, 0.05, 0.1, 0.25, 1.0), "EPSG:4326"),
    ("EPSG:32633", (2e5, 8e5), (1e6, 9e6), (0.01, 0.1, 0.5, 1.0), "EPSG:4326"),
    ("EPSG:3577", (-1.8e6, 1.8e6), (-4.5e6, -1.2e6), (0.02, 0.1, 1.0), "EPSG:4283"),
    ("EPSG:3857", (1.2e7, 1.7e7), (-5e6, 7e6), (0.05, 0.1, 1.0), "EPSG:4326"),
    ("EPSG:4326", (100.0, 170.0), (-65.0, 65.0), (1e-7, 1e-6, 1e-5), "EPSG:3857"),
    ("EPSG:4283", (112.0, 154.0), (-44.0, -10.0), (1e-7, 1e-6, 1e-5), "EPSG:3577"),
    ("EPSG:4326", (-170.0, -60.0), (15.0, 70.0), (1e-6, 1e-5), "EPSG:3857"),
]


def highres_stream(R: Run, geom, GeoBox, GeoboxTiles, Affine):
    """Grids whose pixel (1 cm .. 1 m at UTM-size coordinates, 1e-7 .. 1e-5 degree at lon/lat) is tiny against the
    magnitude of the world coordinates: any detour of a world coordinate through float32 (spacing 0.5 m at 6e6 m, 1.5e-5
    at 150 degrees) moves it by many pixels.  Queries (geometry, CRS bounding box, geometry in another CRS) whose edges
    reach 0.5 - 5 px into a tile, and dependency graphs with slightly rotated / other-CRS partners; the reference is
    computed in pixel space from float64 / exact rationals with fresh pyproj transformers: must-tiles (overlap >= 0.1 px^2)
    have to be returned, nothing farther than 0.05 px from the query may be."""
    import shapely
    import shapely.geometry as sg
    from pyproj import CRS as PCRS
    from pyproj import Transformer

    rng = R.rng
    BoundingBox = geom.BoundingBox
    for cfg in HIGHRES:
        crs, xr, yr, sizes, ocrs = cfg
        for _rep in range(R.pick(1, 4)):
            res = rng.choice(sizes)
            N = rng.choice([4000, 3000, 2400])
            tile = rng.choice([200, 250, 300])
            E0 = round(rng.uniform(*xr), rng.choice([0, 1, 2, 7]))
            N0 = round(rng.uniform(*yr), rng.choice([0, 1, 2, 7]))
            A = Affine(res, 0, E0, 0, -res, N0)
            gb = GeoBox((N, N), A, crs)
            if rng.random() < 0.3:
                k = N // tile
                ch = tuple([tile] * (k - 1) + [N - tile * (k - 1)])
                gbt = GeoboxTiles(gb, (ch, ch))
            else:
                gbt = GeoboxTiles(gb, (tile, tile))
            rects = tile_rects(gbt)
            keys = list(rects)
            boxes = shapely.box(np.array([rects[k_][2] for k_ in keys], dtype="float64"), np.array([rects[k_][0] for k_ in keys], dtype="float64"),
                                np.array([rects[k_][3] for k_ in keys], dtype="float64"), np.array([rects[k_][1] for k_ in keys], dtype="float64"))
            T = -(-N // tile)
            to_o = Transformer.from_crs(PCRS.from_user_input(crs), PCRS.from_user_input(ocrs), always_xy=True)
            from_o = Transformer.from_crs(PCRS.from_user_input(ocrs), PCRS.from_user_input(crs), always_xy=True)
            fa, fc, fe, ff = Fraction(A.a), Fraction(A.c), Fraction(A.e), Fraction(A.f)

            def edge(lo):
                """a pixel coordinate 0.5 .. 5 px on either side of a tile boundary"""
                b_ = rng.randint(1, T - 1) * tile
                reach = rng.choice([0.5, 1, 2.4, 5, 0.7, 3.3])
                return b_ - reach if lo else b_ + reach

            for _q in range(R.pick(8, 30)):
                px0, px1 = sorted((edge(rng.random() < 0.5), edge(rng.random() < 0.5)))
                py0, py1 = sorted((edge(rng.random() < 0.5), edge(rng.random() < 0.5)))
                if px1 - px0 < 8 or py1 - py0 < 8:
                    continue
                wcorners = [A * p_ for p_ in ((px0, py0), (px1, py0), (px1, py1), (px0, py1))]
                form = rng.choice(["geometry", "crs-bbox", "foreign-geometry", "foreign-bbox"])
                if form == "geometry":
                    q, verts, vcrs = geom.Geometry(sg.Polygon(wcorners), crs), wcorners, crs
                elif form == "crs-bbox":
                    xs_, ys_ = [p_[0] for p_ in wcorners], [p_[1] for p_ in wcorners]
                    bb = (min(xs_), min(ys_), max(xs_), max(ys_))
                    q, vcrs = BoundingBox(*bb, crs), crs
                    verts = [(bb[0], bb[1]), (bb[0], bb[3]), (bb[2], bb[3]), (bb[2], bb[1])]
                else:
                    fo = [to_o.transform(x, y) for x, y in wcorners]
                    if form == "foreign-geometry":
                        q, verts, vcrs = geom.Geometry(sg.Polygon(fo), ocrs), fo, ocrs
                    else:
                        xs_, ys_ = [p_[0] for p_ in fo], [p_[1] for p_ in fo]
                        bb = (min(xs_), min(ys_), max(xs_), max(ys_))
                        q, vcrs = BoundingBox(*bb, ocrs), ocrs
                        verts = [(bb[0], bb[1]), (bb[0], bb[3]), (bb[2], bb[3]), (bb[2], bb[1])]
                # the query's vertices in pixel space: fresh pyproj (if foreign), then exact rationals
                wv = verts if vcrs == crs else [from_o.transform(x, y) for x, y in verts]
                pv = [(float((Fraction(x) - fc) / fa), float((Fraction(y) - ff) / fe)) for x, y in wv]
                qpix = sg.Polygon(pv)
                if not qpix.is_valid or qpix.area == 0:
                    continue
                case = {"raster": crs, "res": res, "origin": [E0, N0], "N": N, "tile": tile, "form": form,
                        "query_crs": vcrs, "query_vertices": [[repr(float(x)), repr(float(y))] for x, y in verts],
                        "query_in_pixels": [[round(x, 3), round(y, 3)] for x, y in pv]}
                got = guarded(lambda: set(gbt.tiles(q)))
                if isinstance(got, str):
                    R.oracle(False, "tiles-query-raises", case, f"tiles() raised {got}", sig="highres-raises")
                    continue
                area = shapely.area(shapely.intersection(boxes, qpix))
                dist = shapely.distance(boxes, qpix)
                must = {keys[j] for j in np.nonzero(area >= 0.1)[0]}
                may = {keys[j] for j in np.nonzero(dist <= 0.05)[0]}
                R.oracle(must <= got, "tiles-geom-misses-tile", case,
                         f"tiles {sorted(got)} miss {sorted(must - got)} (overlap in px^2: "
                         f"{[round(float(area[keys.index(k_)]), 2) for k_ in sorted(must - got)][:5]})", sig=f"highres|miss|{form}")
                R.oracle(got <= may, "tiles-geom-returns-disjoint-tile", case,
                         f"tiles {sorted(got - may)} are more than 0.05 px away from the query", sig=f"highres|extra|{form}")
            # dependency graphs: a slightly rotated copy shifted by a few pixels (general path, same CRS) ...
            n2, t2 = 1600, 400
            sub = GeoboxTiles(GeoBox((n2, n2), A, crs), (t2, t2))
            ang = rng.choice([0.01, 0.05, -0.02])
            shift = (rng.choice([2.4, -3.1, 0.6, 7.5]), rng.choice([2.4, -1.3, 4.9]))
            Dm = A * Affine.translation(*shift) * Affine.rotation(ang)
            rot = GeoboxTiles(GeoBox((n2, n2), Dm, crs), (rng.choice([400, 320]), rng.choice([400, 500])))
            for dst, src in ((rot, sub), (sub, rot)):
                case = {"crs": crs, "res": res, "dst_aff": aff_s(dst.base.affine), "src_aff": aff_s(src.base.affine),
                        "dst_tiles": str(dst.chunks), "src_tiles": str(src.chunks), "angle": ang, "shift_px": list(shift)}
                deps = guarded(lambda: dst.grid_intersect(src))
                if isinstance(deps, str):
                    R.oracle(False, "grid-intersect-raises", case, deps, sig="highres-deps-raises")
                    continue
                need = brute_deps(dst, src, 0.5)
                miss = [(d_, s_) for d_, ss in need.items() for s_ in ss if s_ not in deps.get(d_, [])]
                R.oracle(not miss, "grid-intersect-misses-dependency", case,
                         f"{len(miss)} of {sum(map(len, need.values()))} tile pairs overlapping by more than 0.5 px^2 are missing: {miss[:6]}",
                         sig="highres|deps-rotated")
            # ... and a partner in another CRS
            oc = [to_o.transform(*(A * p_)) for p_ in ((0, 0), (n2, 0), (n2, n2), (0, n2))]
            ox0, ox1 = min(p_[0] for p_ in oc), max(p_[0] for p_ in oc)
            oy0, oy1 = min(p_[1] for p_ in oc), max(p_[1] for p_ in oc)
            if all(map(math.isfinite, (ox0, ox1, oy0, oy1))) and ox1 > ox0 and oy1 > oy0:
                ores = max(ox1 - ox0, oy1 - oy0) / 1500
                other = GeoboxTiles(GeoBox.from_bbox(BoundingBox(ox0, oy0, ox1, oy1, ocrs), resolution=ores), (390, 410))
                for dst, src in ((other, sub), (sub, other)):
                    dense_dep_oracle(R, dst, src, {"dst": str(dst.base.crs), "src": str(src.base.crs), "res": res,
                                                   "dst_aff": aff_s(dst.base.affine), "dst_shape": list(dst.base.shape),
                                                   "src_aff": aff_s(src.base.affine), "src_shape": list(src.base.shape)},
                                     sig="highres|deps-cross", k=4)


def _maybe_int_exact(x: Fraction, tol: Fraction):
    t = Fraction(math.trunc(x))
    part = x - t
    if part > Fraction(1, 2):
        t, part = t + 1, part - 1
    elif part < -Fraction(1, 2):
        t, part = t - 1, part + 1
    return (t, True) if abs(part) < tol else (x, False)


def _snap_scale_exact(s: Fraction, tol: Fraction):
    if abs(s) >= 1 - tol:
        return _maybe_int_exact(s, tol)[0]
    if abs(s) < tol:
        return s
    v, snapped = _maybe_int_exact(1 / s, tol)
    return 1 / v if snapped else s


def snap_exact(A):
    """snap_affine re-computed with exact rationals (documented tolerances as the doubles they are)"""
    a, b, c, d, e, f = (Fraction(v) for v in tuple(A)[:6])
    if abs(b) > TOL or abs(d) > TOL:
        return (a, b, c, d, e, f)
    return (_snap_scale_exact(a, STOL), Fraction(0), _maybe_int_exact(c, TTOL)[0], Fraction(0),
            _snap_scale_exact(e, STOL), _maybe_int_exact(f, TTOL)[0])


def snap_cases(R: Run, Affine):
    from odc.geo.math import snap_affine

    rng = R.rng
    vals = [0, 1, -1, 2, -3, 0.5, -0.25, 0.125, 1 + 2**-21, 1 - 2**-21, 0.5 + 2**-22, 3 + 2**-9, 2**-11, -2**-11,
            1 + 2**-11, 5.5, -5.5, 2.5, 7 + 2**-10, 7 - 2**-10, 2**-30, 2**-25, -2**-34, 0.75, 1.5]
    # doubles a hair on either side of the tolerances (1e-3 translation, 1e-6 scale, 1e-8 rotation) and of .5
    hair = [0.0, 1e-10, 1e-13, 2.0**-40, 1e-9]

    def near_tr():
        k = rng.randint(-9, 9)
        off = rng.choice([1e-3, 1e-3, 0.5, 1e-6, 1e-10, 0.0, 9.99e-4, 1.001e-3]) * rng.choice([1, -1])
        return k + off + rng.choice(hair) * rng.choice([1, -1])

    def near_sc():
        k = rng.choice([1, -1, 2, -2, 3, 10])
        off = rng.choice([1e-6, 1e-6, 9.99e-7, 1.001e-6, 1e-10, 0.0]) * rng.choice([1, -1])
        return k + off + rng.choice([0.0, 1e-13, 1e-15]) * rng.choice([1, -1])

    for it in range(R.pick(3000, 30000)):
        if it % 2:
            a, e = rng.choice(vals), rng.choice(vals)
            c, f = rng.choice(vals) * rng.choice([1, 8, 100]), rng.choice(vals) * rng.choice([1, 8, 100])
        else:
            a, e = rng.choice([near_sc(), rng.choice(vals)]), rng.choice([near_sc(), rng.choice([1, -1, 2, 0.5])])
            c, f = near_tr(), near_tr()
        b, d = rng.choice([(0, 0), (0, 0), (2**-30, 0), (0, -2**-28), (2**-20, 0), (0.5, -0.5), (2**-34, 2**-35),
                           (1e-8, 0), (0, 1.0000001e-8), (9.9999e-9, -1e-8), (1e-10, 1e-10)])
        A = Affine(a, b, c, d, e, f)
        res = []

        def fs():
            o = snap_affine(A)
            res.append(o)
            return aff_s(o)

        R.corr(f"c12 snap {aff_s(A)} {frac_s(TTOL)} {frac_s(STOL)} {frac_s(TOL)}", fs,
               sig="snap|" + ("rot" if (b or d) else "st") + ("|near-tol" if it % 2 == 0 else ""))
        # two-sided oracle; `1 / s` is the only inexact double operation, skip those inputs
        if res and all(abs(v) >= 1 - 1e-6 or v == 0 or math.frexp(v)[0] == 0.5 or math.frexp(v)[0] == -0.5 for v in (a, e)):
            want = snap_exact(A)
            R.oracle(tuple(Fraction(v) for v in tuple(res[0])[:6]) == want, "snap-affine-not-exact", {"A": aff_s(A)},
                     f"snap_affine gives {aff_s(res[0])}, exact arithmetic {';'.join(frac_s(v) for v in want)}", sig="snap2")


def run(R: Run):
    import traceback

    Affine, geom, GeoBox, GeoboxTiles = _import()

    def stream(fn, *args):
        """an exception of the real code escaping a stream is reported (with the place) and the other streams still run"""
        try:
            fn(*args)
        except Exception as e:  # pylint: disable=broad-except
            tb = traceback.extract_tb(e.__traceback__)
            where = [f"{f.filename.split('/')[-1]}:{f.lineno} {f.name}" for f in tb if "/harness/" not in f.filename][-3:]
            R.oracle(False, "unexpected-exception", {"stream": fn.__name__, "exception": repr(e)[:200], "raised_in": where,
                                                     "called_from": [f"{f.lineno} {f.line}" for f in tb if "/harness/" in f.filename][-1:]},
                     f"{fn.__name__}: the real code raised {e!r}", sig="unexpected-exception")

    stream(box_queries, R, geom, GeoBox, GeoboxTiles, Affine)
    stream(geom_queries, R, geom, GeoBox, GeoboxTiles, Affine)
    stream(snap_cases, R, Affine)
    stream(gi_stream, R, geom, GeoBox, GeoboxTiles, Affine)
    stream(grid_pairs, R, geom, GeoBox, GeoboxTiles, Affine)
    stream(stateful_sequences, R, geom, GeoBox, GeoboxTiles, Affine)
    stream(highres_stream, R, geom, GeoBox, GeoboxTiles, Affine)
    # from here on the process has seen several hundred CRSs (long-lived service); more churn is interleaved
    stream(crs_churn_stream, R, geom, GeoBox, GeoboxTiles, Affine)
    stream(crs_kinds_stream, R, geom, GeoBox, GeoboxTiles, Affine)
    crs_churn(R.rng, 80)
    stream(curved_queries, R, geom, GeoBox, GeoboxTiles, Affine)
    crs_churn(R.rng, 80)
    stream(large_cross_crs, R, geom, GeoBox, GeoboxTiles, Affine)
    R.exhaustive = False
    R.assumptions.append("shapely `disjoint` / `intersection` and pyproj are trusted oracles and model parameters")
    R.assumptions.append("tolerances of snap_affine / is_affine_st are passed as the exact rational value of the doubles")


def replay(R: Run, rec) -> int:
    Affine, geom, GeoBox, GeoboxTiles = _import()
    case = rec.get("case") or {}
    key = rec.get("key", "")
    print("replay key:", key, "case:", case)
    if case.get("gi") and key == "grid-intersect-misses-dependency":
        return replay_gi(GeoBox, GeoboxTiles, Affine, case)
    if key in ("grid-intersect-disjoint-not-empty", "grid-intersect-misses-dependency") and "D" in case and not case.get("derived"):
        def pa(s):
            return Affine(*[float(Fraction(v)) for v in s.split(";")])

        def sp(s):
            return (s[0], tuple(s[1]), tuple(s[2]))

        dst = mk_gbt(GeoBox, GeoboxTiles, sp(case["dspec"]), pa(case["D"]), case["crs"][0])
        src = mk_gbt(GeoBox, GeoboxTiles, sp(case["sspec"]), pa(case["S"]), case["crs"][1])
        deps = dst.grid_intersect(src)
        print("grid_intersect:", deps)
        A = check_linear_of(dst, src) if case["crs"][0] == case["crs"][1] else None
        lin = A is not None
        need = brute_deps(dst, src, 1e-6, 2.5e-3 + 2.5e-6 * max(dst.base.shape) * max(1.0, abs(A.a), abs(A.e)) if lin else 0.0)
        print("brute-force overlaps:", need)
        miss = [(d, s) for d, ss in need.items() for s in ss if s not in deps.get(d, [])]
        if lin:
            overlap = dst.base.extent.geom.intersection(src.base.extent.geom).area > 0
        else:
            overlap = not dst.base.extent.geom.disjoint(src.base.extent.geom)
        bad = bool(miss) or (not overlap and any(deps.values()))
        print("FAILS" if bad else "ok")
        return 1 if bad else 0
    R2 = Run("C12", "quick", rec.get("seed", 0))
    run(R2)
    bad = [f for f in R2.oracle_failures if f["key"] == key]
    for f in bad[:5]:
        print("FAILS:", f["key"], f["case"], f["what"])
    return 1 if bad else 0
