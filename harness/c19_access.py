"""C19 helper: how the harness reads the state of odc-geo values.

Public accessors first; a private attribute only through getattr, and when it is not there (renamed, moved,
inlined by a refactoring of odc-geo) the stream that needs it is SKIPPED with a note in the evidence - never a
crash, never a verdict.  Structural facts (attribute inventories, which private helper exists) are never compared
in a way that can become a VIOLATION: they only decide how much behavioural probing is done."""
from __future__ import annotations

from typing import Any, Callable, List, Optional

MISSING = object()
NOTES: List[str] = []


class Unavailable(Exception):
    """a piece of private state the model record needs cannot be read on this tree"""


def note(msg: str):
    if msg not in NOTES:
        NOTES.append(msg)


def need(o, *names):
    """first of the private attributes `names` that exists on `o`"""
    for n in names:
        v = getattr(o, n, MISSING)
        if v is not MISSING:
            return v
    raise Unavailable(f"{type(o).__name__}.{names[0]}")


# ---- CRS
def pyproj_of(c):
    return c.proj   # public


def epsg_state(c):
    """the lazily filled EPSG field of a CRS instance: 0 = not looked up, None = looked up: none, else the code"""
    return need(c, "_epsg")


def crs_cache_len(mod) -> Optional[int]:
    c = getattr(mod, "_crs_cache", MISSING)
    try:
        return None if c is MISSING else len(c)
    except TypeError:
        return None


def tr_cache_len(mod) -> Optional[int]:
    f = getattr(mod, "_make_crs_transform", MISSING)
    c = getattr(f, "cache", MISSING)
    try:
        return None if c is MISSING else len(c)
    except TypeError:
        return None


# ---- XY / BoundingBox / GeoBox: public accessors exist
def xy_pair(o):
    return o.xy


def bbox_box(o):
    return tuple(o.bbox)


def gbox_shape(o):
    return o.shape


def gbox_affine(o):
    """the pixel-side affine: public on GeoBox (.affine); a GCPGeoBox keeps it private"""
    a = getattr(o, "affine", MISSING)
    return need(o, "_affine") if a is MISSING else a


# ---- GCP
def gcp_mapping(o):
    return need(o, "_mapping")


def mapping_arrays(m):
    """(pix, wld) arrays of a GCPMapping"""
    import numpy as np

    pix, wld = getattr(m, "_pix", MISSING), getattr(m, "_wld", MISSING)
    if pix is MISSING or wld is MISSING:
        gp, gw = m.points()   # public: multipoint geometries
        pix = np.asarray([p.coords[0] for p in gp.geoms], dtype="float64")
        wld = np.asarray([p.coords[0] for p in gw.geoms], dtype="float64")
    return pix, wld


# ---- tilings
def tiles_tile_shape(t):
    return need(t, "_tile_shape")


def vst_offsets(t):
    import numpy as np

    o = getattr(t, "_offsets", MISSING)
    if o is not MISSING:
        return [[int(v) for v in a] for a in o]
    # public route: the chunks (exact as long as the int32 sums did not wrap)
    out = []
    for ch in t.chunks:
        out.append([int(v) for v in np.asarray([0, *ch], dtype="int32").cumsum(dtype="int32")])
    return out


def gbt_tiles(o):
    return need(o, "_tiles")


def gs_bins(o):
    return need(o, "_ybin"), need(o, "_xbin")


def gs_shape(o):
    v = getattr(o, "_shape", MISSING)
    return o.tile_shape if v is MISSING else v


# ---- registering correspondence cases that may need private state
def corr(R, line: Any, fn: Callable[[], str], sig: Optional[str] = None):
    """R.corr, except that a case whose driver line or real output cannot be produced because a private
    attribute is not there is dropped with a note"""
    from .common import err_s

    try:
        ln = line() if callable(line) else line
        try:
            out = fn()
        except Unavailable:
            raise
        except Exception as e:  # pylint: disable=broad-except
            out = err_s(e)
    except Unavailable as e:
        note(f"stream skipped: private state {e} is not readable on this tree ({(sig or '?').split('|')[0]})")
        return None
    return R.corr(ln, lambda: out, sig=sig)


def guard(what: str, fn: Callable[[], Any]):
    """run a whole stream; if private state it needs is missing, skip it with a note"""
    try:
        return fn()
    except Unavailable as e:
        note(f"stream '{what}' skipped: private state {e} is not readable on this tree")
        return None
