"""Seeded random-topological executor for dask.

`dask.compute(x, scheduler="threads", pool=RandomOrderExecutor(rng))` makes dask hand every
ready task to `submit`; one background thread runs them one at a time, picking the next
among the currently submitted (ready) tasks at random from the seeded PRNG.  The result is a
random topological execution order of the graph, single-threaded.
"""
from __future__ import annotations

import concurrent.futures as cf
import threading
import time


class RandomOrderExecutor(cf.Executor):
    _max_workers = 4096  # dask submits every ready task (up to this many) before waiting

    def __init__(self, rng, settle_s: float = 0.0015):
        self._rng = rng
        self._pending = []
        self._cv = threading.Condition()
        self._stop = False
        self._settle = settle_s
        self.order = []
        self._t = threading.Thread(target=self._loop, daemon=True)
        self._t.start()

    def submit(self, fn, *args, **kwargs):
        f = cf.Future()
        with self._cv:
            self._pending.append((f, fn, args, kwargs))
            self._cv.notify()
        return f

    def _loop(self):
        while True:
            with self._cv:
                while not self._pending and not self._stop:
                    self._cv.wait()
                if self._stop and not self._pending:
                    return
            # let the submitting thread finish handing over the whole ready batch
            n = -1
            while True:
                time.sleep(self._settle)
                with self._cv:
                    if len(self._pending) == n:
                        break
                    n = len(self._pending)
            with self._cv:
                i = self._rng.randrange(len(self._pending))
                f, fn, args, kwargs = self._pending.pop(i)
            if not f.set_running_or_notify_cancel():
                continue
            try:
                f.set_result(fn(*args, **kwargs))
            except BaseException as e:  # pylint: disable=broad-except
                f.set_exception(e)

    def shutdown(self, wait=True, *, cancel_futures=False):
        with self._cv:
            self._stop = True
            self._cv.notify()
        if wait:
            self._t.join(timeout=5)
