"""
Shared machinery of the odc-geo verification harness.

One `Run` object per check invocation.  A property module (harness/cXX.py) registers

  * correspondence cases  – `R.corr(line, fn)`: `line` is the operation in the line
    protocol understood by the Lean driver, `fn()` evaluates the *real* odc-geo code and
    returns the canonical output string (exceptions are mapped to `ERR:<kind>`);
  * property-oracle results – `R.oracle(ok, key, case, what)`: the property predicate
    evaluated on real outputs by an oracle that does not use the model.

`R.finish()` runs the Lean driver over all registered lines, diffs, searches for a
failing input when something broke, prints VIOLATION / KNOWN-FINDING lines, writes the
evidence file and returns the exit status.
"""
from __future__ import annotations

import hashlib
import json
import os
import random
import re
import subprocess
import sys
import time
from fractions import Fraction
from pathlib import Path
from typing import Any, Callable, Dict, Iterable, List, Optional, Tuple

VERIF = Path(__file__).resolve().parent.parent
LEAN_DIR = VERIF / "lean"
def driver_path(prop: str) -> Path:
    return LEAN_DIR / ".lake" / "build" / "bin" / f"driver_{prop.lower()}"
EVIDENCE_DIR = VERIF / "evidence"
REPLAY_DIR = EVIDENCE_DIR / "replays"
KNOWN_FILE = VERIF / "known_findings.json"
LOCK_FILE = LEAN_DIR / "statements.lock"

ALLOWED_AXIOMS = {"propext", "Classical.choice", "Quot.sound"}
FORBIDDEN = re.compile(
    r"\b(sorry|admit|native_decide|bv_decide|implemented_by|unsafe)\b|^\s*axiom\s|maxHeartbeats\s+0\b"
)

TRUSTED_BASE = [
    "Lean 4.33.0 kernel (leanchecker re-check in the thorough tier)",
    "axioms admitted in property theorems: propext, Classical.choice, Quot.sound (checked by the audit on every run)",
    "Mathlib v4.33.0 modules imported by proof files",
    "hand-written Lean model of the anchored odc-geo functions, tied to /repo by the behavioural correspondence of this run",
    "the correspondence harness (generators, canonicalisers, Lean driver parser)",
    "IEEE-754 rounding is not modelled: theorems are over exact rationals; doubles are sampled by the float stream",
]


# --------------------------------------------------------------------------- utils
def env_quiet() -> Dict[str, str]:
    env = dict(os.environ)
    return env


def sh(cmd: List[str], cwd: Optional[Path] = None, timeout: int = 3600, inp: Optional[str] = None):
    p = subprocess.run(
        cmd, cwd=str(cwd) if cwd else None, input=inp, capture_output=True, text=True, timeout=timeout
    )
    return p.returncode, p.stdout, p.stderr


def frac_s(x) -> str:
    """Canonical rational text `n` or `n/d` (exact value of a float / int / Fraction)."""
    f = Fraction(x)
    if f.denominator == 1:
        return str(f.numerator)
    return f"{f.numerator}/{f.denominator}"


def opt_s(x, f=str) -> str:
    return "N" if x is None else f(x)


def bool_s(b) -> str:
    return "T" if b else "F"


def list_s(xs: Iterable, f=str) -> str:
    return "[" + ",".join(f(x) for x in xs) + "]"


def err_s(e: BaseException) -> str:
    if isinstance(e, AssertionError):
        return "ERR:AssertionError"
    if isinstance(e, IndexError):
        return "ERR:IndexError"
    if isinstance(e, ZeroDivisionError):
        return "ERR:ZeroDivisionError"
    if isinstance(e, NotImplementedError):
        return "ERR:NotImplemented"
    if isinstance(e, ValueError):
        return "ERR:ValueError"
    if isinstance(e, RuntimeError):
        return "ERR:RuntimeError"
    return "ERR:" + type(e).__name__


def guarded(fn: Callable[[], str]) -> str:
    try:
        return fn()
    except Exception as e:  # pylint: disable=broad-except
        return err_s(e)


# --------------------------------------------------------------------------- Lean side
def lean_build(targets: List[str]) -> Tuple[bool, str]:
    rc, out, err = sh(["lake", "build", *targets], cwd=LEAN_DIR, timeout=3000)
    return rc == 0, out + err


def props_modules(prop: str) -> List[str]:
    """Theorem modules of a property: Props/Cxx.lean plus any Props/Cxx<Suffix>.lean (cross-property links)."""
    d = LEAN_DIR / "OdcGeo" / "Props"
    return [f"OdcGeo.Props.{f.stem}" for f in sorted(d.glob(f"{prop}*.lean"))] + _gentie_modules(prop)


def _gentie_modules(prop: str) -> List[str]:
    """Props/GenCxx.lean (source tie, harness/gentie.py) once the property is in gentie.GENTIE_READY and its tie
    theorems built in this run; [] otherwise."""
    try:
        from . import gentie

        return gentie.extra_modules(prop)
    except Exception:  # pylint: disable=broad-except
        return []


def lean_audit(prop: str) -> Tuple[List[Dict[str, Any]], str]:
    """List every theorem of namespace OdcGeo.<prop> with axioms and statement hash."""
    imports = "".join(f"import {m}\n" for m in props_modules(prop))
    src = f"import OdcGeo.Audit\n{imports}#audit_ns OdcGeo.{prop}\n"
    tmp = LEAN_DIR / f".audit_{prop}_{os.getpid()}.lean"
    tmp.write_text(src)
    try:
        rc, out, err = sh(["lake", "env", "lean", str(tmp)], cwd=LEAN_DIR, timeout=1800)
    finally:
        tmp.unlink(missing_ok=True)
    thms = []
    # the message is pretty-printed at width 120: long names wrap, so any whitespace (incl. newlines) may separate the fields
    for m in re.finditer(r"AUDIT\s+(\S+)\s+AXIOMS\s+\[(.*?)\]\s+HASH\s+(\d+)", out, re.S):
        axs = [a.strip() for a in m.group(2).split(",") if a.strip()]
        thms.append({"name": m.group(1), "axioms": axs, "hash": m.group(3)})
    return thms, (out + err if rc != 0 else "")


def lean_source_files(prop: str) -> List[Path]:
    """The project files in the import closure of the property's theorem file and driver."""
    roots = sorted((LEAN_DIR / "OdcGeo" / "Props").glob(f"{prop}*.lean")) + [LEAN_DIR / "Drivers" / f"{prop}.lean"]
    roots += [LEAN_DIR / (m.replace(".", "/") + ".lean") for m in _gentie_modules(prop)]
    seen: Dict[Path, None] = {}
    todo = [r for r in roots if r.exists()]
    while todo:
        f = todo.pop()
        if f in seen:
            continue
        seen[f] = None
        for m in re.finditer(r"^import\s+(OdcGeo(?:\.\w+)+)\s*$", f.read_text(), re.M):
            q = LEAN_DIR / (m.group(1).replace(".", "/") + ".lean")
            if q.exists():
                todo.append(q)
    return sorted(seen)


def strip_comments(text: str) -> str:
    # remove nested /- -/ block comments and -- line comments
    out = []
    depth = 0
    i = 0
    n = len(text)
    while i < n:
        if text.startswith("/-", i):
            depth += 1
            i += 2
            continue
        if depth > 0 and text.startswith("-/", i):
            depth -= 1
            i += 2
            continue
        if depth == 0 and text.startswith("--", i):
            j = text.find("\n", i)
            i = n if j < 0 else j
            continue
        if depth == 0:
            out.append(text[i])
        elif text[i] == "\n":
            out.append("\n")
        i += 1
    return "".join(out)


def forbidden_tokens(prop: str) -> List[str]:
    hits = []
    for f in lean_source_files(prop):
        code = strip_comments(f.read_text())
        for ln, line in enumerate(code.splitlines(), 1):
            if FORBIDDEN.search(line):
                hits.append(f"{f.relative_to(LEAN_DIR)}:{ln}: {line.strip()[:100]}")
    return hits


def run_driver(prop: str, lines: List[str]) -> List[str]:
    if not lines:
        return []
    DRIVER = driver_path(prop)
    for ln in lines:
        assert "\n" not in ln
    p = subprocess.run(
        [str(DRIVER)], input="\n".join(lines) + "\n", capture_output=True, text=True, timeout=3000
    )
    if p.returncode != 0:
        raise RuntimeError(f"lean driver failed rc={p.returncode}: {p.stderr[:500]}")
    outs = p.stdout.split("\n")
    if outs and outs[-1] == "":
        outs.pop()
    if len(outs) != len(lines):
        raise RuntimeError(f"lean driver answered {len(outs)} lines for {len(lines)} inputs")
    return outs


# --------------------------------------------------------------------------- known findings
def load_known() -> List[Dict[str, Any]]:
    if KNOWN_FILE.exists():
        return json.loads(KNOWN_FILE.read_text())["findings"]
    return []


# --------------------------------------------------------------------------- Run
class Run:
    def __init__(self, prop: str, tier: str, seed: int):
        self.prop = prop
        self.tier = tier
        self.seed = seed
        self.rng = random.Random(seed * 1000003 + int(prop[1:]))
        self.t0 = time.time()
        self.lines: List[str] = []
        self.real: List[str] = []
        self.sigs: List[str] = []
        self.oracle_evals = 0
        self.oracle_failures: List[Dict[str, Any]] = []
        self.nontrivial: set = set()
        self.dist: Dict[str, int] = {}
        self.samples: List[Any] = []
        self.notes: List[str] = []
        self.proof_break: Optional[str] = None
        self.thms: List[Dict[str, Any]] = []
        self.bad_thms: List[str] = []
        self.assumptions: List[str] = []
        self.known = [k for k in load_known() if k.get("property") == prop]
        self.known_hit: Dict[str, int] = {}
        self.exhaustive = False
        self.extra: Dict[str, Any] = {}
        self.searchers: List[Callable[["Run", List[Dict[str, Any]]], Optional[Dict[str, Any]]]] = []
        self.harness_exc: Optional[str] = None

    @property
    def quick(self) -> bool:
        return self.tier == "quick"

    def pick(self, quick_val, thorough_val):
        return quick_val if self.quick else thorough_val

    # ---- registration
    def count(self, key: str, n: int = 1):
        self.dist[key] = self.dist.get(key, 0) + n

    def corr(self, line: str, fn: Callable[[], str], sig: Optional[str] = None) -> str:
        """Register a correspondence case; returns the real output."""
        out = guarded(fn)
        self.lines.append(line)
        self.real.append(out)
        s = sig if sig is not None else default_sig(line, out)
        self.sigs.append(s)
        return out

    def oracle(self, ok: bool, key: str, case: Any, what: str = "", sig: Optional[str] = None,
               trivial: bool = False):
        """Record one evaluation of the property predicate on real outputs."""
        self.oracle_evals += 1
        self.count("oracle:" + (sig if sig else key))
        if not trivial:
            self.nontrivial.add(hash(("o", key, repr(case))))
        if ok:
            return True
        self.oracle_failures.append({"key": key, "case": case, "what": what})
        return False

    def sample(self, s: Any):
        if len(self.samples) < 12:
            self.samples.append(s)

    # ---- finishing
    def proof_stage(self):
        ok, log = lean_build([*props_modules(self.prop), f"driver_{self.prop.lower()}"])
        if not ok:
            self.proof_break = "lake build failed:\n" + log[-3000:]
            return
        thms, err = lean_audit(self.prop)
        if err:
            self.proof_break = "audit failed:\n" + err[-3000:]
            return
        self.thms = thms
        lock = {}
        if LOCK_FILE.exists():
            lock = json.loads(LOCK_FILE.read_text())
        for t in thms:
            bad = [a for a in t["axioms"] if a not in ALLOWED_AXIOMS]
            if bad:
                self.bad_thms.append(f"{t['name']}: inadmissible axioms {bad}")
            want = lock.get(t["name"])
            if want is not None and want != t["hash"]:
                self.bad_thms.append(f"{t['name']}: statement differs from statements.lock")
        for name in lock:
            if name.startswith(f"OdcGeo.{self.prop}.") and name not in {t["name"] for t in thms}:
                self.bad_thms.append(f"{name}: pinned in statements.lock but missing")
        hits = forbidden_tokens(self.prop)
        if hits:
            self.bad_thms.append("forbidden tokens: " + "; ".join(hits[:5]))
        if not thms:
            self.proof_break = "audit found no theorem"
        if self.tier == "thorough" and not self.proof_break:
            rc, out, err2 = sh(
                ["lake", "env", "leanchecker", *props_modules(self.prop)], cwd=LEAN_DIR, timeout=3000
            )
            self.extra["leanchecker_rc"] = rc
            if rc != 0:
                self.bad_thms.append("leanchecker rejected: " + (out + err2)[-500:])

    def write_replay(self, rec: Dict[str, Any]) -> str:
        REPLAY_DIR.mkdir(parents=True, exist_ok=True)
        h = hashlib.sha1(json.dumps(rec, sort_keys=True, default=str).encode()).hexdigest()[:10]
        p = REPLAY_DIR / f"{self.prop}-{h}.json"
        rec = dict(rec)
        rec["property"] = self.prop
        rec["seed"] = self.seed
        rec["tier"] = self.tier
        p.write_text(json.dumps(rec, indent=1, default=str))
        return str(p.relative_to(VERIF))

    def match_known(self, key: str) -> Optional[Dict[str, Any]]:
        for k in self.known:
            if k.get("status") == "known" and k.get("key") == key:
                return k
        return None

    def finish(self) -> int:
        violations: List[str] = []
        mismatches: List[Dict[str, Any]] = []
        model_out: List[str] = []
        driver_err = None
        if self.proof_break is None and self.lines:
            try:
                model_out = run_driver(self.prop, self.lines)
            except Exception as e:  # pylint: disable=broad-except
                driver_err = str(e)
        if model_out:
            for ln, r, m, s in zip(self.lines, self.real, model_out, self.sigs):
                self.count("corr:" + s)
                if not s.endswith("|trivial"):
                    self.nontrivial.add(hash(ln))
                if r != m:
                    mismatches.append({"line": ln, "real": r, "model": m})
            for ln, r, m in list(zip(self.lines, self.real, model_out))[:: max(1, len(self.lines) // 6)]:
                self.sample({"line": ln, "real": r, "model": m})

        # 1. oracle failures are genuine violations (or known findings)
        reported_keys = set()
        for f in self.oracle_failures:
            k = self.match_known(f["key"])
            if k is not None:
                self.known_hit[f["key"]] = self.known_hit.get(f["key"], 0) + 1
                continue
            if f["key"] in reported_keys:
                continue
            reported_keys.add(f["key"])
            path = self.write_replay({"kind": "property-oracle", **f})
            violations.append(f"VIOLATION property={self.prop} replay={path}")
        for key in self.known_hit:
            k = self.match_known(key)
            print(f"KNOWN-FINDING: property={self.prop} {k.get('what', key)}")

        # 2. broken proof / correspondence → search, then report either way
        broken = []
        if self.proof_break:
            broken.append({"kind": "proof", "what": self.proof_break})
        for b in self.bad_thms:
            broken.append({"kind": "proof-audit", "what": b})
        if driver_err:
            broken.append({"kind": "driver", "what": driver_err})
        if self.harness_exc:
            broken.append({"kind": "harness-exception", "what": self.harness_exc})
        if mismatches:
            broken.append(
                {
                    "kind": "correspondence",
                    "what": f"{len(mismatches)} of {len(self.lines)} cases differ between model and /repo",
                    "first": mismatches[:10],
                }
            )
        if broken and not violations:
            found = None
            for s in self.searchers:
                try:
                    found = s(self, mismatches)
                except Exception as e:  # pylint: disable=broad-except
                    self.notes.append(f"search error: {e}")
                if found:
                    break
            if found:
                k = self.match_known(found.get("key", ""))
                if k is None:
                    path = self.write_replay({"kind": "failing-input-after-break", "broken": broken, **found})
                    violations.append(f"VIOLATION property={self.prop} replay={path}")
            if not violations:
                path = self.write_replay({"kind": "no-failing-input-found", "broken": broken})
                violations.append(f"VIOLATION property={self.prop} replay={path} no-failing-input-found")
        elif broken:
            self.notes.append("also broken: " + json.dumps(broken, default=str)[:2000])

        self.write_evidence(len(violations), len(mismatches))
        for v in violations:
            print(v)
        return 1 if violations else 0

    def write_evidence(self, nviol: int, nmismatch: int):
        EVIDENCE_DIR.mkdir(parents=True, exist_ok=True)
        ok_thms = [t for t in self.thms if all(a in ALLOWED_AXIOMS for a in t["axioms"])]
        evaluations = len(self.lines) + self.oracle_evals
        cov = {
            "obligations": len(self.thms),
            "discharged": len(ok_thms) if not self.proof_break else 0,
            "checker_cmd": f"cd lean && lake build OdcGeo.Props.{self.prop} && lake env lean <audit of namespace OdcGeo.{self.prop}>"
            + (f" && lake env leanchecker OdcGeo.Props.{self.prop}" if self.tier == "thorough" else ""),
            "trusted_base": TRUSTED_BASE + self.assumptions,
            "theorems": [{"name": t["name"], "axioms": t["axioms"]} for t in self.thms],
            "evaluations": evaluations,
            "correspondence_cases": len(self.lines),
            "correspondence_mismatches": nmismatch,
            "oracle_evaluations": self.oracle_evals,
            "oracle_failures": len(self.oracle_failures),
            "known_findings_hit": self.known_hit,
            "distinct_nontrivial": len(self.nontrivial),
            "rule": "a case is an input line of the model/real correspondence or one evaluation of the property "
            "oracle on real odc-geo output; distinct by hash of the canonical input line (oracle: key + case); "
            "non-trivial unless the property module marked it trivial (degenerate input exercising no branch); "
            "'distribution' counts cases per branch signature (operation, error kind, branch taken)",
            "samples": self.samples if self.samples else [{"note": "no correspondence sample"}],
            "distribution": dict(sorted(self.dist.items())),
            "exhaustive": self.exhaustive,
            "notes": self.notes,
        }
        cov.update(self.extra)
        ev = {
            "property_id": self.prop,
            "tier": self.tier,
            "seed": self.seed,
            "level": "proof",
            "coverage": cov,
            "assumptions": self.assumptions,
            "wall_s": round(time.time() - self.t0, 2),
            "violations": nviol,
        }
        (EVIDENCE_DIR / f"{self.prop}.json").write_text(json.dumps(ev, indent=1, default=str))


def default_sig(line: str, out: str) -> str:
    parts = line.split(" ")
    op = parts[1] if len(parts) > 1 else parts[0]
    if out.startswith("ERR:"):
        return f"{op}|{out}"
    return f"{op}|ok"
