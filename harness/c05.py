"""C05 — the parallel (dask) COG writer produces a correct, overview-first GeoTIFF."""
from __future__ import annotations

import logging
import math
import warnings
import os
import random
import shutil
import tempfile
import threading
import time
import traceback
from concurrent.futures import Executor, Future
from fractions import Fraction
from io import BytesIO

import numpy as np

from .common import Run, bool_s, frac_s, guarded, list_s, opt_s, run_driver

logging.getLogger("tifffile").setLevel(logging.CRITICAL)

META = {
    "claimed": True,
    "text": "Lean 4 theorems, for all shapes / block lists / sample counts / observed tile streams, about a hand "
    "model of the dask COG writer's layout and ordering logic: tile sizes are positive multiples of 16; the "
    "overview count is the least k with floor(dim/2^k) <= block and the loop terminates; the padded shape p "
    "satisfies shape <= p < shape + 2^n and 2^n | p; level k has shape exactly p/2^k (never rounded) and the level "
    "loop yields n+1 well-formed levels for every shape >= 1x1 with or without a GeoBox (F18 repaired); "
    "flat tile index is a bijection between the tile enumeration and [0, num_tiles); for every observed "
    "(size, tile) stream in any order with zero-size tiles skipped the patched TileOffsets/TileByteCounts are "
    "pairwise disjoint, gap-free in stream order, start at the header size and carry the observed sizes; every "
    "overview tile precedes every full-resolution tile in the write order.  The model is tied to /repo on every "
    "run by an exact correspondence (exhaustive on small shapes, random large) and end-to-end: real "
    "save_cog_with_dask(...).compute() files under synchronous / threaded / seeded random-topological "
    "schedulers are decoded with rasterio(GDAL) and tifffile and their IFD shapes, tile grids, tile order in "
    "the file and TileOffsets/TileByteCounts tags are compared with the model.  The end-to-end matrix also spans every codec "
    "the writer accepts with the GDAL-style level keywords (lossless unless a LERC tolerance was asked for; a codec that cannot "
    "encode must fail loudly), irregular source chunkings, byte orders, pre-existing destinations / parts directories "
    "(byte-exact against a save into a fresh path), recomputing the same graph, two graphs in one compute under ambient dask "
    "configs, a synthetic bytes/bytearray hand-off to the multi-part writer, and every interleaving of two (sampled: three) "
    "threads' first part writes at the file sink under a deterministic step scheduler.",
    "note": "Known finding (not repaired, reported as KNOWN-FINDING when listed): compression='none' never returns when a "
    "pyramid level is exactly one tile (tifffile drains the endless empty-tile iterator); such configurations are probed "
    "once per run and otherwise not generated.  Rotated GeoBoxes with a 1-pixel side are not generated (finding F12 of C09 "
    "corrupts their GeoTIFF tags).  Proved: layout, indexing, header patching and ordering (integer arithmetic).  Trusted / sampled, not "
    "proved: codecs (imagecodecs), TIFF tag serialisation (tifffile), GDAL decode, dask executing every task once "
    "after its dependencies, overview resampling (rasterio warp), and the byte-stream assembly of the multi-part "
    "writer, which is property C06 (its theorem C06.main is assumed by name; that file bytes = header ++ tiles in "
    "stream order is checked here on every written file).  'Independent readers decode the original pixels' is "
    "carried by the round trip, not by a theorem.  Growth round: option normalisation is now a Lean model with theorems "
    "(Model/C05Opts.lean, Props/C05Opts.lean): _norm_predictor, _norm_compression_tifffile (codec spellings, where the level comes "
    "from: level= > compressionargs > the codec's GDAL-style keyword of any letter case, what stays in kw; the falsy level 0), "
    "GDAL_COMP, upload parameters from kw / aws, the stats= argument (False / True / a level number incl. the falsy 0: the "
    "GDAL_METADATA placeholder is reserved exactly when statistics are computed, the level exists), the re-partitioning rule, "
    "photometric / planarconfig, encoder / predictor choice; compared exactly with the real helpers (looked up defensively: a tree "
    "without a private helper loses only that direct stream, with a note) and through the public dry run (dst='').  The end-to-end "
    "matrix also spans: leftover part files of a killed earlier run to the same destination (same names, equal sizes for "
    "fixed-length encodings, other bytes; all / every other one), every carrier of the nodata value (attrs['nodata'], "
    "attrs['_FillValue'], both with different numbers, a decoy in encoding['_FillValue']) judged against the intended value, "
    "stats in {True, False, 0, 1, 2} with an oracle on the STATISTICS_* items (present iff asked; from level 0 equal to the source "
    "pixels' min / max / mean), spill_sz 0, TIFF predictor numbers 1 / 2 / 3.  Observations (not violations of the statement): "
    "statistics taken from an overview level count the right / bottom padding pixels when the array has no nodata; a band without "
    "a valid pixel gets STATISTICS_* = '--' (numpy's masked constant).  Third increment (Model/C05Meta.lean, Props/C05Meta.lean): the statistics XML text (_render_gdal_metadata with "
    "Python's fixed-point formatting as reference semantics, validated each run: printed value within half a unit of the last place; "
    "_unwrap_stats), cog_gbox, the pyramid plan of _pyramids_from_cog_metadata (level k+1 from level k onto the GeoBox of IFD k+1, chunked by "
    "its tile: compared with the layers of the public dry run), Props/C05C15 (geotiff_metadata's call through the C15 trace model); the "
    "GDAL_NODATA tag is read back with tifffile and must parse to the array's nodata.  Final increment: _stats_from_layer on integer data is a Lean model (Model/C05Stats.lean: which "
    "pixels enter which band for YX / YXS / SYX, nodata masking, min / max, mean as exact rational printed through the fixed-point "
    "model, the valid count) with theorem level0_statistics_are_the_valid_pixels, compared exactly with the real helper (cases whose "
    "exact mean sits on a printing tie are skipped); non-finite statistics are pinned ('nan' for a 2-D image without a valid pixel — "
    "also valid_percent —, '--' for band vectors, 'nan' for all-NaN floats); Props/C05CogFile.lean composes with C06's "
    "cog_file_end_to_end: every tile entry lies inside the FILE the sink leaves, behind the header, overview data before "
    "full-resolution data.  NOT mirrored in the Lean model (inventory of the anchor files): _stats_from_layer's stddev and its "
    "floating-point (nan-aware) branch (VALUES judged by the statistics oracle with a tolerance derived from dtype and pixel count), "
    "_fill_value, the "
    "resampling inside _pyramids_from_cog_metadata (odc.reproject), geotiff_metadata beyond the transform tags (GeoKey directory, the "
    "TEXT of GDAL_NODATA / GDAL_METADATA as GDAL writes it), "
    "ODCExtensionDa.nodata (attrs['nodata'] then attrs['_FillValue'], as float: oracle only), the S3 branch (MultiPartUpload, "
    "ContentType, cleanup) and MPUFileSink (file-system side: exercised by the sink interleaving and stale-parts stages, no Lean "
    "model here — C18 owns it; the byte-stream machinery itself is C06).",
    "technique": "Lean 4 proof over hand model + differential correspondence with real code + end-to-end decode",
    "design_ref": "DESIGN.md §4 C05",
}


# --------------------------------------------------------------------------- schedulers
class RandTopoExecutor(Executor):
    """Holds every submitted (ready) task; a single worker releases one at a time in seeded
    random order, and only while dask's scheduling loop is blocked waiting for a result —
    dask therefore executes a seeded random topological order of the graph."""

    _max_workers = 10**6

    def __init__(self, seed: int):
        self.rng = random.Random(seed)
        self.pending = []
        self.lock = threading.Lock()
        self.q = None
        self.stop = False
        self.nrun = 0
        self.th = threading.Thread(target=self._loop, daemon=True)
        self.th.start()

    def submit(self, fn, *a, **k):  # pylint: disable=arguments-differ
        ex = self

        class _F(Future):
            def add_done_callback(self, fn):  # dask registers `queue.put`
                q = getattr(fn, "__self__", None)
                if q is not None and hasattr(q, "not_empty"):
                    ex.q = q
                return super().add_done_callback(fn)

        f = _F()
        with self.lock:
            self.pending.append((fn, a, k, f))
        return f

    def _main_blocked(self) -> bool:
        q = self.q
        if q is None:
            return False
        try:
            return len(q.not_empty._waiters) > 0 and q.empty()  # pylint: disable=protected-access
        except Exception:  # pylint: disable=broad-except
            time.sleep(0.003)
            return True

    def _loop(self):
        while not self.stop:
            if not self.pending or not self._main_blocked():
                time.sleep(0.0002)
                continue
            with self.lock:
                i = self.rng.randrange(len(self.pending))
                fn, a, k, f = self.pending.pop(i)
            self.nrun += 1
            try:
                f.set_result(fn(*a, **k))
            except BaseException as e:  # pylint: disable=broad-except
                f.set_exception(e)

    def shutdown(self, wait=True, **kw):  # pylint: disable=unused-argument
        self.stop = True


def compute_with(fut, sched: str):
    """compute one Delayed, or a list of them in ONE dask.compute call (shared tasks, one scheduler run)"""
    import dask  # pylint: disable=import-outside-toplevel

    many = isinstance(fut, (list, tuple))
    futs = list(fut) if many else [fut]
    if sched == "sync":
        out = dask.compute(*futs, scheduler="synchronous")
    elif sched.startswith("threads"):
        out = dask.compute(*futs, scheduler="threads", num_workers=int(sched[7:]))
    else:
        ex = RandTopoExecutor(int(sched[4:]))
        try:
            out = dask.compute(*futs, scheduler=ex)
        finally:
            ex.shutdown()
    return list(out) if many else out[0]


# ambient dask configurations a caller may be running under (graph construction and compute both happen inside)
DASK_CFGS = [
    {},
    {},
    {"optimization.fuse.active": False},
    {"optimization.fuse.active": True, "optimization.fuse.ave-width": 10, "optimization.fuse.max-width": 50},
    {"array.chunk-size": "1KiB"},
    {"array.rechunk.method": "tasks", "array.slicing.split-large-chunks": True},
    {"array.chunk-size": "4KiB", "optimization.fuse.active": False, "bag.shuffle": "tasks"},
]


def dask_cfg(cfg):
    import dask  # pylint: disable=import-outside-toplevel

    return dask.config.set(DASK_CFGS[cfg.get("dask_cfg", 0) % len(DASK_CFGS)])


# --------------------------------------------------------------------------- encoders for the line protocol
def blk_s(b) -> str:
    return str(b) if isinstance(b, int) else f"{b[0]}x{b[1]}"


def aff_s(A) -> str:
    return ";".join(frac_s(v) for v in (A.a, A.b, A.c, A.d, A.e, A.f))


def gbox_s(gbox) -> str:
    if gbox is None:
        return "N"
    return f"{gbox.shape[0]},{gbox.shape[1]},{aff_s(gbox.affine)}"


def meta_s(m) -> str:
    return f"{m.num_planes};{m.shape.y};{m.shape.x};{m.tile.y};{m.tile.x}"


def cog_s(meta) -> str:
    """canonical text of what `_make_empty_cog` decided (same format as the driver's fmtCog)"""
    lv = []
    for m in meta.flatten():
        ch = m.chunked
        lv.append(
            f"{m.shape.y},{m.shape.x},{m.tile.y},{m.tile.x},{ch.y},{ch.x},{m.num_tiles},"
            + ("N" if m.gbox is None else aff_s(m.gbox.affine))
        )
    return f"{meta.axis} {meta.nsamples} {meta.num_planes} {len(meta.overviews)} " + "|".join(lv)


def info_s(info) -> str:
    return "|".join(list_s(o) + ":" + list_s(n) for o, n in info)


# --------------------------------------------------------------------------- independent oracles
HUGE = [2**31 - 1, 2**31, 2**31 + 1, 2**32 + 7, 2**53 - 3, 2**53 - 1, 2**53, 2**53 + 1, 2**53 + 3, 2**63 - 1, 2**63,
        2**64, 2**64 + 1, 2**100, 2**100 + 12345, 10**30 + 7]


def huge(rng: random.Random) -> int:
    """ints where a float detour (`int(math.ceil(x / k))`, `x / 2`) goes wrong"""
    return rng.choice(HUGE) + rng.choice([0, 0, 1, -1, 3, 15, 16, 17, rng.randint(-1000, 1000)])


def edge_dim(rng: random.Random, block: int) -> int:
    """huge dims sitting exactly on the halving boundary: (block + 1) * 2**k + {-1, 0, 1} — all-ones low bits make any
    rounding (instead of flooring) of a half carry all the way up and change the overview count"""
    k = rng.randint(40, 110)
    return (block + 1) * 2**k + rng.choice([-1, -1, 0, 1, -2, -(2 ** rng.randint(0, 20))])


def ceil_to(x: int, a: int) -> int:
    return -(-x // a) * a


def spec_oracle(y, x, ty, tx, mp):
    """exact re-computation of compute_cog_spec's rule (pure ints)"""
    t = (ceil_to(ty, 16), ceil_to(tx, 16))
    n = max(least_k(t[0], y), least_k(t[1], x))
    pad = 2**n
    if mp is not None and mp < pad:
        pad = 0 if mp == 0 else 1 << (mp.bit_length() - 1)
    p = (y, x) if pad == 0 else (ceil_to(y, pad), ceil_to(x, pad))
    return f"{p[0]} {p[1]} {t[0]} {t[1]} {n}"


def least_k(block: int, dim: int) -> int:
    k = 0
    while dim // (2**k) > block:
        k += 1
    return k


def layout_oracle(src_yx, tile_last_yx, page_shapes, page_tiles):
    """property predicate on the IFD list of a written file / header (does not use the model)"""
    bad = []
    ny, nx = src_yx
    ty, tx = (-(-t // 16) * 16 for t in tile_last_yx)
    n = max(least_k(ty, ny), least_k(tx, nx))
    if len(page_shapes) != n + 1:
        bad.append(f"{len(page_shapes)} IFDs, expected {n + 1} (levels={n})")
        return bad
    P = page_shapes[0]
    for s, p in zip((ny, nx), P):
        if not (s <= p < s + 2**n and p % (2**n) == 0):
            bad.append(f"padded side {p} for source side {s}, 2^n={2**n}")
    for k, sh in enumerate(page_shapes):
        if (sh[0] * 2**k, sh[1] * 2**k) != tuple(P) or min(sh) < 1:
            bad.append(f"level {k} shape {sh} is not exactly {P}/2^{k}")
    for t in page_tiles:
        if t[0] % 16 or t[1] % 16 or min(t) <= 0:
            bad.append(f"tile {t} not a positive multiple of 16")
    return bad


def intervals_oracle(offs, lens, start, end=None):
    """offs/lens of all non-empty tiles of a file: disjoint, gap-free from `start` (to `end`)"""
    iv = sorted((o, n) for o, n in zip(offs, lens) if n != 0)
    pos = start
    for o, n in iv:
        if o != pos:
            return f"tile at offset {o} but previous data ends at {pos}"
        pos += n
    if end is not None and pos != end:
        return f"tile data ends at {pos}, file size {end}"
    return None


# --------------------------------------------------------------------------- real-code access
def _imp():
    # pylint: disable=import-outside-toplevel
    from odc.geo import math as M
    from odc.geo.cog import _shared as S
    from odc.geo.cog import _tifffile as T
    from odc.geo.geobox import GeoBox
    from odc.geo.xr import wrap_xr

    return M, S, T, GeoBox, wrap_xr


def mk_gbox(rng: random.Random, ny: int, nx: int, GeoBox, dyadic: bool = True):
    """dyadic=True: every coefficient is a short dyadic rational (exact through xarray coordinates and GDAL);
    dyadic=False: realistic doubles (0.00025, 1/3, 30.000000001, origins at k ± 1e-9 …) — the float stream."""
    from affine import Affine  # pylint: disable=import-outside-toplevel

    # EPSG-coded CRSs and definitions WITHOUT a code (some with a fuzzy pyproj match: datum-less UTM, custom LAEA / Albers,
    # an ESRI code, MODIS sinusoidal); the file's CRS is compared in full with the requested definition
    crs = rng.choice(["epsg:3857", "epsg:4326", "epsg:32633", "epsg:3577", "epsg:3857", "epsg:32633",
                      "+proj=utm +zone=55 +south +ellps=GRS80 +units=m +no_defs",
                      "+proj=utm +zone=33 +ellps=WGS72 +units=m +no_defs",
                      "+proj=laea +lat_0=52 +lon_0=10 +x_0=4321000 +y_0=3210000 +ellps=GRS80 +units=m +no_defs",
                      "+proj=sinu +lon_0=0 +x_0=0 +y_0=0 +R=6371007.181 +units=m +no_defs",
                      "+proj=aea +lat_1=-18 +lat_2=-36 +lat_0=0 +lon_0=132 +x_0=0 +y_0=0 +ellps=GRS80 +units=m +no_defs",
                      "ESRI:54008"])
    mk_gbox.last_spec = crs
    if dyadic:
        res = rng.choice([1, 10, 30, 0.5, 0.25, 2]) if crs != "epsg:4326" else rng.choice([0.25, 0.125, 1 / 1024])
        x0 = rng.randint(-1000, 1000) * res
        y0 = rng.randint(-100, 100) * res
    else:
        res = rng.choice([30.000000001, 1 / 3, 0.1, 9.999999999, 25 + 1e-10, 2.5e-4, 1e-5, 0.00025, 1 / 3600])
        if crs != "epsg:4326":
            res = rng.choice([30.000000001, 1 / 3, 0.1, 9.999999999, 25 + 1e-10, 12.3456789, 1e3 / 7])
        k = rng.randint(-1000, 1000)
        x0 = k + rng.choice([0, 1e-6, -1e-9, 1e-10, -1e-11, 1e-13, 2.0**-40, 0.5 - 1e-9, 0.1])
        y0 = rng.randint(-80, 80) + rng.choice([0, 1e-6, -1e-9, 1e-10, 2.0**-40, 0.5 + 1e-13, 1 / 3])
    r = rng.random()
    if min(ny, nx) < 2:
        # a rotated GeoBox with a 1-pixel side does not survive geotiff_metadata()'s trip through xarray
        # coordinates (finding F12, property C09); not generated here
        r = min(r, 0.84)
    if r < 0.75:
        A = Affine(res, 0, x0, 0, -res, y0)
    elif r < 0.85:
        A = Affine(res, 0, x0, 0, res, y0)  # south-up
    else:  # rotated / sheared, dyadic coefficients
        A = Affine(res, res / 2, x0, res / 4, -res, y0)
    from odc.geo.crs import CRS as _CRS  # pylint: disable=import-outside-toplevel

    crs_obj = _CRS(crs)
    if rng.random() < 0.5:
        _ = crs_obj.epsg  # `.epsg` (pyproj's fuzzy to_epsg) read beforehand must not change what gets written
    return GeoBox((ny, nx), A, crs_obj)


_CRS_CMP = {}


def crs_same(file_crs, spec: str):
    """full pyproj comparison (`CRS.__eq__`) of the CRS an independent reader finds in the file with the requested one"""
    import pyproj  # pylint: disable=import-outside-toplevel

    if file_crs is None:
        return False, "file has no CRS"
    wkt = file_crs.to_wkt()
    if (wkt, spec) not in _CRS_CMP:
        got, want = pyproj.CRS.from_wkt(wkt), pyproj.CRS(spec)
        _CRS_CMP[wkt, spec] = (got == want, f"file: {got.name} / datum {got.datum.name}; requested: {want.name} / datum {want.datum.name}")
    return _CRS_CMP[wkt, spec]


DTYPES = ["uint8", "int16", "uint16", "float32", "float64"]
SPELLINGS = ["py", "py", "np_pix", "np_pix", "np_f32", "np_f64", "np_i64", "arr0d"]


def spell(v, kind: str, dt):
    """the same number in another spelling (python int / float, numpy scalar of the pixel type, np.float32 / float64 /
    int64, 0-d array); the plain python value when that spelling cannot hold it exactly"""
    if v is None or kind == "py":
        return v
    try:
        with warnings.catch_warnings():
            warnings.simplefilter("ignore")
            out = {"np_pix": lambda: np.dtype(dt).type(v), "np_f32": lambda: np.float32(v), "np_f64": lambda: np.float64(v),
                   "np_i64": lambda: np.int64(v) if float(v).is_integer() else v, "arr0d": lambda: np.array(v, dtype=dt)}[kind]()
        same = (float(out) == float(v)) or (math.isnan(float(out)) and math.isnan(float(v)))
        return out if same else v
    except (ValueError, OverflowError, TypeError):
        return v


def snapshot(obj):
    """structural fingerprint of a caller-owned argument"""
    if isinstance(obj, dict):
        return ("dict", tuple((k, snapshot(v)) for k, v in obj.items()))
    if isinstance(obj, (list, tuple)):
        return (type(obj).__name__, tuple(snapshot(v) for v in obj))
    return ("val", type(obj).__name__, repr(obj))


MEM_LAYOUTS = ["C", "C", "C", "F", "lazyT", "strided", "neg", "readonly"]


def band_chunking(rng: random.Random, ns: int):
    """chunking of the NON-spatial axis is an input dimension too: one band per chunk, all in one, groups of 2, irregular"""
    if ns == 1:
        return 1
    opts = [1, ns, 2, [2] + [1] * (ns - 2), [1] * (ns - 2) + [2], [1, ns - 1], [ns - 1, 1]]
    c = rng.choice(opts)
    return c if isinstance(c, int) else [v for v in c if v > 0]


def lay_out(pix, ch, layout: str, ydim: int):
    """dask array with the same values whose BLOCKS have another memory layout: C-contiguous, F-contiguous blocks that own
    their memory, lazily transposed (F-contiguous views), strided views, negative strides, read-only blocks"""
    import dask.array as da  # pylint: disable=import-outside-toplevel

    if layout == "F":
        return da.from_array(pix, chunks=ch).map_blocks(np.asfortranarray, dtype=pix.dtype)
    if layout == "lazyT":
        axes = list(range(pix.ndim))
        axes[ydim], axes[ydim + 1] = axes[ydim + 1], axes[ydim]
        src = np.ascontiguousarray(pix.transpose(axes))
        ch_t = list(ch)
        ch_t[ydim], ch_t[ydim + 1] = ch_t[ydim + 1], ch_t[ydim]
        return da.from_array(src, chunks=tuple(ch_t)).map_blocks(np.ascontiguousarray, dtype=pix.dtype).transpose(axes)
    if layout == "strided":
        big = np.zeros(tuple(2 * n if i in (ydim, ydim + 1) else n for i, n in enumerate(pix.shape)), dtype=pix.dtype)
        sl = tuple(slice(None, None, 2) if i in (ydim, ydim + 1) else slice(None) for i in range(pix.ndim))
        big[sl] = pix
        return da.from_array(big[sl], chunks=ch)
    if layout == "neg":
        sl = tuple(slice(None, None, -1) if i == ydim else slice(None) for i in range(pix.ndim))
        return da.from_array(np.ascontiguousarray(pix[sl])[sl], chunks=ch)
    if layout == "readonly":
        ro = pix.copy()
        ro.setflags(write=False)
        return da.from_array(ro, chunks=ch)
    return da.from_array(pix, chunks=ch)


def gen_cfg(rng: random.Random, big: bool):
    ax = rng.choice(["YX", "YX", "YXS", "SYX"])
    ns = 1 if ax == "YX" else rng.randint(1, 5)
    hi = 300 if big else 120
    side = lambda: rng.choice([1, 1, 2, 3, 4, 5, 8, 15, 16, 17, 31, 32, 33, rng.randint(1, hi), rng.randint(1, hi), rng.randint(1, hi)])
    ny, nx = side(), side()
    if ax == "SYX" and ns == ny == nx:
        # an n x n x n band-first cube over an n x n GeoBox is inherently ambiguous for `yaxis_from_shape` (it is read as
        # band-last, like in C15's `_write_cog`); reported as ambiguous in DESIGN, not generated / judged here
        nx += 1
    dt = rng.choice(DTYPES)

    def blk():
        if rng.random() < 0.3:
            return (rng.choice([16, 32, 48, 64, 100, 5]), rng.choice([16, 32, 48, 64, 100, 5]))
        return rng.choice([16, 16, 32, 32, 48, 64, 128, 20, 100, 256, 1])

    r = rng.random()
    if r < 0.08:
        bs = None  # Unset → derived from the source chunking
    elif r < 0.16:
        bs = rng.choice([16, 32, 64, 100])  # plain int
    else:
        bs = [blk() for _ in range(rng.choice([1, 1, 2, 3]))]
    # compression matrix: every codec the writer accepts (tifffile names + odc-geo's LERC_DEFLATE / LERC_ZSTD), letter
    # case varied, with the GDAL-style level keywords that belong to it, `level=`, `compressionargs=` and predictor
    comp = rng.choice(["deflate", "deflate", "zstd", "zstd", "none", "adobe_deflate", "lzw", "packbits", "lzma", "lerc",
                       "lerc_deflate", "lerc_zstd", "LERC_ZSTD", "Lerc_Deflate", "ZSTD", "jpeg", "webp"])
    ckw = {}
    cu = comp.upper()
    own = {"DEFLATE": "zlevel", "ADOBE_DEFLATE": "zlevel", "ZSTD": "zstd_level", "LERC": "max_z_error",
           "LERC_DEFLATE": "max_z_error", "LERC_ZSTD": "max_z_error", "WEBP": "webp_level", "JPEG": "jpeg_quality"}.get(cu)
    case = lambda k: rng.choice([k, k.upper()])
    r_ = rng.random()
    if own is not None and r_ < 0.35:
        ckw[case(own)] = (rng.choice([0.5, 1, 2, 9]) if own == "max_z_error" else
                          rng.choice([75, 90]) if own in ("jpeg_quality", "webp_level") else rng.choice([1, 6, 9]))
    elif r_ < 0.5 and cu != "NONE":
        ckw["level"] = rng.choice([1, 5, 9]) if not cu.startswith("LERC") else rng.choice([0.5, 2])
    if cu == "LERC_DEFLATE" and rng.random() < 0.6:
        ckw[case("zlevel")] = rng.choice([1, 9])
    if cu == "LERC_ZSTD" and rng.random() < 0.6:
        ckw[case("zstd_level")] = rng.choice([1, 9])
    pred = rng.choice([None, True, False, "int"])
    if pred == "int":
        # the TIFF predictor number itself: 1 = none, 2 = horizontal differencing (integers), 3 = floating point
        pred = rng.choice([1, 3 if np.dtype(dt).kind == "f" else 2]) if cu != "NONE" else 1
    if (cu == "NONE" and pred is True) or cu.startswith("LERC") or cu in ("JPEG", "WEBP", "PACKBITS"):
        pred = None if cu != "NONE" else False  # predictor only where tifffile allows it (else: rejected configuration)
    if cu in ("JPEG", "WEBP"):
        dt = "uint8"
        if cu == "WEBP":
            ax, ns = "YXS", rng.choice([3, 4])
        elif ax != "YX":
            ax, ns = "YXS", 3
    elif rng.random() < 0.08:
        dt = rng.choice(["int64", "uint64", "float16", "int8", "int32"])  # dtypes some codecs cannot take
    if isinstance(pred, int) and not isinstance(pred, bool) and pred != 1:
        k_, sz_ = np.dtype(dt).kind, np.dtype(dt).itemsize
        pred = 3 if (k_ == "f" and sz_ >= 4) else (2 if (k_ in "ui" and sz_ <= 4) else 1)
    if dt == "float64":
        nodata = rng.choice([None, None, 0, -9999, float("nan"), 1.7976931348623157e308, 5e-324, -1e308])
    elif dt == "float32":
        nodata = rng.choice([None, None, 0, -9999, float("nan"), 3.4028234663852886e38, float(np.float32(1 / 3))])
    elif dt == "uint8":
        nodata = rng.choice([None, None, 0, 7, 255])
    elif dt == "uint16":
        nodata = rng.choice([None, None, 0, 7, 65535])
    elif dt in ("int8", "float16", "uint64"):
        nodata = rng.choice([None, None, 0, 7])
    else:
        nodata = rng.choice([None, None, 0, -9999, 7])
    # source chunking: anything from single pixels to one chunk, but keep the dask graph small (<= ~500 chunks)
    cy, cx = rng.choice([16, 32, 50, 64, 300, 7, 1]), rng.choice([16, 32, 50, 64, 300, 7, 1])
    while -(-ny // cy) * -(-nx // cx) > 500:
        if -(-ny // cy) >= -(-nx // cx):
            cy *= 2
        else:
            cx *= 2
    # irregular source chunking (explicit chunk tuples): chunks equal to / larger / smaller than the tile, mixed
    irregular = None
    if rng.random() < 0.3:
        t0 = 16 if bs is None else (bs if isinstance(bs, int) else bs[0])
        t0 = ceil_to(max(t0 if isinstance(t0, int) else t0[0], 1), 16)

        def split(n):
            out = []
            while sum(out) < n and len(out) < 24:
                out.append(rng.choice([t0, t0, 2 * t0, max(t0 // 2, 1), rng.randint(1, t0), 3 * t0]))
            if sum(out) < n:
                out.append(n - sum(out))
            out[-1] -= sum(out) - n
            return [c for c in out if c > 0]

        irregular = [split(ny), split(nx)]
    recompute = rng.random() < 0.1
    spill = {}
    if recompute and rng.random() < 0.7:
        # recompute AFTER spills: incompressible 32 KiB tiles, spill threshold 1 byte, spare write credits — every append
        # task and every merge writes parts before the graph is computed a second and a third time
        ny, nx, dt, bs, comp, ckw, pred, nodata = rng.randint(130, 300), rng.randint(130, 300), "float64", [64], "zstd", {}, None, None
        if ax == "SYX" and ns == ny == nx:
            nx += 1
        irregular = None
        cy, cx = rng.choice([32, 64, 100, 300]), rng.choice([32, 64, 100, 300])  # (the chunking chosen above was for another shape)
        spill = dict(spill_sz=1, wpc=rng.choice([2, 3]))
    out_cfg = dict(
        shape=[ny, nx], axis=ax, ns=ns, dtype=dt, blocksize=bs, comp=comp, ckw=ckw, predictor=pred, nodata=nodata,
        chunks=[cy, cx], irregular=irregular, byteorder=rng.choice(["=", "=", "=", "=", "=", ">"]),
        dst_state=rng.choice(["fresh", "fresh", "fresh", "existing-small", "existing-large", "parts-dir", "stale-parts", "stale-parts-some"]),
        recompute=recompute, bs_container=rng.choice(["list", "list", "tuple"]),
        nd_spell=rng.choice(SPELLINGS), cargs_route=rng.random() < 0.25 and cu not in ("JPEG", "WEBP", "NONE", "LZW", "PACKBITS", "LZMA"),
        sch=band_chunking(rng, ns), mem_layout=rng.choice(MEM_LAYOUTS),
        spill_sz=rng.choice([None, None, 0, 1, 5000, 20000, 100000]),
        wpc=rng.choice([None, None, 1, 2, 3]), bigtiff=rng.choice([None, None, True, False]),
        stats=rng.choice([True, False, True, 0, 0, 1, 2]),  # int: statistics from that pyramid level (0 = full resolution; falsy!)
        nd_carrier=rng.choice(["attrs", "attrs", "fill", "fill", "both"]), nd_enc_decoy=rng.random() < 0.3,
        sched=rng.choice(["sync", "threads1", "threads2", "threads4", "threads8", "rand", "rand", "rand"]),
        pixseed=rng.randint(0, 10**6), level=rng.choice([None, None, 1, 9]) if not ckw and cu in ("DEFLATE", "ZSTD") else None,
        dyadic=rng.random() < 0.75,
        dask_cfg=rng.randrange(len(DASK_CFGS)),
    )
    out_cfg.update(spill)
    return out_cfg


def build_input(cfg, GeoBox, wrap_xr):
    import dask.array as da  # pylint: disable=import-outside-toplevel

    ny, nx = cfg["shape"]
    ax, ns, dt = cfg["axis"], cfg["ns"], np.dtype(cfg["dtype"])
    gbox = mk_gbox(random.Random(cfg["pixseed"]), ny, nx, GeoBox, dyadic=cfg.get("dyadic", True))
    cfg["_crs_spec"] = mk_gbox.last_spec
    prng = np.random.default_rng(cfg.get("dataseed", cfg["pixseed"]))  # (dataseed: other pixels on the same grid)
    shp = (ny, nx) if ax == "YX" else ((ny, nx, ns) if ax == "YXS" else (ns, ny, nx))
    if dt.kind == "f":
        pix = prng.normal(size=shp).astype(dt)
    else:
        ii = np.iinfo(dt)
        pix = prng.integers(max(ii.min, -30000), min(ii.max, 30000), size=shp, endpoint=True).astype(dt)
    nodata = cfg["nodata"]
    if nodata is not None and pix.size > 3 and prng.random() < 0.5:
        # some genuine nodata pixels inside the image
        flat = pix.reshape(-1)
        flat[prng.integers(0, flat.size, size=max(1, flat.size // 7))] = nodata
    cy, cx = cfg["chunks"]
    if cfg.get("irregular"):
        cy, cx = (tuple(c) for c in cfg["irregular"])
    sch = tuple(cfg["sch"]) if isinstance(cfg["sch"], list) else cfg["sch"]
    ch = (cy, cx) if ax == "YX" else ((cy, cx, sch) if ax == "YXS" else (sch, cy, cx))
    if cfg.get("byteorder", "=") == ">" and dt.itemsize > 1:
        pix = pix.astype(dt.newbyteorder(">"))  # same values, big-endian storage
    dd = lay_out(pix, ch, cfg.get("mem_layout", "C"), 1 if ax == "SYX" else 0)
    kw = {}
    if ax == "SYX":
        kw["time"] = [f"20{i:02d}-01-01" for i in range(ns)]
    # how the array carries its nodata: attrs['nodata'] | attrs['_FillValue'] (rioxarray / CF style) | both (attrs['nodata']
    # wins, the other holds a different number); independently an encoding['_FillValue'] holding ANOTHER number may be present,
    # which is not where the accessor documents to look ("nodata/_FillValue attribute").  The intended value is cfg['nodata'].
    nd_sp = spell(nodata, cfg.get("nd_spell", "py"), cfg["dtype"])
    other = None if nodata is None and not cfg.get("nd_enc_decoy") else (3 if not same_nodata(nodata, 3) else 5)
    carrier = cfg.get("nd_carrier", "attrs") if nodata is not None else "attrs"
    if carrier == "fill":
        xx = wrap_xr(dd, gbox, _FillValue=nd_sp, **kw)
    elif carrier == "both":
        xx = wrap_xr(dd, gbox, nodata=nd_sp, _FillValue=other, **kw)
    else:
        xx = wrap_xr(dd, gbox, nodata=nd_sp, **kw)
    if cfg.get("nd_enc_decoy"):
        xx.encoding["_FillValue"] = other
    skw = dict(compression=cfg["comp"], stats=cfg["stats"])
    if cfg["blocksize"] is not None:
        b = cfg["blocksize"]
        skw["blocksize"] = b if isinstance(b, int) else [x if isinstance(x, int) else tuple(x) for x in b]
        if cfg.get("bs_container") == "tuple" and not isinstance(b, int):
            skw["blocksize"] = tuple(skw["blocksize"])  # the level list in another container kind
    for k_cfg, k_kw in (("predictor", "predictor"), ("spill_sz", "spill_sz"), ("wpc", "writes_per_chunk"),
                        ("bigtiff", "bigtiff"), ("level", "level")):
        if cfg.get(k_cfg) is not None:
            skw[k_kw] = cfg[k_cfg]
    if cfg["comp"].lower() == "none" or "level" in cfg.get("ckw", {}):
        skw.pop("level", None)
    skw.update(cfg.get("ckw", {}))
    if cfg.get("cargs_route"):
        # the level travels in a caller-owned compressionargs= dict instead of a keyword
        lv = skw.pop("level", None)
        for k_ in list(skw):
            if k_.lower() in ("zlevel", "zstd_level", "max_z_error") and not (cfg["comp"].upper().startswith("LERC_") and k_.lower() != "max_z_error"):
                lv = skw.pop(k_)
        skw["compressionargs"] = {} if lv is None else {"level": lv}
    return xx, pix, gbox, skw


def same_nodata(a, b) -> bool:
    if a is None or b is None:
        return a is None and b is None
    if isinstance(b, float) and math.isnan(b):
        return isinstance(a, float) and math.isnan(a)
    return a == b


def fill_eq(arr, fill) -> bool:
    if arr.size == 0:
        return True
    if isinstance(fill, float) and math.isnan(fill):
        return bool(np.all(np.isnan(arr)))
    return bool(np.all(arr == fill))


LOSSY_CODECS = ("JPEG", "WEBP")


def expected_codec(cfg):
    """Harness-side reading of the compression request (independent of odc-geo's normaliser): the tifffile codec, the
    keyword arguments its encoder should receive, and the pixel tolerance the caller asked for.  Lossless unless asked:
    only LERC's max_z_error (GDAL keyword, or `level=` which tifffile documents as LERC's max error) permits a deviation;
    zlevel / zstd_level / level of the other codecs, and the inner deflate / zstd level of LERC_*, never do."""
    c = cfg["comp"].upper()
    c = "ADOBE_DEFLATE" if c == "DEFLATE" else c
    lk = {k.lower(): v for k, v in cfg.get("ckw", {}).items()}
    own = {"ADOBE_DEFLATE": "zlevel", "ZSTD": "zstd_level", "LERC": "max_z_error", "LERC_DEFLATE": "max_z_error",
           "LERC_ZSTD": "max_z_error", "WEBP": "webp_level", "JPEG": "jpeg_quality"}.get(c)
    level = lk.get("level", cfg.get("level") if c != "NONE" else None)
    if level is None and own is not None:
        level = lk.get(own)
    args = {} if level is None else {"level": level}
    if c == "LERC_DEFLATE":
        args["compression"] = "deflate"
        if "zlevel" in lk:
            args["compressionargs"] = {"level": lk["zlevel"]}
    if c == "LERC_ZSTD":
        args["compression"] = "zstd"
        if "zstd_level" in lk:
            args["compressionargs"] = {"level": lk["zstd_level"]}
    base = "LERC" if c.startswith("LERC") else c
    tol = float(level) if base == "LERC" and level is not None else 0.0
    return base, args, tol


def codec_probe(cfg, tile_shape):
    """Can the codec itself encode one tile of this dtype / sample layout with these arguments?  None if it can, else the
    codec's own error — then the writer has to fail loudly too, never write empty tiles."""
    import tifffile  # pylint: disable=import-outside-toplevel

    base, args, _ = expected_codec(cfg)
    if base == "NONE":
        return None
    try:
        enc = tifffile.TIFF.COMPRESSORS[int(tifffile.enumarg(tifffile.COMPRESSION, base))]
        blk_ = (np.arange(int(np.prod(tile_shape))) % 97).reshape(tile_shape).astype(np.dtype(cfg["dtype"]))
        out = enc(blk_, **args)
        return None if isinstance(out, (bytes, bytearray)) and len(out) > 0 else "encoder returned nothing"
    except Exception as e:  # pylint: disable=broad-except
        return f"{type(e).__name__}: {str(e)[:120]}"


def innermost_in(e: BaseException, *libs) -> bool:
    tb = traceback.extract_tb(e.__traceback__)
    return bool(tb) and any(f"/{l}/" in tb[-1].filename for l in libs)


def sched_of(cfg) -> str:
    return f"rand{cfg['pixseed']}" if cfg["sched"] == "rand" else cfg["sched"]


def settle_stats(T, xx, skw, cfg):
    """`stats=k` asks for the statistics of pyramid level k, which has to exist: clamp the generated number to the levels the
    configuration really has (dry run)"""
    if isinstance(skw.get("stats"), int) and not isinstance(skw["stats"], bool) and skw["stats"] > 0:
        with dask_cfg(cfg):
            nlv_ = len(T.save_cog_with_dask(xx, "", **dict(skw, stats=False))["meta"].flatten())
        skw["stats"] = min(skw["stats"], nlv_ - 1)


def write_together(cfgs, workdir: str, tags):
    """Build the graphs of several configurations and run them in ONE dask.compute (one scheduler run, shared source
    tasks when the arrays coincide, interleaved multi-part writers).  Returns None or (key, what)."""
    _, _, T, GeoBox, wrap_xr = _imp()
    try:
        with dask_cfg(cfgs[0]):
            futs = []
            for cfg, tag in zip(cfgs, tags):
                xx, _, _, skw = build_input(cfg, GeoBox, wrap_xr)
                settle_stats(T, xx, skw, cfg)
                fn = os.path.join(workdir, f"{tag}.tif")
                if os.path.exists(fn):
                    os.unlink(fn)
                futs.append(T.save_cog_with_dask(xx, fn, **dict(skw)))
            compute_with(futs, sched_of(cfgs[0]))
    except Exception as e:  # pylint: disable=broad-except
        return (f"save-cog-raises:{type(e).__name__}@joint-compute", f"{type(e).__name__}: {str(e)[:200]}")
    return None


def joint_minimal(R: Run, rng: random.Random, workdir: str, k: int):
    """2-3 saves computed in ONE dask.compute whose differences are reduced to the minimum, one kind at a time: only the
    directory differs (same base name, same parts-directory name, same pixels, same options → identical headers), directory
    + pixel data, directory + one writer option; stats on and off.  dask merges tasks with equal keys, so whatever tells two
    saves apart must reach the task names.  Oracle: the value returned for save j is path j, every destination exists and
    decodes (GDAL and tifffile, full e2e judgement) to ITS OWN source pixels."""
    _, _, T, GeoBox, wrap_xr = _imp()
    base = gen_cfg(rng, big=False)
    base.update(shape=[rng.randint(17, 150), rng.randint(17, 150)], dtype=rng.choice(DTYPES), comp=rng.choice(["deflate", "zstd"]), ckw={},
                level=None, predictor=None, blocksize=rng.choice([[16], [32, 16], [64]]), bs_container="list", cargs_route=False,
                recompute=False, dst_state="fresh", irregular=None, byteorder="=", nodata=rng.choice([None, 7]), dyadic=True,
                stats=rng.random() < 0.5, chunks=[rng.choice([16, 32, 64]), rng.choice([16, 32, 64])],
                spill_sz=rng.choice([None, 1, 5000]), wpc=rng.choice([None, 2]))
    if base["axis"] == "YX":
        base["ns"] = 1
    if base["axis"] == "SYX" and base["ns"] == base["shape"][0] == base["shape"][1]:
        base["shape"][1] += 1
    n = rng.choice([2, 2, 3])
    kind = rng.choice(["dir-only", "dir+data", "dir+data", "dir+option"])
    if k < 3:  # the three kinds, with and without stats, are in every run
        kind, base["stats"] = [("dir+data", False), ("dir-only", True), ("dir+option", False)][k]
    cfgs = [dict(base, shape=list(base["shape"])) for _ in range(n)]
    for j in range(1, n):
        if kind == "dir+data" and not (n == 3 and j == 1 and rng.random() < 0.5):  # mixing identical and different pixel data
            cfgs[j]["dataseed"] = base["pixseed"] + 1000 + j
        elif kind == "dir+option":
            opt = rng.choice(["spill_sz", "wpc", "bigtiff", "level"])
            cfgs[j][opt] = {"spill_sz": rng.choice([1, 20000]), "wpc": 3, "bigtiff": False, "level": 9}[opt] if cfgs[j].get(opt) in (None, True) else None
    name = rng.choice(["B04", "cog", "out"])
    dirs = [os.path.join(workdir, f"j{k}", sub) for sub in ("sceneA", "sceneB", "sceneC")[:n]]
    fns = [os.path.join(d_, f"{name}.tif") for d_ in dirs]
    case = {"fn": "joint compute, minimal differences", "kind": kind, "cfgs": cfgs, "paths": [os.path.relpath(f_, workdir) for f_ in fns]}
    sig = f"e2e|joint-minimal|{kind}|stats={base['stats']}"
    try:
        with dask_cfg(base):
            futs = []
            for cfg, d_, fn in zip(cfgs, dirs, fns):
                os.makedirs(d_, exist_ok=True)
                xx, _, _, skw = build_input(cfg, GeoBox, wrap_xr)
                settle_stats(T, xx, skw, cfg)
                futs.append(T.save_cog_with_dask(xx, fn, **dict(skw)))
            res = with_timeout(240.0, lambda: compute_with(futs, sched_of(base)))
    except Exception as e:  # pylint: disable=broad-except
        R.oracle(False, f"save-cog-raises:{type(e).__name__}@joint-compute", case, f"{type(e).__name__}: {str(e)[:200]}", sig=sig)
        shutil.rmtree(os.path.join(workdir, f"j{k}"), ignore_errors=True)
        return
    bad = []
    for j, (r_, fn) in enumerate(zip(res, fns)):
        if str(r_) != fn:
            bad.append(f"save {j} returned {os.path.relpath(str(r_), workdir)!r}, its destination is {os.path.relpath(fn, workdir)!r}")
        if not os.path.exists(fn):
            bad.append(f"destination {os.path.relpath(fn, workdir)!r} of save {j} was never written")
    R.oracle(not bad, "joint-compute-wrong-or-missing-file", case, "; ".join(bad[:4]), sig=sig)
    if not bad:
        for j, (cfg, d_) in enumerate(zip(cfgs, dirs)):
            run_e2e(R, cfg, d_, name, precomputed=True)
    shutil.rmtree(os.path.join(workdir, f"j{k}"), ignore_errors=True)


def e2e(cfg, workdir: str, tag: str, precomputed: bool = False, shared=None):
    """Run one end-to-end case on the real code.  Returns (facts, failures): `facts` are the
    canonical strings for the correspondence lines, `failures` = [(key, what)] of the oracle.
    precomputed=True: the file was already written by `write_together`; only judge it."""
    # pylint: disable=import-outside-toplevel,too-many-locals,too-many-branches,too-many-statements
    import rasterio
    import tifffile

    _, _, T, GeoBox, wrap_xr = _imp()
    fails = []
    facts = {}
    xx, pix, gbox0, skw = build_input(cfg, GeoBox, wrap_xr)
    if shared:  # option OBJECTS the caller re-uses across several saves
        skw["compressionargs"] = shared["cargs"]
        if isinstance(skw.get("blocksize"), list) and skw["blocksize"] == shared["blocksize"]:
            skw["blocksize"] = shared["blocksize"]
    owned = {k: v for k, v in skw.items() if isinstance(v, (dict, list))}
    owned["xx.attrs"] = xx.attrs
    owned_before = {k: snapshot(v) for k, v in owned.items()}

    def check_owned():
        ch = [k for k, v in owned.items() if snapshot(v) != owned_before[k]]
        if ch and not any(k_ == "caller-argument-mutated" for k_, _ in fails):
            fails.append(("caller-argument-mutated", "save_cog_with_dask modified the caller's own object(s): "
                          + "; ".join(f"{k}={owned[k]!r}"[:100] for k in ch)))

    gbox = xx.odc.geobox  # what the writer sees (identical to gbox0 on the dyadic stream)
    if gbox is None or tuple(gbox.shape) != tuple(cfg["shape"]):
        return facts, [("harness-geobox", "input array lost its geobox")]
    ny, nx = cfg["shape"]
    ax = cfg["axis"]
    fn = os.path.join(workdir, f"{tag}.tif")
    if os.path.exists(fn) and not precomputed:
        os.unlink(fn)

    # ---- what the header writer decided (no compute)
    ydim = 1 if ax == "SYX" else 0
    dchunks = xx.data.chunksize[ydim:ydim + 2]
    if cfg["blocksize"] is None:
        facts["cog_line"] = f"c05 cogdef {list_s(xx.shape)} {gbox_s(gbox)} {dchunks[0]} {dchunks[1]}"
        last_tile = (max(int(max(dchunks) // 2), 1),) * 2
    else:
        b = cfg["blocksize"]
        bl = [b] if isinstance(b, int) else b
        facts["cog_line"] = f"c05 cog {list_s(xx.shape)} {gbox_s(gbox)} {list_s(bl, blk_s)}"
        lb = bl[-1]
        last_tile = (lb, lb) if isinstance(lb, int) else tuple(lb)
    try:
        settle_stats(T, xx, skw, cfg)
        with dask_cfg(cfg):
            dry = T.save_cog_with_dask(xx, "", **dict(skw))
        meta = dry["meta"]
        facts["cog"] = cog_s(meta)
        check_owned()
    except Exception as e:  # pylint: disable=broad-except
        if innermost_in(e, "tifffile", "imagecodecs") and cfg["comp"].lower() not in ("deflate", "zstd", "none"):
            # tifffile's own validation refuses the combination (e.g. JPEG with 16-bit samples): a rejected
            # configuration, nothing written, nothing judged
            facts.pop("cog_line", None)
            facts["rejected"] = f"{type(e).__name__}: {str(e)[:80]}"
            return facts, fails
        facts["cog"] = "ERR:" + type(e).__name__
        fails.append((f"save-cog-raises:{type(e).__name__}@header", f"header/graph construction raised {type(e).__name__}: {e}"))
        return facts, fails
    base_codec, _, tol = expected_codec(cfg)
    probe_err = codec_probe(cfg, meta.chunks if ax != "SYX" else meta.tile.yx)

    # ---- destination state before the write: fresh path, pre-existing file (smaller / larger than the new COG),
    # pre-existing (empty) parts directory
    if not precomputed:
        st = cfg.get("dst_state", "fresh")
        if st == "existing-small":
            open(fn, "wb").write(b"II*\x00 an older, smaller file")
        elif st == "existing-large":
            open(fn, "wb").write(os.urandom(300_000))
        elif st == "parts-dir":
            os.makedirs(os.path.join(workdir, f".{tag}.tif.parts"), exist_ok=True)
        elif st in ("stale-parts", "stale-parts-some"):
            # an EARLIER run to the same destination that died at the very end: the same save of another image (same shape,
            # dtype, layout, options: every pixel differs) with the destination path occupied by a directory, so that the
            # sink's final move fails after every part file was written.  Its parts directory stays behind with the same part
            # names (and, for fixed-length encodings, the same sizes) but yesterday's bytes.  "-some": only every other
            # stale part is kept.  Then the path is cleared and today's save runs: the file must be today's image.
            pdir = os.path.join(workdir, f".{tag}.tif.parts")
            os.mkdir(fn)
            try:
                day1 = xx.copy(data=(xx.data + xx.dtype.type(1)) if xx.dtype.kind != "f" else (xx.data * xx.dtype.type(-1) + xx.dtype.type(3)))
                with dask_cfg(cfg):
                    with_timeout(60, lambda: T.save_cog_with_dask(day1, fn, **dict(skw)).compute(scheduler="synchronous"))
            except Exception:  # pylint: disable=broad-except
                pass
            finally:
                if os.path.isdir(fn):
                    os.rmdir(fn)
                elif os.path.exists(fn):
                    os.unlink(fn)
            stale = sorted(os.listdir(pdir)) if os.path.isdir(pdir) else []
            if st == "stale-parts-some":
                for k_, name_ in enumerate(stale):
                    if k_ % 2:
                        os.unlink(os.path.join(pdir, name_))
            facts["stale_parts"] = len(stale)

    # ---- the real parallel write
    try:
        if precomputed:
            if not os.path.exists(fn):
                fails.append(("save-cog-no-file", "joint compute left no file"))
                return facts, fails
        else:
            with dask_cfg(cfg):
                fut = T.save_cog_with_dask(xx, fn, **dict(skw))
                rr = compute_with(fut, sched_of(cfg))
                if str(rr) == fn and os.path.exists(fn) and cfg.get("recompute"):
                    first = open(fn, "rb").read()
                    for nth in ("second", "third"):  # the same Delayed, computed again and again
                        try:
                            compute_with(fut, sched_of(cfg))
                        except Exception as e2:  # pylint: disable=broad-except
                            fails.append(("recompute-fails", f"the {nth} compute() of the same Delayed raised {type(e2).__name__}: {str(e2)[:120]}"))
                            break
                        if open(fn, "rb").read() != first:
                            fails.append(("recompute-changes-file", f"the {nth} compute() of the same Delayed changed the file"))
                            break
                    if fails:
                        for leftover in (fn,):
                            if os.path.exists(leftover):
                                os.unlink(leftover)
                        shutil.rmtree(os.path.join(workdir, f".{tag}.tif.parts"), ignore_errors=True)
                        return facts, fails
            if str(rr) != fn or not os.path.exists(fn):
                fails.append(("save-cog-no-file", f"compute() returned {rr!r}"))
                return facts, fails
            if cfg.get("dst_state", "fresh") != "fresh" or cfg.get("recompute"):
                # the destination must be exactly the new COG: byte-identical to the same save into a fresh path
                ref = os.path.join(workdir, f"{tag}-fresh.tif")
                with dask_cfg(cfg):
                    T.save_cog_with_dask(xx, ref, **dict(skw)).compute(scheduler="synchronous")
                same = open(ref, "rb").read() == open(fn, "rb").read()
                os.unlink(ref)
                if not same:
                    fails.append(("destination-not-exactly-new-file",
                                  f"destination state {cfg.get('dst_state')}: file differs from the same save into a fresh path "
                                  f"({os.path.getsize(fn)} bytes)"))
                    os.unlink(fn)
                    return facts, fails  # not the new COG: nothing further to decode
    except Exception as e:  # pylint: disable=broad-except
        if probe_err is None and base_codec in LOSSY_CODECS and innermost_in(e, "imagecodecs", "tifffile"):
            probe_err = f"{type(e).__name__}: {str(e)[:80]}"  # the lossy codec's own refusal (sample layout, size)
        if probe_err is not None and not precomputed:
            facts["rejected"] = f"codec cannot encode this: {probe_err}"  # loud failure is the right outcome
            facts.pop("cog_line", None)
            for leftover in (fn, ):
                if os.path.exists(leftover) and cfg.get("dst_state", "fresh") == "fresh":
                    fails.append(("failed-save-left-a-file", "the save raised but left a destination file behind"))
            return facts, fails
        tb = traceback.extract_tb(e.__traceback__)
        loc = [f"{os.path.basename(t.filename)}:{t.name}" for t in tb if "odc/geo" in t.filename][-1:]
        where = loc[0].split(":")[1] if loc else "dask"
        fails.append((f"save-cog-raises:{type(e).__name__}@{where}", f"compute() raised {type(e).__name__}: {str(e)[:200]} at {loc}"))
        return facts, fails
    check_owned()
    if os.path.exists(os.path.join(workdir, f".{tag}.tif.parts")):
        fails.append(("parts-dir-left-behind", "temporary parts directory not removed"))
    if probe_err is not None:
        fails.append(("codec-failure-swallowed", f"the codec cannot encode this configuration ({probe_err}) but the save reported success"))

    metas = list(meta.flatten())
    fsize = os.path.getsize(fn)
    fill = 0 if cfg["nodata"] is None else cfg["nodata"]
    want = pix if ax == "SYX" else (pix[None] if ax == "YX" else pix.transpose(2, 0, 1))
    want = want.astype(want.dtype.newbyteorder("="))  # values, whatever the storage byte order of the source
    lossy = base_codec in LOSSY_CODECS

    def px_equal(a, b):
        if lossy:
            return True  # JPEG / WEBP: lossy by nature, pixel values not judged (structure, shape, dtype are)
        if base_codec == "LERC" and b.dtype.kind == "f" and np.isnan(b).any():
            # LERC keeps NaN as a per-pixel validity mask shared by the samples of a pixel: judge the pixels without NaN
            ok_ = ~np.isnan(b).any(axis=0, keepdims=True)
            a, b = np.where(ok_, a, 0), np.where(ok_, b, 0)
        if tol > 0:
            d = np.abs(a.astype("float64") - b.astype("float64"))
            return bool(np.all((d <= tol * (1 + 1e-6)) | (np.isnan(a.astype("float64")) & np.isnan(b.astype("float64")))))
        return np.array_equal(a, b, equal_nan=True)

    # ---- tifffile: structure, tags, decode
    with tifffile.TiffFile(fn) as tf:
        pages = list(tf.pages)
        page_shapes = [(p.imagelength, p.imagewidth) for p in pages]
        page_tiles = [(p.tilelength, p.tilewidth) for p in pages]
        tags = [(list(p.tags[324].value), list(p.tags[325].value)) for p in pages]
        # GDAL_NODATA (42113) as an independent TIFF reader finds it: there exactly when the array has a nodata value, and its
        # TEXT parses to that very number (the text itself is GDAL's; odc-geo hands it float(nodata))
        t_nd = pages[0].tags.get(42113)
        nd_txt = None if t_nd is None else str(t_nd.value).strip("\x00 ")
        try:
            nd_val = None if nd_txt is None else float(nd_txt)
        except ValueError:
            nd_val = "unparsable"
        if nd_val == "unparsable" or not same_nodata(nd_val, None if cfg["nodata"] is None else float(cfg["nodata"])):
            fails.append(("nodata-tag-differs", f"GDAL_NODATA tag text {nd_txt!r}, array nodata {cfg['nodata']!r}"))
        if cfg.get("dyadic", True):
            a_ = gbox.transform
            facts["geotags_line"] = "c05 geotags " + ";".join(frac_s(float(v)) for v in (a_.a, a_.b, a_.c, a_.d, a_.e, a_.f))
            facts["geotags"] = " ".join(f"{code}=" + list_s([frac_s(float(x)) for x in pages[0].tags[code].value])
                                        for code in (33550, 33922, 34264) if code in pages[0].tags)
        reduced = [bool(p.is_reduced) for p in pages]
        spp = [p.samplesperpixel for p in pages]
        tag_end = 0
        for p in pages:
            for t in p.tags.values():
                tag_end = max(tag_end, t.offset + (20 if tf.is_bigtiff else 12))
                if t.valueoffset != t.offset + (12 if tf.is_bigtiff else 8):  # value stored out of line
                    tag_end = max(tag_end, t.valueoffset + t.valuebytecount)
        try:
            a0 = pages[0].asarray()
            tf_levels = [p.asarray() for p in pages]
        except Exception as e:  # pylint: disable=broad-except
            fails.append(("tifffile-cannot-decode", f"{type(e).__name__}: {e}"))
            a0, tf_levels = None, []

    bad = layout_oracle((ny, nx), last_tile, page_shapes, page_tiles)
    for b_ in bad:
        fails.append(("layout-rule", b_))
    if any(reduced[:1]) or not all(reduced[1:]):
        fails.append(("subfiletype", f"reduced-image flags {reduced}"))
    if any(s != cfg["ns"] for s in spp):
        fails.append(("samples-per-pixel", f"{spp} for {cfg['ns']} samples"))
    all_offs = [o for os_, _ in tags for o in os_]
    all_lens = [n for _, ns_ in tags for n in ns_]
    if any(n == 0 for n in all_lens):
        fails.append(("empty-tile", "a tile has byte count 0 (encoder failed?)"))
    hdr_sz = min((o for o, n in zip(all_offs, all_lens) if n), default=0)
    msg = intervals_oracle(all_offs, all_lens, hdr_sz, fsize)
    if msg:
        fails.append(("tile-offsets-gaps-or-overlaps", msg))
    if hdr_sz < tag_end:
        fails.append(("tile-data-inside-header", f"first tile at {hdr_sz} but IFD data reaches {tag_end}"))
    if len(tags) > 1:
        ov_end = max(o + n for os_, ns_ in tags[1:] for o, n in zip(os_, ns_))
        full_start = min((o for o, n in zip(*tags[0]) if n), default=None)
        if full_start is not None and ov_end > full_start:
            fails.append(("overviews-not-first", f"overview data reaches {ov_end}, full resolution starts at {full_start}"))
    for k, (m, sh, tl, (os_, _)) in enumerate(zip(metas, page_shapes, page_tiles, tags)):
        cy, cx = -(-sh[0] // tl[0]), -(-sh[1] // tl[1])
        planes = cfg["ns"] if ax == "SYX" else 1
        if len(os_) != planes * cy * cx:
            fails.append(("tile-count", f"IFD {k}: {len(os_)} tiles for grid {planes}x{cy}x{cx}"))
        if (m.shape.y, m.shape.x) != sh or (m.tile.y, m.tile.x) != tl:
            fails.append(("header-differs-from-meta", f"IFD {k}: file {sh}/{tl} meta {m.shape}/{m.tile}"))

    # stream order as found in the file → correspondence with the model's write order and patching
    obs = []
    for k, ((os_, ns_), sh, tl) in enumerate(zip(tags, page_shapes, page_tiles)):
        cy, cx = -(-sh[0] // tl[0]), -(-sh[1] // tl[1])
        for f, (o, n) in enumerate(zip(os_, ns_)):
            obs.append((o, k, f // (cy * cx), (f // cx) % cy, f % cx, n))
    obs.sort()
    ms = list_s(metas, meta_s)
    facts["order_line"] = f"c05 order {ms}"
    facts["order"] = list_s([f"{k};{p};{y};{x}" for _, k, p, y, x, _ in obs])
    facts["patch_line"] = f"c05 patch {ms} {hdr_sz} " + list_s([f"{k};{p};{y};{x};{n}" for _, k, p, y, x, n in obs])
    facts["patch"] = info_s(tags)

    # ---- rasterio / GDAL decode
    try:
        with rasterio.open(fn) as f:
            got = f.read()
            H, W = f.shape
            if (H, W) != page_shapes[0]:
                fails.append(("gdal-shape", f"GDAL sees {(H, W)} tifffile {page_shapes[0]}"))
            if got.shape[0] != want.shape[0] or got.dtype != want.dtype:
                fails.append(("band-count-or-dtype", f"read {got.shape} {got.dtype}, wrote {want.shape} {want.dtype}"))
            elif not px_equal(got[:, :ny, :nx], want):
                dmax = float(np.nanmax(np.abs(got[:, :ny, :nx].astype("float64") - want.astype("float64"))))
                fails.append(("pixels-differ-gdal", f"{int(np.sum(got[:, :ny, :nx] != want))} pixels differ, largest deviation "
                              f"{dmax} (codec {base_codec}, tolerance asked for: {tol})"))
            elif tol == 0 and not lossy and not (fill_eq(got[:, ny:, :], fill) and fill_eq(got[:, :, nx:], fill)):
                fails.append(("padding-not-fill", f"right/bottom padding is not the fill value {fill}"))
            ft, gt = tuple(f.transform)[:6], tuple(gbox0.transform)[:6]
            if cfg.get("dyadic", True):
                t_ok = ft == gt
            else:
                # float stream: the transform travels through xarray coordinates (x0 + (i + .5) * res, absolute
                # doubles) before GDAL sees it, so each coefficient is only good to a few ulps of the largest
                # coordinate magnitude; documented slack: 16 ulp(max |coordinate|)  (≪ 1e-5 pixel over the image)
                mag = max(abs(gt[2]), abs(gt[5]), 1.0) + (max(ny, nx) + 1) * (abs(gt[0]) + abs(gt[1]) + abs(gt[3]) + abs(gt[4]))
                t_ok = all(abs(a - b) <= 16 * 2.0**-52 * mag for a, b in zip(ft, gt))
            if not t_ok:
                fails.append(("transform-differs", f"{ft} vs {gt}"))
            crs_ok, crs_msg = crs_same(f.crs, cfg["_crs_spec"])
            if not crs_ok:
                fails.append(("crs-differs", crs_msg))
            if not same_nodata(f.nodata, cfg["nodata"]):
                fails.append(("nodata-differs", f"{f.nodata} vs {cfg['nodata']}"))
            # statistics: present for every band exactly when asked for (stats=False: none; True / a level number incl. 0:
            # computed from that level); from the full-resolution level they are the numbers of the source pixels
            st_arg = skw.get("stats", True)
            want_stats = st_arg is not False
            st_tags = [{k: v for k, v in f.tags(b + 1).items() if k.startswith("STATISTICS_")} for b in range(f.count)]
            if any(bool(t) != want_stats for t in st_tags):
                fails.append(("statistics-presence", f"stats={st_arg!r}: bands carry {[sorted(t) for t in st_tags]}"))
            elif want_stats:
                lvl_ = (len(pages) // 2) if st_arg is True else int(st_arg)
                nd_ = cfg["nodata"]
                for b, t in enumerate(st_tags):
                    # a band without a single valid pixel is rendered by the writer as 'nan' or '--' (numpy's masked constant):
                    # read both as "no valid pixels"
                    num = lambda v: float("nan") if v.strip() == "--" else float(v)
                    try:
                        mn, mx, mean = num(t["STATISTICS_MINIMUM"]), num(t["STATISTICS_MAXIMUM"]), num(t["STATISTICS_MEAN"])
                    except (KeyError, ValueError) as e_:
                        fails.append(("statistics-malformed", f"band {b + 1}: {t} ({e_})"))
                        break
                    if lvl_ > 0 and (math.isnan(mn) or math.isnan(mx) or math.isnan(mean)):
                        continue  # an overview level without a single valid pixel (e.g. the level below a 1-row image): nothing to judge
                    src_b = want[b].astype("float64")
                    if np.isnan(src_b).any() or (isinstance(nd_, float) and math.isnan(nd_)) or not np.isfinite(src_b).all():
                        continue
                    valid = src_b[src_b != nd_] if nd_ is not None else src_b.reshape(-1)
                    if valid.size == 0 or abs(valid).max() > 1e30:
                        continue
                    if math.isnan(mn) or math.isnan(mx) or math.isnan(mean):
                        fails.append(("statistics-wrong", f"stats={st_arg!r} band {b + 1} has {valid.size} valid pixels but the file carries no numbers: {t}"))
                        break
                    lo_, hi_ = float(valid.min()), float(valid.max())
                    # 6 decimals are printed; the writer accumulates in the precision numpy / dask choose for the source dtype
                    eps_ = float(np.finfo(want.dtype).eps) if want.dtype.kind == "f" else 0.0
                    slack = max(1e-6, 8 * eps_) * max(1.0, abs(lo_), abs(hi_)) + 1e-6
                    if lvl_ == 0 and not lossy and tol == 0:
                        # min / max are source values (printing error only); the mean is ACCUMULATED by numpy / dask in the source
                        # precision, chunk by chunk: worst-case error of a pairwise / chunked float sum of n terms bounded by
                        # (log2 n + chunks) * eps * max|x|, taken generously; integers are accumulated exactly (float64)
                        n_ = max(int(valid.size), 2)
                        mean_tol = slack + (16 + 4 * math.log2(n_)) * eps_ * max(abs(lo_), abs(hi_), 1.0)
                        ok_st = abs(mn - lo_) <= slack and abs(mx - hi_) <= slack and abs(mean - float(valid.mean())) <= mean_tol
                    else:
                        # an overview level (nearest: a subset of the source pixels) — inside the source range; without a
                        # nodata value the right / bottom padding of the pyramid level (fill 0) is counted by the writer too
                        # (observation, reported: statistics from an overview level include padding pixels)
                        lo2, hi2 = (min(lo_, 0.0), max(hi_, 0.0)) if nd_ is None else (lo_, hi_)
                        ok_st = lossy or tol > 0 or (lo2 - slack <= mn <= mx <= hi2 + slack and lo2 - slack <= mean <= hi2 + slack)
                    if not ok_st:
                        fails.append(("statistics-wrong", f"stats={st_arg!r} (level {lvl_}) band {b + 1}: file says min {mn} max {mx} mean {mean}, "
                                      f"source pixels min {lo_} max {hi_} mean {float(valid.mean())}"))
                        break
            ovs = f.overviews(1)
            if len(ovs) != len(pages) - 1:
                fails.append(("gdal-overview-count", f"GDAL sees overviews {ovs}, file has {len(pages) - 1}"))
            prev = got
            for k in range(1, len(pages)):
                sh = page_shapes[k]
                ov = f.read(out_shape=(got.shape[0], sh[0], sh[1]))
                if tf_levels:
                    tl_ = tf_levels[k]
                    tl_ = tl_[None] if tl_.ndim == 2 else (tl_.transpose(2, 0, 1) if ax == "YXS" else tl_)
                    lerc_nan = base_codec == "LERC" and ov.dtype.kind == "f"  # LERC stores NaN as "invalid"; readers differ
                    if not lerc_nan and (tl_.shape != ov.shape or not np.array_equal(tl_, ov, equal_nan=True)):
                        fails.append(("overview-readers-disagree", f"level {k}: tifffile and GDAL decode differently"))
                # nearest resampling of exact halves: every overview pixel is one of its 2x2 parents
                if tol > 0 or lossy:
                    prev = ov
                    continue
                py, px = ov.shape[1], ov.shape[2]
                blk = np.stack([prev[:, i:2 * py:2, j:2 * px:2] for i in (0, 1) for j in (0, 1)])
                inside_y = (2 * (np.arange(py) + 1)) * 2 ** (k - 1) <= ny
                inside_x = (2 * (np.arange(px) + 1)) * 2 ** (k - 1) <= nx
                msk = inside_y[:, None] & inside_x[None, :]
                hit = np.any((blk == ov[None]) | (np.isnan(blk) & np.isnan(ov[None]) if ov.dtype.kind == "f" else False), axis=0)
                if not np.all(hit[:, msk]):
                    fails.append(("overview-not-from-parents", f"level {k}: a pixel is none of its 2x2 parents"))
                prev = ov
    except Exception as e:  # pylint: disable=broad-except
        fails.append(("gdal-cannot-decode", f"{type(e).__name__}: {e}"))

    if a0 is not None:
        t0 = a0[None] if a0.ndim == 2 else (a0.transpose(2, 0, 1) if ax == "YXS" else a0)
        if t0.shape[0] != want.shape[0] or t0.dtype != want.dtype:
            fails.append(("band-count-or-dtype-tifffile", f"{t0.shape} {t0.dtype}"))
        else:
            tw_, ww_ = t0[:, :ny, :nx], want
            if base_codec == "LERC" and want.dtype.kind == "f":
                # LERC stores NaN as an invalid-pixel mask; tifffile returns 0 there, GDAL the nodata value: compare elsewhere
                ok_ = ~np.isnan(want)
                tw_, ww_ = np.where(ok_, tw_, 0), np.where(ok_, ww_, 0)
            if not px_equal(tw_, ww_):
                fails.append(("pixels-differ-tifffile", "tifffile decodes different pixels"))
    os.unlink(fn)
    return facts, fails


def plan_levels(cfg):
    """[(level shape, tile)] a configuration leads to — harness-side integer arithmetic, used only to keep the
    generator away from the known hang below"""
    ny, nx = cfg["shape"]
    b = cfg["blocksize"]
    if b is None:
        dch = (min(cfg["chunks"][0], ny), min(cfg["chunks"][1], nx))
        b = [dch, max(max(dch) // 2, 1)]
    bl = [b] if isinstance(b, int) else list(b)
    norm = lambda t: (ceil_to(t, 16),) * 2 if isinstance(t, int) else (ceil_to(t[0], 16), ceil_to(t[1], 16))
    ty, tx = norm(bl[-1])
    if min(ty, tx) <= 0:
        return []
    n = max(least_k(ty, ny), least_k(tx, nx))
    P = (ceil_to(ny, 2**n), ceil_to(nx, 2**n))
    return [((P[0] >> k, P[1] >> k), norm(bl[min(k, len(bl) - 1)])) for k in range(n + 1)]


def uncompressed_single_tile_level(cfg) -> bool:
    """KNOWN FINDING (not repaired): with compression NONE, a pyramid level that is exactly one tile makes tifffile
    write "contiguously" and drain the endless `itertools.repeat(b"")` that `_make_empty_cog` passes → endless loop."""
    return cfg["comp"].lower() == "none" and any(sh == tl for sh, tl in plan_levels(cfg))


class _Timeout(Exception):
    pass


def with_timeout(seconds: float, fn):
    """run fn() in the main thread, raising _Timeout if it is still running after `seconds`"""
    import signal  # pylint: disable=import-outside-toplevel

    def _h(*_a):
        raise _Timeout()

    old = signal.signal(signal.SIGALRM, _h)
    signal.setitimer(signal.ITIMER_REAL, seconds)
    try:
        return fn()
    finally:
        signal.setitimer(signal.ITIMER_REAL, 0)
        signal.signal(signal.SIGALRM, old)


# --------------------------------------------------------------------------- forced interleavings at the file sink
class StepSched:
    """Tiny deterministic scheduler (the idea of harness/c18_sched.py): worker threads run the real `MPUFileSink`
    code, but park at every filesystem call the sink makes (`Path.exists`, `Path.mkdir`, `open`) and exactly one of them
    runs at a time, in the order given by `schedule` (a list of thread ids, one entry per step)."""

    def __init__(self, schedule, nthreads):
        self.schedule = list(schedule)
        self.pos = 0
        self.running = None
        self.finished = set()
        self.cv = threading.Condition()
        self.n = nthreads
        self.tl = threading.local()
        self.trace = []
        self.gave_up = False

    def _next(self):
        while self.pos < len(self.schedule) and self.schedule[self.pos] in self.finished:
            self.pos += 1
        if self.pos < len(self.schedule):
            return self.schedule[self.pos]
        left = [t for t in range(self.n) if t not in self.finished]
        return left[0] if left else None

    def yield_point(self, label):
        me = getattr(self.tl, "tid", None)
        if me is None:
            return
        with self.cv:
            if self.running == me:
                self.running = None
                self.cv.notify_all()
            t_end = time.time() + 5.0
            while not self.gave_up and not (self.running is None and self._next() == me):
                if not self.cv.wait(timeout=0.5) and time.time() > t_end:
                    self.gave_up = True
                    self.cv.notify_all()
            self.running = me
            if self.pos < len(self.schedule) and self.schedule[self.pos] == me:
                self.pos += 1
            self.trace.append(f"{me}:{label}")

    def run(self, fns):
        out = [None] * len(fns)

        def body(i):
            self.tl.tid = i
            try:
                self.yield_point("start")
                out[i] = ("ok", fns[i]())
            except BaseException as e:  # pylint: disable=broad-except
                out[i] = ("exc", e)
            finally:
                with self.cv:
                    self.finished.add(i)
                    if self.running == i:
                        self.running = None
                    self.cv.notify_all()

        ths = [threading.Thread(target=body, args=(i,), daemon=True) for i in range(len(fns))]
        for t in ths:
            t.start()
        for t in ths:
            t.join(timeout=20)
        return out


def sink_race_case(schedule, nthreads, workdir, tag):
    """`nthreads` workers each write their first part through ONE shared MPUFileSink while the parts directory does not
    exist yet, interleaved as `schedule` says; then the parts are finalised.  Returns None or (key, what)."""
    # pylint: disable=import-outside-toplevel
    import builtins
    import pathlib

    import odc.geo.cog._mpu_fs as FS

    sch = StepSched(schedule, nthreads)
    base = type(pathlib.Path())

    class YPath(base):  # the sink's own paths: same behaviour, but a scheduling point before each filesystem call
        def exists(self, *a, **k):
            sch.yield_point("exists")
            return super().exists(*a, **k)

        def mkdir(self, *a, **k):
            sch.yield_point("mkdir")
            return super().mkdir(*a, **k)

    def yopen(*a, **k):
        sch.yield_point("open")
        return builtins.open(*a, **k)

    dst = os.path.join(workdir, f"{tag}.bin")
    if getattr(FS, "Path", None) is not pathlib.Path or getattr(FS, "MPUFileSink", None) is None:
        return None  # the sink reaches the file system some other way than through `Path` / `open`: no scheduling points, nothing forced
    old_path, had_open = FS.Path, "open" in vars(FS)
    FS.Path, FS.open = YPath, yopen
    try:
        sink = FS.MPUFileSink(dst)
        payloads = [bytes([65 + i]) * (10 + i) for i in range(nthreads)]
        res = sch.run([lambda i=i: sink(i + 1, payloads[i]) for i in range(nthreads)])
    finally:
        FS.Path = old_path
        if not had_open:
            del FS.open
    try:
        bad = [(i, r[1]) for i, r in enumerate(res) if r is None or r[0] != "ok"]
        if bad:
            i, e = bad[0]
            return ("sink-first-writes-race", f"thread {i} writing its first part raised {type(e).__name__}: {e} (trace {' '.join(sch.trace)})")
        if sch.gave_up:
            return None  # schedule not realisable (a thread needed fewer steps): nothing forced, nothing judged
        parts = sorted((r[1] for r in res), key=lambda p_: p_["PartNumber"])
        sink.finalise(parts)
        got = open(dst, "rb").read()
        if got != b"".join(payloads):
            return ("sink-first-writes-race", f"finalised file differs from the parts in order (trace {' '.join(sch.trace)})")
        return None
    finally:
        shutil.rmtree(os.path.join(workdir, f".{tag}.bin.parts"), ignore_errors=True)
        if os.path.exists(dst):
            os.unlink(dst)


def cfg_sig(cfg) -> str:
    ny, nx = cfg["shape"]
    narrow = "1px" if min(ny, nx) == 1 else ("narrow" if min(ny, nx) < 16 else "wide")
    sched = cfg["sched"].rstrip("0123456789")
    return f"e2e|{cfg['axis']}|{narrow}|{cfg['comp'].lower()}|{sched}"


def run_e2e(R: Run, cfg, workdir: str, tag: str, precomputed: bool = False, shared=None):
    try:
        facts, fails = with_timeout(180.0, lambda: e2e(cfg, workdir, tag, precomputed, shared))
    except _Timeout:
        facts, fails = {}, [("save-cog-does-not-finish", "writing / decoding one small image did not finish within 180 s")]
    except Exception as e:  # pylint: disable=broad-except
        facts, fails = {}, [("harness-e2e-exception", traceback.format_exc()[-800:])]
    sig = cfg_sig(cfg)
    if "rejected" in facts:
        R.count("e2e|configuration-rejected-loudly|" + cfg["comp"].lower())
    if "cog_line" in facts:
        R.corr(facts["cog_line"], lambda: facts["cog"], sig=sig + "|header")
    if "order" in facts:
        R.corr(facts["order_line"], lambda: facts["order"], sig=sig + "|order")
        R.corr(facts["patch_line"], lambda: facts["patch"], sig=sig + "|offsets")
    if "geotags" in facts and "order" in facts:
        R.corr(facts["geotags_line"], lambda: facts["geotags"], sig="geotags|" + facts["geotags"].split("=")[0])
    R.oracle(not fails, fails[0][0] if fails else "e2e", cfg, "; ".join(f"{k}: {w}" for k, w in fails[:4]), sig=sig)
    for k, w in fails[1:]:
        R.oracle(False, k, cfg, w, sig=sig)
    return fails


# --------------------------------------------------------------------------- main
def run(R: Run):
    # pylint: disable=too-many-locals,too-many-branches,too-many-statements
    _missing = set()

    def have(*names):
        """private helpers of odc.geo.cog._tifffile are looked up defensively: a tree that no longer has one under this name
        loses only the DIRECT stream that calls it (the public save_cog_with_dask route still reaches the code); noted once"""
        ok_ = True
        mod_ = _imp()[2]
        for n_ in names:
            if getattr(mod_, n_, None) is None:
                ok_ = False
                if n_ not in _missing:
                    _missing.add(n_)
                    R.notes.append(f"odc.geo.cog._tifffile.{n_} not found: the direct streams using it are skipped, behaviour is judged through save_cog_with_dask")
        return ok_

    M, S, T, GeoBox, wrap_xr = _imp()
    from affine import Affine  # pylint: disable=import-outside-toplevel
    from odc.geo.types import shape_  # pylint: disable=import-outside-toplevel

    rng = R.rng

    # ---- adjust_blocksize / norm_blocksize: exhaustive small, random large
    for b in range(0, R.pick(70, 140)):
        for d in list(range(0, R.pick(70, 140))) + [1000]:
            out = R.corr(f"c05 adj {b} {d}", lambda: str(S.adjust_blocksize(b, d)),
                         sig="adj|" + ("dim-smaller" if 0 < d < b else "block"))
            if not out.startswith("ERR"):
                v = int(out)
                want = -(-(d if 0 < d < b else b) // 16) * 16
                R.oracle(v % 16 == 0 and v == want, "blocksize-not-mult16", {"block": b, "dim": d}, f"got {v}", trivial=True)
    for _ in range(R.pick(300, 3000)):
        b, d = rng.randint(1, 10**rng.randint(1, 6)), rng.randint(0, 10**rng.randint(1, 7))
        R.corr(f"c05 adj {b} {d}", lambda: str(S.adjust_blocksize(b, d)), sig="adj|large")
    for _ in range(R.pick(300, 3000)):
        b, d = rng.choice([huge(rng), rng.randint(1, 5000)]), rng.choice([huge(rng), 0, rng.randint(1, 5000)])
        out = R.corr(f"c05 adj {b} {d}", lambda: str(S.adjust_blocksize(b, d)), sig="adj|huge")
        R.oracle(out == str(ceil_to(d if 0 < d < b else b, 16)), "blocksize-not-mult16", {"block": b, "dim": d}, f"got {out}")
        x, a = huge(rng), rng.choice([16, 2 ** rng.randint(0, 70), rng.randint(1, 10**6), huge(rng)])
        out = R.corr(f"c05 alup {x} {a}", lambda: str(M.align_up(x, a)), sig="alup|huge")
        R.oracle(out == str(ceil_to(x, a)), "align-up-inexact", {"x": x, "a": a}, f"align_up={out}, exact {ceil_to(x, a)}")
    for b in list(range(1, 40)) + [(a, c) for a in (1, 15, 16, 17, 100) for c in (5, 32, 33, 512)]:
        R.corr(f"c05 norm {blk_s(b)}", lambda: "%d %d" % S.norm_blocksize(b))

    # ---- num_overviews: exhaustive for small blocks/dims, random large; oracle = least k
    for b in [1, 2, 3, 5, 16, 17, 32, 48, 100, 256]:
        for d in range(0, R.pick(600, 3000)):
            out = R.corr(f"c05 nov {b} {d}", lambda: str(S.num_overviews(b, d)),
                         sig="nov|" + ("zero" if d <= b else "loop"))
            R.oracle(out == str(least_k(b, d)), "num-overviews-not-least", {"block": b, "dim": d},
                     f"num_overviews={out}, least k with dim//2^k<=block is {least_k(b, d)}", trivial=d <= b)
    for _ in range(R.pick(500, 5000)):
        b, d = rng.choice([16, 256, 512, 1024, rng.randint(1, 5000)]), rng.randint(0, 10**rng.randint(1, 12))
        out = R.corr(f"c05 nov {b} {d}", lambda: str(S.num_overviews(b, d)), sig="nov|large")
        R.oracle(out == str(least_k(b, d)), "num-overviews-not-least", {"block": b, "dim": d}, out)
    for _ in range(R.pick(300, 3000)):
        b = rng.choice([16, 256, 512, 1024, huge(rng)])
        d = rng.choice([huge(rng), edge_dim(rng, b), edge_dim(rng, b)])
        out = R.corr(f"c05 nov {b} {d}", lambda: str(S.num_overviews(b, d)), sig="nov|huge")
        R.oracle(out == str(least_k(b, d)), "num-overviews-not-least", {"block": b, "dim": d},
                 f"num_overviews={out}, least k with dim//2^k<=block is {least_k(b, d)}")
    for x in list(range(0, 70)) + [2**k + e for k in range(7, 110) for e in (-1, 0, 1)] + [huge(rng) for _ in range(50)]:
        out = R.corr(f"c05 pow2 {x}", lambda: str(M.align_down_pow2(x)), sig="pow2")
        R.oracle(out == str(0 if x == 0 else 1 << (x.bit_length() - 1)), "align-down-pow2-inexact", {"x": x}, out, trivial=x < 4)

    # ---- compute_cog_spec incl. max_pad
    def spec_case(y, x, ty, tx, mp):
        res = []

        def f():
            p, t, n = S.compute_cog_spec((y, x), (ty, tx), max_pad=mp)
            res.append((p, t, n))
            return f"{p.y} {p.x} {t.y} {t.x} {n}"

        out = R.corr(f"c05 spec {y} {x} {ty} {tx} {opt_s(mp)}", f, sig="spec|" + ("maxpad" if mp is not None else "plain"))
        R.oracle(out == spec_oracle(y, x, ty, tx, mp), "padded-shape-rule" if mp is None else "padded-shape-maxpad",
                 {"shape": [y, x], "tile": [ty, tx], "max_pad": mp}, f"compute_cog_spec → {out}, exact rule → {spec_oracle(y, x, ty, tx, mp)}")
        if res and mp is None:
            p, t, n = res[0]
            bad = []
            for s, q in ((y, p.y), (x, p.x)):
                if not (s <= q < s + 2**n and q % 2**n == 0):
                    bad.append(f"{s}->{q}")
            R.oracle(not bad and t.y % 16 == 0 and t.x % 16 == 0, "padded-shape-rule",
                     {"shape": [y, x], "tile": [ty, tx]}, f"pad 2^{n}: {bad}")

    small = list(range(1, R.pick(41, 70)))
    for y in small:
        for x in (1, 7, 33, y):
            for t in (16, 32, (16, 48)):
                ty, tx = (t, t) if isinstance(t, int) else t
                spec_case(y, x, ty, tx, None)
    for _ in range(R.pick(800, 8000)):
        y, x = rng.randint(1, 10**rng.randint(1, 6)), rng.randint(1, 10**rng.randint(1, 6))
        ty, tx = rng.choice([16, 100, 256, 512, 1000]), rng.choice([16, 100, 256, 512, 1000])
        spec_case(y, x, ty, tx, rng.choice([None, None, 0, 1, 2, 3, 16, 31, 1000]))
    for _ in range(R.pick(300, 3000)):
        ty, tx = rng.choice([16, 100, 256, 512, huge(rng)]), rng.choice([16, 256, 512, 1000])
        y = rng.choice([huge(rng), rng.randint(1, 10**6), edge_dim(rng, ceil_to(ty, 16))])
        x = rng.choice([huge(rng), edge_dim(rng, ceil_to(tx, 16))])
        spec_case(y, x, ty, tx, rng.choice([None, None, None, 0, 1, 1000, huge(rng)]))

    # ---- yaxis_from_shape
    dims = [1, 2, 3, 4, 5, 8]
    for a in dims:
        for b in dims:
            R.corr(f"c05 yaxis [{a},{b}] N", lambda: "%s %d" % S.yaxis_from_shape((a, b)), sig="yaxis|2d")
            for c in dims:
                shp = (a, b, c)
                for g in [None, (a, b), (b, c), (a, c), (9, 9)]:
                    gb = None if g is None else GeoBox(g, Affine(1, 0, 0, 0, -1, 0), "epsg:3857")
                    out = R.corr(f"c05 yaxis [{a},{b},{c}] {'N' if g is None else f'{g[0]};{g[1]}'}",
                                 lambda: "%s %d" % S.yaxis_from_shape(shp, gb), sig="yaxis|3d")
                    if g is not None and ((a, b) == g) != ((b, c) == g):  # the GeoBox matches exactly one reading
                        R.oracle(out == ("YXS 0" if (a, b) == g else "SYX 1"), "axis-order-wrong",
                                 {"shape": [a, b, c], "gbox_shape": list(g)}, f"yaxis_from_shape → {out}")
    R.corr("c05 yaxis [2,2,2,2] N", lambda: "%s %d" % S.yaxis_from_shape((2, 2, 2, 2)), sig="yaxis|err")
    R.corr("c05 yaxis [2] N", lambda: "%s %d" % S.yaxis_from_shape((2,)), sig="yaxis|err")

    # ---- CogMeta: chunked / num_tiles / tidx / flat_tile_idx / cog_tidx
    def mk_meta(ax, ns, y, x, ty, tx, ovr=()):
        return S.CogMeta(ax, shape_((y, x)), shape_((ty, tx)), ns, "uint8", 8, 1, overviews=tuple(ovr))

    metas_seen = []
    for _ in range(R.pick(150, 1500)):
        ax = rng.choice(["YX", "YXS", "SYX"])
        ns = 1 if ax == "YX" else rng.randint(1, 4)
        y, x = rng.randint(1, 70), rng.randint(1, 70)
        ty, tx = rng.choice([16, 32, 48]), rng.choice([16, 32, 48])
        m = mk_meta(ax, ns, y, x, ty, tx)
        metas_seen.append(m)
        s = meta_s(m)
        out = R.corr(f"c05 ntiles {s}", lambda: f"{m.chunked.y} {m.chunked.x} {m.num_tiles}", sig="meta|ntiles")
        R.oracle(out == f"{-(-y // ty)} {-(-x // tx)} {m.num_planes * -(-y // ty) * -(-x // tx)}", "tile-grid-count", {"meta": s}, out)
        R.corr(f"c05 tidx {s}", lambda: list_s(["%d;%d;%d" % t for t in m.tidx()]), sig="meta|tidx")
        sp = rng.randint(0, ns)
        R.corr(f"c05 tidxp {s} {sp}", lambda: list_s(["%d;%d;%d" % t for t in m.tidx(sp)]), sig="meta|tidx-plane")
        idxs = list(m.tidx())
        flat = [m.flat_tile_idx(t) for t in idxs]
        R.oracle(flat == list(range(m.num_tiles)), "flat-idx-not-bijective", {"meta": s}, f"{flat[:10]}…")
        for _ in range(6):
            t = (rng.randint(-1, m.num_planes), rng.randint(-1, m.chunked.y), rng.randint(-1, m.chunked.x))
            R.corr(f"c05 flat {s} {t[0]} {t[1]} {t[2]}", lambda: str(m.flat_tile_idx(t)), sig="meta|flat")
    for _ in range(R.pick(300, 3000)):  # huge grids: pure integer arithmetic, nothing enumerated
        ax = rng.choice(["YX", "YXS", "SYX"])
        ns = 1 if ax == "YX" else rng.randint(1, 4)
        y, x = huge(rng), rng.choice([huge(rng), rng.randint(1, 10**6)])
        ty, tx = rng.choice([16, 256, 512, 1024]), rng.choice([16, 256, 512, 1024])
        m = mk_meta(ax, ns, y, x, ty, tx)
        s = meta_s(m)
        cy_, cx_ = -(-y // ty), -(-x // tx)
        out = R.corr(f"c05 ntiles {s}", lambda: f"{m.chunked.y} {m.chunked.x} {m.num_tiles}", sig="meta|ntiles-huge")
        R.oracle(out == f"{cy_} {cx_} {m.num_planes * cy_ * cx_}", "tile-grid-count", {"meta": s}, out)
        for _ in range(3):
            t = (rng.randint(0, m.num_planes - 1), rng.choice([0, cy_ - 1, cy_, rng.randrange(cy_)]), rng.choice([0, cx_ - 1, cx_, -1, rng.randrange(cx_)]))
            out = R.corr(f"c05 flat {s} {t[0]} {t[1]} {t[2]}", lambda: str(m.flat_tile_idx(t)), sig="meta|flat-huge")
            inside = 0 <= t[1] < cy_ and 0 <= t[2] < cx_
            R.oracle(out == (str(t[0] * cy_ * cx_ + t[1] * cx_ + t[2]) if inside else "ERR:IndexError"), "flat-idx-wrong",
                     {"meta": s, "idx": list(t)}, out)
    for _ in range(R.pick(60, 600)):
        ns = rng.randint(1, 3)
        ax = "SYX" if ns > 1 else "YX"
        lv = [mk_meta(ax, ns, rng.randint(1, 50), rng.randint(1, 50), 16, rng.choice([16, 32])) for _ in range(rng.randint(1, 4))]
        m = mk_meta(ax, ns, lv[0].shape.y, lv[0].shape.x, lv[0].tile.y, lv[0].tile.x, lv[1:])
        R.corr(f"c05 cogtidx {list_s(m.flatten(), meta_s)}",
               lambda: list_s(["%d;%d;%d;%d" % t for t in m.cog_tidx()]), sig="meta|cog_tidx")

    # ---- _make_empty_cog: header decisions, exhaustive-ish on small shapes incl. sides <= 2^levels
    import tifffile  # pylint: disable=import-outside-toplevel

    def hdr_case(shape, gbox, blocks, check_bytes=False):
        if not have("_make_empty_cog"):
            return
        res = []

        def f():
            meta, hdr = T._make_empty_cog(tuple(shape), "uint8", gbox, blocksize=list(blocks))  # pylint: disable=protected-access
            res.append((meta, bytes(hdr)))
            return cog_s(meta)

        ndim = len(shape)
        side = min(shape[-2:] if ndim == 2 else shape)
        sig = f"hdr|{ndim}d|{'gbox' if gbox is not None else 'nogbox'}|{'tiny' if side <= 8 else 'normal'}"
        out = R.corr(f"c05 cog {list_s(shape)} {gbox_s(gbox)} {list_s(blocks, blk_s)}", f, sig=sig)
        case = {"fn": "_make_empty_cog", "shape": list(shape), "gbox": gbox_s(gbox), "blocksize": [blk_s(b) for b in blocks]}
        if not res:
            valid = len(blocks) > 0 and min(shape) >= 1 and ndim in (2, 3)
            if valid and out != "ERR:ValueError":
                R.oracle(False, "make-empty-cog-raises:" + out[4:], case, f"_make_empty_cog raised {out}", sig=sig)
            return
        meta, hdr = res[0]
        ms = list(meta.flatten())
        src = (meta.shape.y, meta.shape.x) if gbox is None else tuple(gbox.shape)
        if gbox is None:  # source side unknown to the file: recover from the call
            ax = meta.axis
            src = tuple(shape) if ax == "YX" else (tuple(shape[:2]) if ax == "YXS" else tuple(shape[1:]))
        lb = blocks[-1]
        bad = layout_oracle(src, (lb, lb) if isinstance(lb, int) else lb, [(m.shape.y, m.shape.x) for m in ms],
                            [(m.tile.y, m.tile.x) for m in ms])
        if check_bytes:
            with tifffile.TiffFile(BytesIO(hdr)) as tf:
                ps = [((p.imagelength, p.imagewidth), (p.tilelength, p.tilewidth)) for p in tf.pages]
            if ps != [((m.shape.y, m.shape.x), (m.tile.y, m.tile.x)) for m in ms]:
                bad.append(f"header bytes {ps} differ from meta")
        R.oracle(not bad, "layout-rule", case, "; ".join(bad), sig=sig)

    A0 = Affine(0.5, 0, -3, 0, -0.5, 7)
    sides = list(range(1, R.pick(14, 34))) + [31, 32, 33, 63, 64, 65, 100, 127, 128, 129, 200, 257]
    for y in sides:
        for x in (1, 2, 5, 8, 77, 200, y):
            for blocks in ([32], [16], [16, (32, 48)], [64, 32, 16]):
                if R.quick and (y * 7 + x + len(blocks)) % 3:
                    continue
                hdr_case([y, x], GeoBox((y, x), A0, "epsg:3857"), blocks, check_bytes=(y + x) % 5 == 0)
                hdr_case([y, x], None, blocks)
    for _ in range(R.pick(120, 1200)):
        y, x, ns = rng.randint(1, 300), rng.randint(1, 300), rng.randint(1, 5)
        blocks = [rng.choice([16, 32, 48, 100, (16, 64), (100, 20)]) for _ in range(rng.randint(1, 3))]
        gb = mk_gbox(rng, y, x, GeoBox, dyadic=rng.random() < 0.5) if rng.random() < 0.7 else None
        shape = rng.choice([[y, x], [y, x, ns], [ns, y, x]])
        hdr_case(shape, gb, blocks, check_bytes=rng.random() < 0.2)
    hdr_case([8, 200], GeoBox((8, 200), A0, "epsg:3857"), [32])  # F18 replays
    for shp in ([1, 77], [77, 1], [1, 1]):
        hdr_case(shp, GeoBox(tuple(shp), A0, "epsg:4326"), [32])
    hdr_case([2, 8, 3], GeoBox((8, 3), A0, "epsg:4326"), [16])  # SYX, 3 pixels wide
    hdr_case([5, 5], None, [])  # blocksize[-1] of an empty list

    # ---- _compress_tiles: what the source is re-chunked to, which block feeds which tile, which band is cut out of it
    import dask  # pylint: disable=import-outside-toplevel
    import dask.array as da_  # pylint: disable=import-outside-toplevel

    for _ in range(R.pick(30, 400) if have("_make_empty_cog", "_compress_tiles", "_compress_cog_tile", "_cog_block_compressor_syx") else 0):
        ax = rng.choice(["YX", "YXS", "SYX", "SYX"])
        ns = 1 if ax == "YX" else rng.randint(1, 5)
        ny, nx = rng.randint(16, 60), rng.randint(16, 60)
        bc = band_chunking(rng, ns)
        bc_l = [bc] * (ns // bc) + ([ns % bc] if ns % bc else []) if isinstance(bc, int) else list(bc)
        shp = (ny, nx) if ax == "YX" else ((ny, nx, ns) if ax == "YXS" else (ns, ny, nx))
        pix = np.zeros(shp, dtype="int16")
        if ax == "SYX":
            pix += np.arange(ns, dtype="int16")[:, None, None]  # every pixel of band b holds b
        ch_sp = (rng.choice([8, 16, 25]), rng.choice([8, 16, 25]))
        ch = ch_sp if ax == "YX" else ((*ch_sp, tuple(bc_l)) if ax == "YXS" else (tuple(bc_l), *ch_sp))
        try:
            xx = wrap_xr(da_.from_array(pix, chunks=ch), GeoBox((ny, nx), Affine(1, 0, 0, 0, -1, 0), "epsg:3857"),
                         **({"time": [f"20{i:02d}-01-01" for i in range(ns)]} if ax == "SYX" else {}))
            meta, _ = T._make_empty_cog(shp, "int16", xx.odc.geobox, blocksize=[16])  # pylint: disable=protected-access
            ndim = len(shp)
            bcs = list_s(bc_l if ax != "YX" else [])
            for s_ in range(meta.num_planes):
                bag = T._compress_tiles(xx, meta, 0, s_)  # pylint: disable=protected-access
                g = bag.__dask_graph__()
                tasks = [t for layer in g.layers.values() for t in dict(layer).values()
                         if isinstance(t, tuple) and len(t) == 4 and t[0] is getattr(T, "_compress_cog_tile", None)]
                t_ = rng.choice(tasks)
                key, (_, ps, ty_, tx_) = t_[2], t_[3]
                real_key = (f"N {key[1]} {key[2]}" if ndim == 2 else (f"{key[3]} {key[1]} {key[2]}" if ax == "YXS" else f"{key[1]} {key[2]} {key[3]}"))
                R.corr(f"c05 bname {ax} {ndim} {bcs} {ps} {ty_} {tx_}", lambda: real_key, sig=f"compress|bname|{ax}")
                name = key[0]
                if ax == "SYX":
                    kbs = sorted({k[1] for k in g.keys() if isinstance(k, tuple) and k[0] == name})
                    blocks = {kb: dask.get(g, (name, kb, 0, 0)) for kb in kbs}
                    R.corr(f"c05 cchunks {ax} {ndim} {ns} {bcs} 16 16",
                           lambda: f"{list_s([blocks[kb].shape[0] for kb in kbs])} {blocks[kbs[0]].shape[1]} {blocks[kbs[0]].shape[2]}", sig="compress|chunks|SYX")
                    blk_ = dask.get(g, key)
                    raw = T._cog_block_compressor_syx(blk_, tile_shape=(16, 16), encoder=None, sample_idx=ps)  # pylint: disable=protected-access
                    band_ = int(np.frombuffer(raw, dtype="int16")[0])
                    R.corr(f"c05 srcband {ns} {bcs} {ps}", lambda: str(band_), sig="compress|srcband")
                    R.oracle(band_ == ps, "tile-cut-from-wrong-band", {"ns": ns, "band_chunks": bc_l, "plane": ps},
                             f"the tile of plane {ps} was cut from source band {band_}", sig="compress|srcband")
                elif ax == "YXS":
                    b0 = dask.get(g, (name, 0, 0, 0))
                    R.corr(f"c05 cchunks {ax} {ndim} {ns} {bcs} 16 16", lambda: f"[{b0.shape[2]}] {b0.shape[0]} {b0.shape[1]}", sig="compress|chunks|YXS")
        except Exception as e:  # pylint: disable=broad-except
            R.oracle(False, f"compress-tiles-raises:{type(e).__name__}", {"axis": ax, "ns": ns, "band_chunks": bc_l, "shape": list(shp)},
                     f"{type(e).__name__}: {str(e)[:160]}", sig="compress")

    # ---- grouping of the bags handed to mpu_write (first four reversed bags concatenated) and the patched header size
    for _ in range(R.pick(5, 60) if have("mpu_write") else 0):
        ns = rng.randint(1, 4)
        ny, nx = rng.choice([(20, 20), (40, 20), (70, 40), (130, 20)])
        shp = (ny, nx) if ns == 1 else (ns, ny, nx)
        pix = (np.arange(int(np.prod(shp))) % 251).astype("uint8").reshape(shp)
        xx = wrap_xr(da_.from_array(pix, chunks=(16, 16) if ns == 1 else (1, 16, 16)), GeoBox((ny, nx), Affine(1, 0, 0, 0, -1, 0), "epsg:3857"),
                     **({"time": [f"20{i:02d}-01-01" for i in range(ns)]} if ns > 1 else {}))
        rec = []
        orig = T.mpu_write
        T.mpu_write = lambda chunks, *a, **k: rec.append(chunks) or "recorded"
        try:
            T.save_cog_with_dask(xx, "/nonexistent/recorded.tif", blocksize=[16], compression="zstd", stats=False)
        except Exception as e:  # pylint: disable=broad-except
            rec = None
            R.oracle(False, f"save-cog-raises:{type(e).__name__}@graph", {"shape": list(shp)}, str(e)[:160], sig="baggroups")
        finally:
            T.mpu_write = orig
        if rec:
            planes = ns if ns > 1 else 1
            groups = []
            for bag in rec[0]:
                seq = []
                for _, (sc, p_, _, _) in bag.compute(scheduler="synchronous"):
                    if not seq or seq[-1] != sc * planes + p_:
                        seq.append(sc * planes + p_)
                groups.append(seq)
            n_bags = max(max(g_) for g_ in groups) + 1
            R.corr(f"c05 baggroups {n_bags}", lambda: list_s(groups, lambda g_: list_s(g_)), sig="baggroups|" + ("concat" if n_bags > 4 else "plain"))
            flat = [i for g_ in groups for i in g_]
            R.oracle(sorted(flat) == list(range(n_bags)) and len(flat) == n_bags, "bag-not-written-exactly-once", {"shape": list(shp), "groups": groups},
                     f"bags streamed: {groups}", sig="baggroups")
        # header size with statistics
        if not have("_make_empty_cog", "_render_gdal_metadata", "_patch_hdr"):
            continue
        try:
            meta, hdr0 = T._make_empty_cog(shp, "uint8", xx.odc.geobox, blocksize=[16], gdal_metadata="", bigtiff=rng.random() < 0.6)  # pylint: disable=protected-access
            hdr0 = bytes(hdr0)
            st_ = [{"minimum": 1.0, "maximum": float(rng.randint(2, 10**6)), "mean": 1.5, "stddev": 0.25, "valid_percent": 100.0}] * ns
            xml = T._render_gdal_metadata(st_, precision=6)  # pylint: disable=protected-access
            R.corr(f"c05 hdrsz {len(hdr0)} 1;{len(xml)}", lambda: str(len(T._patch_hdr([], meta, hdr0, st_))), sig="hdrsz|stats")  # pylint: disable=protected-access
            R.corr(f"c05 hdrsz {len(hdr0)} N", lambda: str(len(T._patch_hdr([], meta, hdr0, None))), sig="hdrsz|plain")  # pylint: disable=protected-access
        except Exception as e:  # pylint: disable=broad-except
            R.oracle(False, f"patch-hdr-raises:{type(e).__name__}", {"shape": list(shp)}, str(e)[:160], sig="hdrsz")

    # ---- option normalisation (Model/C05Opts.lean): _norm_predictor, _norm_compression_tifffile (codec names of any letter
    # case, level from level= / compressionargs / the GDAL-style keyword of any letter case incl. the falsy level 0, what is
    # left in kw), upload parameters from kw / aws, the stats= argument (False / True / level number incl. 0)
    from odc.geo.types import Unset  # pylint: disable=import-outside-toplevel

    def kw_s(d):
        return "{" + ",".join(f"{k}={v}" for k, v in d.items()) + "}"

    def cargs_s(d):
        return "{" + ",".join(f"{k}=<level={v['level']}>" if isinstance(v, dict) else f"{k}={v}" for k, v in d.items()) + "}"

    def pred_s(p_):
        return "U" if isinstance(p_, Unset) else ("N" if p_ is None else (bool_s(p_) if isinstance(p_, bool) else f"i:{p_}"))

    DT_POOL = ["uint8", "int8", "uint16", "int16", "uint32", "int32", "uint64", "int64", "float16", "float32", "float64", "bool", "complex64"]
    if have("_norm_predictor"):
        for dtn in DT_POOL:
            for p_ in (None, True, False, 0, 1, 2, 3, 34892):
                dt_ = np.dtype(dtn)
                R.corr(f"c05 npred {pred_s(p_)} {dt_.kind} {dt_.itemsize}", lambda: str(T._norm_predictor(p_, dtn)),  # pylint: disable=protected-access
                       sig="opts|norm_predictor|" + type(p_).__name__)
    CODECS = ["deflate", "DEFLATE", "adobe_deflate", "zstd", "Zstd", "lzma", "lzw", "packbits", "none", "lerc", "LERC", "lerc_deflate",
              "Lerc_Deflate", "lerc_zstd", "LERC_ZSTD", "webp", "jpeg", "JPEG", "jpeg2000", "bogus"]
    LEVELS = [0, 1, 6, 9, 0.5, 0.0, 75]

    def ncomp_case(dtn, pred, comp, cargs, level, kw, sig):
        dt_ = np.dtype(dtn)
        line = (f"c05 ncomptiff {dt_.kind} {dt_.itemsize} {pred_s(pred)} {'N' if isinstance(comp, Unset) else 's:' + comp} "
                f"{'N' if cargs is None else kw_s(cargs)} {'N' if level is None else 's:' + str(level)} {kw_s(kw)}")

        def f():
            kw_ = dict(kw)
            ca_in = None if cargs is None else dict(cargs)
            p_, c_, ca_ = T._norm_compression_tifffile(dtn, pred, compression=comp, compressionargs=ca_in, level=level, kw=kw_)  # pylint: disable=protected-access
            if ca_in is not None and ca_in != cargs:
                return "caller-compressionargs-modified"
            return f"{int(p_)} {c_} {cargs_s(ca_)} {kw_s(kw_)}"

        R.corr(line, f, sig=sig)

    if have("_norm_compression_tifffile"):
        nopt = 0
        for comp in CODECS:
            gk = {"DEFLATE": "zlevel", "ADOBE_DEFLATE": "zlevel", "ZSTD": "zstd_level", "WEBP": "webp_level", "LERC": "max_z_error",
                  "LERC_DEFLATE": "max_z_error", "LERC_ZSTD": "max_z_error", "JPEG": "jpeg_quality"}.get(comp.upper())
            for src in ("none", "level", "cargs", "gdal", "gdal-upper", "level+gdal", "cargs+gdal", "inner", "inner+own", "foreign"):
                for lv in (0, 6) if src != "none" else (None,):
                    nopt += 1
                    kw, cargs, level = {"tile_opt": 1} if nopt % 3 == 0 else {}, None, None
                    if "level" in src.split("+"):
                        level = lv
                    if "cargs" in src.split("+"):
                        cargs = {"level": lv, "other": 1}
                    if "gdal" in src or src == "gdal-upper" or src == "inner+own":
                        if gk is None:
                            continue
                        kw[gk.upper() if src == "gdal-upper" or nopt % 2 else gk] = 9 if src != "gdal" else lv
                    if src.startswith("inner"):
                        kw["ZLEVEL" if nopt % 2 else "zlevel"] = lv
                        kw["zstd_level"] = 3
                    if src == "foreign":
                        kw.update(webp_level=lv, JPEG_QUALITY=80, max_z_error=0.5, zlevel=1, zstd_level=2)
                    ncomp_case(DT_POOL[nopt % len(DT_POOL)], [Unset(), Unset(), True, False, None, 2][nopt % 6], comp, cargs, level, kw,
                               f"opts|norm_compression|{src}|lvl={'0' if lv == 0 else ('none' if lv is None else 'n')}")
        for src_kw in ({}, {"compress": "zstd"}, {"compress": "lerc_zstd", "zstd_level": 0, "MAX_Z_ERROR": 0.0}, {"COMPRESS": "zstd"}, {"compress": "deflate", "ZLEVEL": 0}):
            for dtn in ("uint8", "float32", "int64"):
                ncomp_case(dtn, Unset(), Unset(), None, None, src_kw, "opts|norm_compression|unset-codec")
        for _ in range(R.pick(200, 3000)):
            kw = {}
            for k_ in rng.sample(["zlevel", "ZLEVEL", "Zlevel", "zstd_level", "ZSTD_LEVEL", "max_z_error", "MAX_Z_ERROR", "webp_level", "jpeg_quality",
                                  "JPEG_QUALITY", "compress", "tile_opt", "level_x"], rng.randint(0, 4)):
                kw[k_] = rng.choice(LEVELS) if k_ != "compress" else rng.choice(CODECS[:16])
            cargs = rng.choice([None, None, {}, {"level": rng.choice(LEVELS)}, {"lossless": 1}])
            ncomp_case(rng.choice(DT_POOL), rng.choice([Unset(), Unset(), None, True, False, 1, 2, 3]), rng.choice([Unset()] + CODECS),
                       cargs, rng.choice([None, None] + LEVELS), kw, "opts|norm_compression|random")
    for c_ in ["DEFLATE", "ADOBE_DEFLATE", "ZSTD", "WEBP", "LERC", "LERC_DEFLATE", "LERC_ZSTD", "JPEG", "LZW", "NONE", "deflate", "LZMA", "PACKBITS"]:
        R.corr(f"c05 gdalcomp {c_}", lambda: str(S.GDAL_COMP.get(c_, "N")), sig="opts|gdal_comp")

    # the stats= argument and the upload parameters, through the public dry run (dst=""): is the GDAL_METADATA placeholder in the
    # header, are statistics computed, and FROM WHICH pyramid level (identified by their values)
    for k_st, (st_arg, ny_, nx_) in enumerate([(True, 40, 40), (False, 40, 40), (0, 40, 40), (1, 40, 40), (2, 40, 40), (0, 16, 16), (True, 16, 16),
                                               (1, 16, 16), (True, 100, 70), (2, 100, 70), (3, 100, 70), (4, 100, 70), (True, 300, 20), (0, 300, 20)][: R.pick(9, 14)]):
        pix_ = (np.arange(ny_ * nx_, dtype="int32").reshape(ny_, nx_) * 7919 % 30011).astype("uint16") + 1
        xx_ = wrap_xr(da_.from_array(pix_, chunks=(16, 16)), GeoBox((ny_, nx_), Affine(1, 0, 0, 0, -1, 0), "epsg:3857"))

        def f():
            dry_ = T.save_cog_with_dask(xx_, "", blocksize=[16], compression="zstd", stats=st_arg)
            tag_ = any(t_.code == 42112 for t_ in tifffile.TiffFile(BytesIO(bytes(dry_["hdr0"]))).pages[0].tags.values())
            st_ = dry_.get("_stats")
            if st_ is None:
                return f"{bool_s(tag_)} N"
            vals = st_.compute(scheduler="synchronous")[0]
            hits = [i for i, l_ in enumerate(dry_["layers"])
                    if abs(float(np.asarray(l_.data).max()) - vals["maximum"]) < 1e-9 and abs(float(np.asarray(l_.data).mean()) - vals["mean"]) < 1e-6]
            return f"{bool_s(tag_)} {hits[0] if hits else '?'}"

        def n_layers():
            return len(T.save_cog_with_dask(xx_, "", blocksize=[16], compression="zstd", stats=False)["layers"])

        nl_ = guarded(lambda: str(n_layers()))
        if nl_.isdigit():
            R.corr(f"c05 stats {bool_s(st_arg) if isinstance(st_arg, bool) else 'i:%d' % st_arg} {nl_}", f,
                   sig=f"opts|stats|{type(st_arg).__name__}|{'falsy' if not st_arg else 'truthy'}")
    for _ in range(R.pick(10, 60)):
        kw_ = {k: rng.randint(0, 9) for k in rng.sample(["writes_per_chunk", "spill_sz", "other"], rng.randint(0, 3))}
        aws_ = {k: rng.randint(10, 19) for k in rng.sample(["writes_per_chunk", "spill_sz", "region_name"], rng.randint(0, 3))}
        rec_ = {}

        def f():
            orig_ = getattr(T, "mpu_write", None)
            pix_ = np.zeros((16, 16), dtype="uint8")
            xx_ = wrap_xr(da_.from_array(pix_, chunks=(16, 16)), GeoBox((16, 16), Affine(1, 0, 0, 0, -1, 0), "epsg:3857"))
            aws_in = dict(aws_)
            T.mpu_write = lambda chunks, write, **k: rec_.update(k) or "recorded"
            try:
                T.save_cog_with_dask(xx_, "/nonexistent/x.tif", blocksize=[16], compression="zstd", stats=False, aws=aws_in,
                                     **{k: v for k, v in kw_.items() if k != "other"})
            finally:
                T.mpu_write = orig_
            got = {k: v for k, v in rec_.items() if k in ("writes_per_chunk", "spill_sz")}
            if aws_in != aws_:
                return "caller-aws-modified"
            return kw_s({k: got[k] for k in ("spill_sz", "writes_per_chunk") if k in got})

        if have("mpu_write"):
            kw_m = {k: v for k, v in kw_.items() if k != "other"}
            R.corr(f"c05 upmerged {kw_s(kw_m)} {kw_s(aws_)}", f, sig="opts|upload_params|" + ("both" if set(kw_m) & set(aws_) else "disjoint"))
    # bags with more than 20 partitions are re-partitioned to a quarter: observed on the dry run's level-0 bag
    for n_ in R.pick([5, 10, 11, 42], [1, 2, 5, 9, 10, 11, 12, 19, 20, 21, 40, 41, 42, 84]):
        xx_ = wrap_xr(da_.zeros((16, 16 * n_), dtype="uint8", chunks=(16, 16)), GeoBox((16, 16 * n_), Affine(1, 0, 0, 0, -1, 0), "epsg:3857"))
        dry_ = guarded(lambda: T.save_cog_with_dask(xx_, "", blocksize=[16], compression="zstd", stats=False))
        if isinstance(dry_, dict):
            for m_, bag_ in zip(dry_["meta"].flatten(), dry_["tiles"]):
                R.corr(f"c05 repart {m_.num_tiles}", lambda: str(bag_.npartitions), sig="opts|repartition|" + ("over20" if m_.num_tiles > 20 else "upto20"))

    # ---- statistics metadata text, cog_gbox, the pyramid plan (Model/C05Meta.lean)
    def rat_s(v):
        return frac_s(float(v))

    def dyadic():
        return rng.choice([1, -1]) * rng.randint(0, 10**rng.randint(1, 12)) / 2.0**rng.randint(0, 30)

    for _ in range(R.pick(300, 3000)):  # Python's own fixed-point formatting is the reference for `fmtFixed`
        v_, p_, pad_ = rng.choice([dyadic(), dyadic(), rng.randint(-50, 50) / 8.0, rng.randint(-9, 9) + 0.5, -2.0**-40, 0.0]), rng.randint(0, 10), rng.choice([0, 0, 5, 12, 20])
        R.corr(f"c05 fixed {rat_s(v_)} {p_} {pad_}", lambda: "|" + format(v_, f"{pad_}.{p_}f") + "|", sig="spec-float-format|" + ("tie" if (v_ * 10**p_ * 2) % 1 == 0 and (v_ * 10**p_) % 1 != 0 else "plain"))
    if have("_render_gdal_metadata"):
        KEYS = ["minimum", "maximum", "mean", "stddev", "valid_percent"]
        for _ in range(R.pick(80, 800)):
            nb_ = rng.randint(1, 4)
            bands_ = [{k: rng.choice([dyadic(), float(rng.randint(0, 255)), 100.0]) for k in KEYS[: rng.randint(1, 5)]} for _ in range(nb_)]
            prec_, pad_, eol_ = rng.choice([6, 6, 10, 0, 2]), rng.choice([0, 0, 14]), rng.choice(["", "", "\n"])
            arg_ = bands_[0] if nb_ == 1 and rng.random() < 0.5 else bands_
            R.corr(f"c05 rendermd {'+'.join(';'.join(f'{k}:{rat_s(v)}' for k, v in b.items()) for b in bands_)} {prec_} {pad_} {'N' if eol_ == '' else 'NL'}",
                   lambda: T._render_gdal_metadata(arg_, precision=prec_, pad=pad_, eol=eol_).replace("\n", "\\n").replace(" ", "_"),  # pylint: disable=protected-access
                   sig="opts|render_gdal_metadata|" + ("dict" if isinstance(arg_, dict) else f"{nb_}band"))
    if have("_unwrap_stats"):
        for _ in range(R.pick(60, 600)):
            nb_ = rng.randint(1, 4)
            keys_ = ["minimum", "maximum", "mean", "stddev", "valid_percent"][: rng.randint(1, 5)]
            if rng.random() < 0.3:
                st_ = {k: np.float64(dyadic()) for k in keys_}
                R.corr(f"c05 unwrap {';'.join(f'{k}:[{rat_s(v)}]' for k, v in st_.items())} 2",
                       lambda: ";".join(f"{k}:{rat_s(v)}" for k, v in T._unwrap_stats(st_, 2)[0].items()), sig="opts|unwrap_stats|2d")  # pylint: disable=protected-access
            else:
                st_ = {k: np.array([dyadic() for _ in range(nb_)]) for k in keys_}
                R.corr(f"c05 unwrap {';'.join(k + ':' + list_s([rat_s(x) for x in v]) for k, v in st_.items())} 3",
                       lambda: "+".join(";".join(f"{k}:{rat_s(v)}" for k, v in b.items()) for b in T._unwrap_stats(st_, 3)), sig="opts|unwrap_stats|nd")  # pylint: disable=protected-access
    cog_gbox_ = getattr(S, "cog_gbox", None)
    if cog_gbox_ is not None:
        for _ in range(R.pick(300, 3000)):
            y_, x_ = rng.choice([edge_dim(rng, 256), 1, 100, 257, 512, rng.randint(1, 5000)]), rng.choice([1, 7, 255, 256, 257, 1000, rng.randint(1, 3000)])
            tile_ = rng.choice([None, None, 16, 100, 256, 512, (32, 64), (100, 16)])
            nl_ = rng.choice([None, None, 0, 1, 3, 5])
            gb_ = GeoBox((y_, x_), Affine(10, 0, 100, 0, -10, 200), "epsg:3857")

            def f():
                out_ = cog_gbox_(gb_, tile=tile_, nlevels=nl_)
                if out_.affine != gb_.affine or out_.crs != gb_.crs:
                    return "georeference-changed"
                return f"{out_.shape[0]} {out_.shape[1]}"

            R.corr(f"c05 coggbox {y_} {x_} {'N' if tile_ is None else (tile_ if isinstance(tile_, int) else f'{tile_[0]}x{tile_[1]}')} {opt_s(nl_)}", f,
                   sig="cog_gbox|" + ("nlevels" if nl_ is not None else ("tile" if tile_ is not None else "default")))
    # the pyramid handed to the tile compressors: level k+1 sits on the GeoBox of IFD k+1 (shape, affine) chunked by its tile
    for _ in range(R.pick(12, 150)):
        ny_, nx_ = rng.randint(17, 200), rng.randint(17, 200)
        bl_ = [rng.choice([16, 32, (16, 48)]) for _ in range(rng.randint(1, 2))]
        gb_ = GeoBox((ny_, nx_), Affine(rng.choice([1, 2, 0.5]), 0, rng.randint(-100, 100), 0, -rng.choice([1, 2, 0.5]), rng.randint(-100, 100)), "epsg:3857")
        xx_ = wrap_xr(da_.zeros((ny_, nx_), dtype="uint8", chunks=(64, 64)), gb_)

        def f():
            dry_ = T.save_cog_with_dask(xx_, "", blocksize=list(bl_), compression="zstd", stats=False)
            return "|".join(f"{k}>{l_.shape[0]},{l_.shape[1]},{l_.data.chunksize[0]},{l_.data.chunksize[1]},{aff_s(l_.odc.geobox.affine)}"
                            for k, l_ in enumerate(dry_["layers"][1:]))

        R.corr(f"c05 pyr {list_s([ny_, nx_])} {gbox_s(gb_)} {list_s(bl_, blk_s)}", f, sig="pyramid-plan|" + str(len(bl_)))

    # ---- _stats_from_layer on integer data (Model/C05Stats.lean): which pixels enter which band's statistics for every band
    # layout, nodata masking; mean as the exact rational printed to 6 decimals (cases where the exact mean sits on a printing
    # tie are skipped: there the double nearest to it decides, not the rational)
    if have("_stats_from_layer"):
        from fractions import Fraction  # pylint: disable=import-outside-toplevel

        def nest_s(arr):
            return "|".join(";".join(",".join(str(int(v)) for v in c) for c in b) for b in arr)

        for k_ in range(R.pick(40, 600)):
            ax_ = ["YX", "SYX", "YXS", "SYX"][k_ % 4]
            ny_, nx_ = rng.choice([(1, 1), (2, 2), (4, 4), (5, 5), (5, 10), (10, 10), (8, 25), (1, 25), (16, 1)])
            ns_ = 1 if ax_ == "YX" else rng.randint(1, 4)
            dt_ = rng.choice(["uint8", "int16", "uint16", "int32"])
            nd_ = rng.choice([None, None, 0, 7, 200])
            lo_, hi_ = (0, 255) if dt_ == "uint8" else ((0, 60000) if dt_ == "uint16" else (-30000, 30000))
            shp_ = (ny_, nx_) if ax_ == "YX" else ((ny_, nx_, ns_) if ax_ == "YXS" else (ns_, ny_, nx_))
            arr_ = np.array([rng.choice([rng.randint(lo_, hi_), rng.randint(lo_, hi_), 7, 200, 0]) for _ in range(int(np.prod(shp_)))], dtype=dt_).reshape(shp_)
            if nd_ is not None and k_ % 5 == 0:
                arr_[...] = nd_  # every pixel masked
            bands_ = [arr_.reshape(-1)] if ax_ == "YX" else ([arr_[..., s_].reshape(-1) for s_ in range(ns_)] if ax_ == "YXS" else [arr_[s_].reshape(-1) for s_ in range(ns_)])
            tie_ = False
            for b_ in bands_:
                v_ = [int(x) for x in b_ if nd_ is None or int(x) != nd_]
                if v_ and (Fraction(sum(v_), len(v_)) * 2 * 10**6).denominator == 1 and (Fraction(sum(v_), len(v_)) * 10**6).denominator != 1:
                    tie_ = True
            if tie_:
                R.count("stats|mean-on-printing-tie-skipped")
                continue
            d3_ = arr_[None] if ax_ == "YX" else arr_
            ch_ = tuple(rng.choice([1, 2, 3, 16]) for _ in shp_)

            def f():
                st_ = T._stats_from_layer(da_.from_array(arr_, chunks=ch_), nodata=None if nd_ is None else float(nd_), yaxis=1 if ax_ == "SYX" else 0).compute(scheduler="synchronous")  # pylint: disable=protected-access
                out_ = []
                for b_ in st_:
                    # a band without a valid pixel: numpy's masked constant (band vectors) or nan (2-D: `float(masked)`), and
                    # then valid_percent is masked / nan as well (observation: not 0)
                    masked_ = np.ma.is_masked(b_["minimum"]) or (isinstance(b_["minimum"], float) and math.isnan(b_["minimum"]))
                    vp_ = b_["valid_percent"]
                    cnt_ = 0 if (np.ma.is_masked(vp_) or math.isnan(float(vp_))) else int(round(float(vp_) * ny_ * nx_ / 100))
                    out_.append(("N N N" if masked_ else f"{int(b_['minimum'])} {int(b_['maximum'])} {float(b_['mean']):.6f}") + f" {cnt_} {ny_ * nx_}")
                return "+".join(out_)

            R.corr(f"c05 lstats {'SYX' if ax_ == 'YX' else ax_} {nest_s(d3_)} {opt_s(nd_)}", f, sig=f"stats_from_layer|{ax_}|nodata={'yes' if nd_ is not None else 'no'}")
        # non-finite statistics, pinned as they are today: a band without a valid pixel renders as numpy's masked constant '--',
        # an all-NaN float band as 'nan'; the XML is still produced (the values are outside the Lean model)
        if have("_render_gdal_metadata"):
            def pin_nonfinite():
                with warnings.catch_warnings():
                    warnings.simplefilter("ignore")
                    a2_ = T._stats_from_layer(da_.from_array(np.full((4, 4), 7, "int16"), chunks=2), nodata=7.0, yaxis=0).compute(scheduler="synchronous")  # pylint: disable=protected-access
                    a3_ = T._stats_from_layer(da_.from_array(np.full((2, 4, 4), 7, "int16"), chunks=2), nodata=7.0, yaxis=1).compute(scheduler="synchronous")  # pylint: disable=protected-access
                    b_ = T._stats_from_layer(da_.from_array(np.full((4, 4), np.nan, "float32"), chunks=2), nodata=None, yaxis=0).compute(scheduler="synchronous")  # pylint: disable=protected-access
                xs_ = [T._render_gdal_metadata(v_, precision=6) for v_ in (a2_, a3_, b_)]  # pylint: disable=protected-access
                return f"{'>nan<' in xs_[0]} {'>--<' in xs_[1]} {'>nan<' in xs_[2]} {[x.count('<Item') for x in xs_]}"

            out_ = guarded(pin_nonfinite)
            R.oracle(out_ == "True True True [5, 10, 5]", "statistics-nonfinite-rendering-changed",
                     {"fn": "_stats_from_layer + _render_gdal_metadata", "cases": ["2-D, all pixels == nodata", "2 bands, all pixels == nodata", "all-NaN float32"]},
                     f"bands without a valid pixel render as 'nan' (2-D) / '--' (band vectors) / 'nan' (all-NaN floats), 5 items per band; now: {out_}", sig="pin|stats-nonfinite")

    # ---- tile padding in the block compressors (no encoder → raw bytes of the padded block)
    for _ in range(R.pick(150, 1500) if have("_cog_block_compressor_yxs", "_cog_block_compressor_syx") else 0):
        ty, tx = rng.choice([16, 32]), rng.choice([16, 32, 48])
        N, Mx = rng.randint(1, 100), rng.randint(1, 100)
        iy, ix = rng.randrange(-(-N // ty)), rng.randrange(-(-Mx // tx))
        blk_arr = np.arange(N * Mx, dtype="int16").reshape(N, Mx)[iy * ty:(iy + 1) * ty, ix * tx:(ix + 1) * tx]
        fillv = rng.choice([0, 7, -3])
        if rng.random() < 0.5:
            raw = T._cog_block_compressor_yxs(blk_arr, tile_shape=(ty, tx), encoder=None, fill_value=fillv)  # pylint: disable=protected-access
        else:
            raw = T._cog_block_compressor_syx(blk_arr[None], tile_shape=(ty, tx), encoder=None, fill_value=fillv)  # pylint: disable=protected-access
        out = np.frombuffer(raw, dtype="int16")
        ok = out.size == ty * tx
        hy, hx = blk_arr.shape
        if ok:
            out = out.reshape(ty, tx)
            ok = np.array_equal(out[:hy, :hx], blk_arr) and fill_eq(out[hy:, :], fillv) and fill_eq(out[:, hx:], fillv)
        R.oracle(ok, "tile-padding-not-right-bottom", {"N": [N, Mx], "tile": [ty, tx], "i": [iy, ix]}, "")
        R.corr(f"c05 pad {N} {ty} {iy}", lambda: f"0 {ty - hy} {hy}", sig="pad")
        R.corr(f"c05 pad {Mx} {tx} {ix}", lambda: f"0 {tx - hx} {hx}", sig="pad")

    # ---- _extract_tile_info / _patch_hdr on arbitrary observed streams (any order, zero sizes, bad ids)
    def stream_case(meta, hdr0, with_patch):
        if not have("_extract_tile_info", "_patch_hdr"):
            return
        ms = list(meta.flatten())
        idx = list(meta.cog_tidx())
        rng.shuffle(idx)
        if rng.random() < 0.5:
            idx = idx[: rng.randint(0, len(idx))]
        big_sz = (not with_patch) and rng.random() < 0.3
        tiles = [(i, p, y, x, rng.choice([0, rng.randint(1, 5000), rng.randint(1, 50)] + ([huge(rng)] if big_sz else [])))
                 for i, p, y, x in idx]
        badid = rng.random() < 0.15
        if badid and tiles:
            k = rng.randrange(len(tiles))
            i, p, y, x, sz = tiles[k]
            tiles[k] = rng.choice([(len(ms), p, y, x, sz), (i, p, ms[i].chunked.y, x, sz), (i, ms[i].num_planes, y, x, sz),
                                   (i, p, y, -1, sz)])
        start = rng.choice([0, 0, 8, 12345])
        obs = list_s([f"{i};{p};{y};{x};{sz}" for i, p, y, x, sz in tiles])
        res = []

        def f():
            info = T._extract_tile_info(meta, tiles, start)  # pylint: disable=protected-access
            res.append(info)
            return info_s(info)

        sig = "tinfo|" + ("bad-id" if badid else ("zero-sizes" if any(t[4] == 0 for t in tiles) else "plain"))
        R.corr(f"c05 tinfo {list_s(ms, meta_s)} {start} {obs}", f, sig=sig)
        if res:
            offs = [o for os_, _ in res[0] for o in os_]
            lens = [n for _, ns_ in res[0] for n in ns_]
            msg = intervals_oracle(offs, lens, start, start + sum(t[4] for t in tiles))
            want = {(i, ms[i].flat_tile_idx((p, y, x))): sz for i, p, y, x, sz in tiles}
            got_ok = all(res[0][i][1][f_] == sz for (i, f_), sz in want.items())
            R.oracle(msg is None and got_ok, "tile-offsets-gaps-or-overlaps", {"metas": list_s(ms, meta_s), "start": start, "obs": obs},
                     msg or "byte count differs from observed size", sig=sig)
            # exact, two-sided: every non-empty tile sits at start + (bytes observed before it), in stream order
            pos, bad_at = start, None
            for i, p, y, x, sz in tiles:
                f_ = ms[i].flat_tile_idx((p, y, x))
                if sz and res[0][i][0][f_] != pos:
                    bad_at = (i, p, y, x, res[0][i][0][f_], pos)
                    break
                pos += sz
            R.oracle(bad_at is None, "tile-offsets-not-stream-order", {"metas": list_s(ms, meta_s), "start": start, "obs": obs},
                     f"tile/offset/expected {bad_at}", sig=sig)
        if with_patch and not badid:
            r2 = []

            def g():
                hdr = T._patch_hdr([(sz, (i, p, y, x)) for i, p, y, x, sz in tiles], meta, hdr0)  # pylint: disable=protected-access
                with tifffile.TiffFile(BytesIO(hdr)) as tf:
                    tg = [(list(p.tags[324].value), list(p.tags[325].value)) for p in tf.pages]
                r2.append(len(hdr))
                return f"{len(hdr)} " + info_s(tg)

            # header size is an output of the real code; the model is checked for every candidate size it reports
            out = guarded(g)
            hsz = out.split(" ")[0] if r2 else "0"
            R.corr(f"c05 patch {list_s(ms, meta_s)} {hsz} {obs}", lambda: out.split(" ", 1)[1] if r2 else out, sig="patch|" + sig)

    for _ in range(R.pick(60, 600) if have("_make_empty_cog") else 0):
        y, x = rng.randint(1, 120), rng.randint(1, 120)
        ns = rng.randint(1, 3)
        shape = rng.choice([[y, x], [ns, y, x], [y, x, ns]])
        blocks = [rng.choice([16, 32, (16, 48)]) for _ in range(rng.randint(1, 2))]
        try:
            meta, hdr0 = T._make_empty_cog(tuple(shape), rng.choice(["uint8", "float32"]), mk_gbox(rng, y, x, GeoBox),  # pylint: disable=protected-access
                                           blocksize=blocks, bigtiff=rng.random() < 0.7)
        except Exception:  # pylint: disable=broad-except
            continue  # reported by hdr_case above
        hdr0 = bytes(hdr0)
        for k_ in range(4):
            stream_case(meta, hdr0, with_patch=k_ < 2)

    # ---- targeted shape family (from `padded_shape`): exactly ONE axis is already a multiple of 2**levels, the other one
    # gains 1..3 whole tiles by the padding.  Enumerated up to 1000 px; most are checked on the constructed graph only
    # (every tile task must reference a source block that exists; `_pad_to_cog_shape` must reach the padded shape exactly),
    # a handful are written end to end below.
    import dask.array as da  # pylint: disable=import-outside-toplevel

    family = []
    for b in (16, 32, 48, 64):
        for N in range(b + 1, 1001):
            for M in (b, 2 * b, 4 * b, 8 * b, 16 * b, 256, 512, 768, 1024):
                n = max(least_k(b, N), least_k(b, M))
                gained = -(-ceil_to(N, 2**n) // b) - -(-N // b)
                if M % 2**n == 0 and N % 2**n != 0 and 1 <= gained <= 3:
                    family.append((N, M, b, gained))
    rng.shuffle(family)
    R.extra["one_axis_aligned_family_size"] = len(family)
    # graph construction cost grows with the tile count: quick looks at members of up to ~500 tiles, thorough ~4000
    family = [f_ for f_ in family if f_[0] * f_[1] <= R.pick(500, 4000) * f_[2] ** 2]
    fam_e2e = []
    for k_, (N, M, b, gained) in enumerate(family[: R.pick(45, 1200)]):
        ny, nx = (N, M) if k_ % 2 else (M, N)
        ns = rng.choice([1, 1, 2])
        shape = [ny, nx] if ns == 1 else rng.choice([[ns, ny, nx], [ny, nx, ns]])
        if k_ < R.pick(4, 40):
            fam_e2e.append(dict(shape=[ny, nx], axis="YX", ns=1, dtype="uint8", blocksize=[b], comp="zstd", predictor=None, nodata=rng.choice([None, 7]),
                                chunks=[max(b, 64), max(b, 64)], sch=1, spill_sz=None, wpc=None, bigtiff=None, stats=False, sched="sync",
                                pixseed=k_, level=None))
        case = {"fn": "graph of save_cog_with_dask", "shape": shape, "blocksize": [b], "tiles_gained": gained}
        try:
            is_syx = len(shape) == 3 and shape[0] == ns and (shape[1], shape[2]) == (ny, nx)
            kw_ = {"time": [f"20{i:02d}-01-01" for i in range(ns)]} if is_syx else {}
            arr = da.zeros(tuple(shape), dtype="uint8", chunks=tuple(rng.choice([b, 2 * b, 100]) if d_ > 4 else d_ for d_ in shape))
            xx = wrap_xr(arr, mk_gbox(rng, ny, nx, GeoBox), **kw_)
            dry = T.save_cog_with_dask(xx, "", blocksize=[b], compression="zstd", stats=False)
            meta = dry["meta"]
            R.corr(f"c05 spec {ny} {nx} {b} {b} N", lambda: f"{meta.shape.y} {meta.shape.x} {meta.tile.y} {meta.tile.x} {len(meta.overviews)}",
                   sig="spec|one-axis-aligned")
            missing = 0
            for bag in dry["tiles"][: meta.num_planes]:
                g = bag.__dask_graph__()
                for layer in g.layers.values():
                    for task in dict(layer).values():
                        if isinstance(task, tuple) and len(task) == 4 and task[0] is getattr(T, "_compress_cog_tile", None) and task[2] not in g:
                            missing += 1
            bad = [] if not missing else [f"{missing} tile tasks reference a source block that does not exist"]
            if hasattr(T, "_pad_to_cog_shape"):
                padded = T._pad_to_cog_shape(xx.data, meta)  # pylint: disable=protected-access
                yd = 1 if meta.axis == "SYX" else 0
                if tuple(padded.shape[yd:yd + 2]) != (meta.shape.y, meta.shape.x):
                    bad.append(f"source padded to {tuple(padded.shape[yd:yd + 2])}, COG shape is {(meta.shape.y, meta.shape.x)}")
            R.oracle(not bad, "tile-without-source-block", case, "; ".join(bad), sig="graph|one-axis-aligned")
        except Exception as e:  # pylint: disable=broad-except
            R.oracle(False, f"graph-construction-raises:{type(e).__name__}", case, f"{type(e).__name__}: {str(e)[:200]}", sig="graph|one-axis-aligned")

    # ---- end to end: real save_cog_with_dask(...).compute() → file → tifffile + GDAL
    workdir = tempfile.mkdtemp(prefix="c05-")
    try:
        n_e2e = R.pick(170, 4200)
        t_budget = R.pick(22, 190)
        t0 = time.time()
        corpus = [
            dict(shape=[8, 200], axis="YX", ns=1, dtype="uint8", blocksize=[32], comp="deflate", predictor=None, nodata=None,
                 chunks=[32, 32], sch=1, spill_sz=None, wpc=None, bigtiff=None, stats=True, sched="sync", pixseed=1, level=None),
            dict(shape=[1, 77], axis="YX", ns=1, dtype="int16", blocksize=[32], comp="zstd", predictor=True, nodata=-9999,
                 chunks=[16, 16], sch=1, spill_sz=1, wpc=2, bigtiff=None, stats=True, sched="threads4", pixseed=2, level=None),
            dict(shape=[77, 1], axis="YXS", ns=3, dtype="uint8", blocksize=[16, 32], comp="deflate", predictor=None, nodata=None,
                 chunks=[50, 1], sch=3, spill_sz=None, wpc=None, bigtiff=False, stats=False, sched="rand", pixseed=3, level=None),
            dict(shape=[1, 1], axis="YX", ns=1, dtype="float32", blocksize=None, comp="deflate", predictor=None, nodata=None,
                 chunks=[1, 1], sch=1, spill_sz=None, wpc=None, bigtiff=None, stats=True, sched="sync", pixseed=4, level=None),
            dict(shape=[272, 40], axis="YX", ns=1, dtype="uint16", blocksize=[16], comp="deflate", predictor=None, nodata=7,
                 chunks=[16, 16], sch=1, spill_sz=5000, wpc=None, bigtiff=None, stats=True, sched="rand", pixseed=5, level=None),
            dict(shape=[40, 33], axis="SYX", ns=3, dtype="float64", blocksize=[16], comp="none", predictor=False, nodata=None,
                 chunks=[16, 16], sch=1, spill_sz=None, wpc=3, bigtiff=None, stats=False, sched="threads2", pixseed=6, level=None),
            dict(shape=[28, 3], axis="SYX", ns=2, dtype="uint16", blocksize=[(64, 100)], comp="deflate", predictor=False, nodata=7,
                 chunks=[50, 64], sch=1, spill_sz=1, wpc=3, bigtiff=True, stats=True, sched="threads1", pixseed=7, level=None),
        ]
        base_cfg = dict(shape=[40, 40], axis="YX", ns=1, dtype="uint16", blocksize=[16], comp="deflate", predictor=None, nodata=None,
                        chunks=[16, 16], sch=1, spill_sz=None, wpc=None, bigtiff=None, stats=True, sched="sync", pixseed=21, level=None)
        corpus += [
            dict(base_cfg, irregular=[[8, 16, 16], [8, 16, 16]]),                       # largest chunk == tile, grid shifted
            dict(base_cfg, shape=[32, 32], byteorder=">"),                              # big-endian source, no padding/rechunk
            dict(base_cfg, shape=[32, 32], recompute=True),                             # the same Delayed computed twice
            dict(base_cfg, shape=[32, 32], dtype="int64", comp="lerc"),                 # codec cannot take the dtype
            dict(base_cfg, shape=[32, 32], comp="lzw", ckw={"level": 5}),               # codec has no level
            dict(base_cfg, dtype="float32", comp="lerc_zstd", ckw={"zstd_level": 9}),   # inner level is not a tolerance
            dict(base_cfg, comp="Lerc_Deflate", ckw={"ZLEVEL": 9, "max_z_error": 2}),   # asked-for tolerance 2
            dict(base_cfg, dst_state="existing-large", spill_sz=1, wpc=2, sched="threads4"),
            dict(base_cfg, dst_state="existing-small"),
            dict(base_cfg, dst_state="parts-dir", spill_sz=1, wpc=3),
            dict(base_cfg, shape=[200, 170], dtype="float64", blocksize=[64], comp="zstd", spill_sz=1, wpc=3, recompute=True),
            # thread pools with many LARGE edge tiles in flight at once (image lower than its tile: every tile is padded and
            # encoded for a while): per-tile work must not share state between worker threads
            dict(base_cfg, shape=[200, 8192], blocksize=[256], chunks=[256, 256], sched="threads8", level=6, stats=False, pixseed=31),
            dict(base_cfg, shape=[100, 6000], axis="YXS", ns=3, sch=3, dtype="float32", blocksize=[256], chunks=[128, 512], sched="threads4",
                 comp="zstd", stats=False, pixseed=32),
            dict(base_cfg, shape=[64, 300], dtype="uint8"),   # one axis aligned, the other gains a tile by padding
            dict(base_cfg, shape=[272, 16], dtype="uint8", bs_container="tuple"),
        ]
        # memory layout of the source blocks x codec (raw bytes path incl.) x axis order, on shapes where nothing is padded or
        # re-chunked (64x96, 16 px tiles and chunks; no level is a single tile, see K12), and band-axis chunkings of multi-band
        # sources (groups of 2, irregular) for band-first and band-last
        lay_m = []
        for li, lay_ in enumerate(["F", "lazyT", "strided", "neg", "readonly", "C"]):
            for ci, (comp_, pred_) in enumerate([("none", False), ("deflate", True), ("zstd", None), ("lerc", None), ("none", False)]):
                ax_, ns_ = [("YX", 1), ("YXS", 3), ("SYX", 2)][(li + ci) % 3]
                lay_m.append(dict(base_cfg, shape=[64, 96], axis=ax_, ns=ns_, sch=[1, ns_][(li + ci) % 2], dtype=["uint16", "float32", "uint8"][(li + 2 * ci) % 3],
                                  comp=comp_, predictor=pred_, mem_layout=lay_, stats=False, pixseed=500 + 10 * li + ci,
                                  sched=["sync", "threads4"][(li + ci) % 2]))
        for bi, (ax_, ns_, sch_) in enumerate([("SYX", 4, 2), ("SYX", 3, [2, 1]), ("SYX", 4, [1, 3]), ("SYX", 5, [2, 2, 1]), ("YXS", 4, 2),
                                               ("YXS", 3, [1, 2]), ("YXS", 5, [2, 1, 2]), ("SYX", 2, 1), ("SYX", 3, 3)]):
            lay_m.append(dict(base_cfg, shape=[40, 50], axis=ax_, ns=ns_, sch=sch_, dtype="int16", stats=bool(bi % 2), pixseed=600 + bi,
                              sched=["sync", "threads2", "rand"][bi % 3]))
        must_ = [c_ for c_ in lay_m if c_.get("mem_layout") in ("F", "lazyT") and c_["comp"] == "none"][:3] + [c_ for c_ in lay_m if "mem_layout" not in c_][:4]
        corpus += lay_m if not R.quick else must_ + rng.sample([c_ for c_ in lay_m if c_ not in must_], 10)
        corpus += fam_e2e
        state_opt = [
            # documented option values that are falsy but meaningful, and the plain numbers behind the booleans
            dict(base_cfg, stats=0), dict(base_cfg, stats=1, shape=[100, 70]), dict(base_cfg, stats=0, axis="SYX", ns=2, nodata=7, nd_carrier="fill"),
            dict(base_cfg, spill_sz=0, wpc=1), dict(base_cfg, level=0), dict(base_cfg, comp="zstd", ckw={"zstd_level": 0}),
            dict(base_cfg, predictor=2), dict(base_cfg, predictor=1), dict(base_cfg, dtype="float32", predictor=3, comp="zstd"),
            dict(base_cfg, blocksize=32), dict(base_cfg, nodata=0, nd_carrier="fill"), dict(base_cfg, nodata=0, nd_carrier="both", nd_enc_decoy=True),
            dict(base_cfg, nodata=None, nd_enc_decoy=True), dict(base_cfg, dtype="float32", nodata=-9999, nd_carrier="fill", stats=0),
            # leftover part files of a killed earlier run to the same destination, same names and (uncompressed / float
            # predictor-less: same) sizes, other bytes; all of them / every other one; several parts (spill) / one part
            dict(base_cfg, shape=[64, 96], comp="none", predictor=False, dst_state="stale-parts", spill_sz=1, wpc=2, stats=False),
            dict(base_cfg, shape=[64, 96], comp="none", predictor=False, dst_state="stale-parts", stats=True, axis="SYX", ns=2, sch=1),
            dict(base_cfg, shape=[64, 96], comp="none", predictor=False, dst_state="stale-parts-some", spill_sz=5000, wpc=3, sched="threads2"),
            dict(base_cfg, shape=[96, 64], comp="packbits", dtype="uint8", dst_state="stale-parts", spill_sz=1, wpc=2),
            dict(base_cfg, dst_state="stale-parts", spill_sz=1, wpc=3, sched="rand"),
            dict(base_cfg, shape=[100, 70], dtype="float32", comp="zstd", dst_state="stale-parts-some", spill_sz=1, wpc=2),
        ]
        # quick tier: the first stale-parts case, stats=0, spill_sz=0, the _FillValue carrier and a seeded sample of the rest
        must_so = [c_ for c_ in state_opt if c_.get("dst_state") == "stale-parts"][:1] + [c_ for c_ in state_opt if c_.get("stats") == 0 and "nd_carrier" not in c_][:1] + \
                  [c_ for c_ in state_opt if c_.get("spill_sz") == 0][:1] + [c_ for c_ in state_opt if c_.get("nd_carrier") == "fill"][:1]
        corpus += state_opt if not R.quick else must_so + rng.sample([c_ for c_ in state_opt if c_ not in must_so], 5)
        done = 0
        for i, cfg in enumerate(corpus):
            if uncompressed_single_tile_level(cfg):
                cfg["comp"] = "zstd"
            run_e2e(R, cfg, workdir, f"k{i}")
            done += 1
        for i in range(n_e2e):
            if time.time() - t0 > t_budget:
                R.notes.append(f"end-to-end loop stopped by time budget after {done} files")
                break
            cfg = gen_cfg(rng, big=(i % 3 == 0))
            if uncompressed_single_tile_level(cfg):
                cfg["comp"] = "zstd"  # the uncompressed variant would hang, see the probe below
                R.count("e2e|uncompressed-single-tile-level-avoided")
            plain = lambda c: c["comp"].lower() in ("deflate", "zstd") and c["dtype"] in DTYPES
            if i % 4 == 1 and plain(cfg):
                # state across calls: a second graph computed in the SAME dask.compute — the same source array to a
                # second destination with other writer options, or an unrelated image
                if rng.random() < 0.5:
                    cfg2 = dict(cfg, spill_sz=rng.choice([None, 1, 5000]), wpc=rng.choice([None, 1, 3]),
                                comp=rng.choice(["deflate", "zstd"]), ckw={}, predictor=None, bigtiff=rng.choice([None, False]),
                                blocksize=rng.choice([cfg["blocksize"], [16], [32, 16]]))
                else:
                    cfg2 = gen_cfg(rng, big=False)
                    cfg2["dyadic"] = True
                    if not plain(cfg2):
                        cfg2.update(comp="zstd", ckw={}, predictor=None, dtype=cfg2["dtype"] if cfg2["dtype"] in DTYPES else "int16",
                                    nodata=None)
                if uncompressed_single_tile_level(cfg2):
                    cfg2["comp"] = "zstd"
                try:
                    bad = with_timeout(240.0, lambda: write_together([cfg, cfg2], workdir, [f"c{i}", f"c{i}b"]))
                except _Timeout:
                    bad = ("save-cog-does-not-finish", "joint compute of two graphs did not finish within 240 s")
                if bad is not None:
                    # tell apart "this pair fails only together" from "one of them fails alone"
                    run_e2e(R, cfg, workdir, f"c{i}")
                    run_e2e(R, cfg2, workdir, f"c{i}b")
                    R.oracle(False, bad[0], {"pair": [cfg, cfg2]}, bad[1], sig="e2e|joint-compute")
                else:
                    R.count("e2e|joint-compute-pairs")
                    run_e2e(R, cfg, workdir, f"c{i}", precomputed=True)
                    run_e2e(R, cfg2, workdir, f"c{i}b", precomputed=True)
                    done += 1
            else:
                run_e2e(R, cfg, workdir, f"c{i}")
            done += 1
        R.extra["e2e_files_written"] = done

        # ---- hand-off to the multi-part writer with synthetic tile payloads (no codec involved): bytes AND bytearray
        # payloads of arbitrary sizes incl. empty ones, tiles in arbitrary order, two destinations fed from the same
        # bags in one compute.  Exact oracle: file = patched header ++ payloads in stream order, every
        # TileOffsets/TileByteCounts entry addresses exactly its payload, payload objects are left untouched.
        import dask.bag  # pylint: disable=import-outside-toplevel
        from odc.geo.cog._mpu import mpu_write  # pylint: disable=import-outside-toplevel
        from odc.geo.cog._mpu_fs import MPUFileSink  # pylint: disable=import-outside-toplevel

        def handoff_case(k):
            if not have("_make_empty_cog", "_patch_hdr"):
                return
            y, x, ns = rng.randint(1, 150), rng.randint(1, 150), rng.randint(1, 3)
            shape = rng.choice([[y, x], [ns, y, x]])
            meta, hdr0 = T._make_empty_cog(tuple(shape), "uint8", mk_gbox(rng, y, x, GeoBox),  # pylint: disable=protected-access
                                           blocksize=[rng.choice([16, 32, (16, 48)]) for _ in range(rng.randint(1, 2))],
                                           bigtiff=rng.random() < 0.7, gdal_metadata=None)
            hdr0 = bytes(hdr0)
            ms = list(meta.flatten())
            idx = list(meta.cog_tidx())
            if rng.random() < 0.6:
                rng.shuffle(idx)

            def payload():
                n = rng.choice([0, rng.randint(1, 40), rng.randint(1, 400), rng.randint(1, 400), rng.randint(4000, 30000)])
                b = rng.randbytes(n)
                return bytearray(b) if rng.random() < 0.5 else b

            items = [(payload(), t) for t in idx]
            copies = [bytes(p_) for p_, _ in items]
            nb = rng.randint(1, min(4, len(items)))
            cuts = sorted(rng.sample(range(1, len(items)), nb - 1)) if nb > 1 else []
            parts = [items[a:b] for a, b in zip([0] + cuts, cuts + [len(items)])]
            bags = [dask.bag.from_sequence(pt, npartitions=rng.randint(1, max(1, min(6, len(pt))))) for pt in parts]
            dsts = [os.path.join(workdir, f"h{k}{c}.tif") for c in "ab"]
            sched = rng.choice(["sync", "threads2", "threads4", f"rand{rng.randint(0, 10**6)}"])
            case = {"fn": "mpu_write+_patch_hdr", "shape": shape, "sizes": [len(c) for c in copies][:60], "sched": sched}
            try:
                futs = [mpu_write(bags, MPUFileSink(d), mk_header=T._patch_hdr,  # pylint: disable=protected-access
                                  user_kw={"meta": meta, "hdr0": hdr0, "stats": None},
                                  spill_sz=rng.choice([0, 1, 5000, 20000, 20 * (1 << 20)]), writes_per_chunk=rng.randint(1, 3))
                        for d in dsts]
                with_timeout(120.0, lambda: compute_with(futs, sched))
            except Exception as e:  # pylint: disable=broad-except
                R.oracle(False, f"handoff-raises:{type(e).__name__}", case, f"{type(e).__name__}: {str(e)[:200]}", sig="handoff")
                return
            bad = []
            if any(bytes(p_) != c for (p_, _), c in zip(items, copies)):
                bad.append(("handoff-payload-mutated", "a tile payload object was modified in place by the writer"))
            body = b"".join(copies)
            for d in dsts:
                raw = open(d, "rb").read()
                hsz = len(raw) - len(body)
                if hsz < len(hdr0) or raw[hsz:] != body:
                    bad.append(("handoff-stream-differs", f"{os.path.basename(d)}: file is not header ++ payloads in stream order"))
                    continue
                with tifffile.TiffFile(BytesIO(raw)) as tf:
                    tags = [(list(p_.tags[324].value), list(p_.tags[325].value)) for p_ in tf.pages]
                for (i_, p_, y_, x_), c in zip(idx, copies):
                    f_ = ms[i_].flat_tile_idx((p_, y_, x_))
                    o, n = tags[i_][0][f_], tags[i_][1][f_]
                    if n != len(c) or (n and raw[o:o + n] != c):
                        bad.append(("handoff-tile-entry-wrong", f"IFD {i_} tile {f_}: entry ({o},{n}) does not address its {len(c)} bytes"))
                        break
                if d == dsts[0]:
                    obs = list_s([f"{i_};{p_};{y_};{x_};{len(c)}" for (i_, p_, y_, x_), c in zip(idx, copies)])
                    R.corr(f"c05 patch {list_s(ms, meta_s)} {hsz} {obs}", lambda: info_s(tags), sig="handoff|offsets")
                os.unlink(d)
            R.oracle(not bad, bad[0][0] if bad else "handoff", case, "; ".join(w for _, w in bad[:3]), sig="handoff")

        # ---- joint computes whose members differ as little as possible (only the directory / + data / + one option)
        t_j = time.time()
        for k in range(R.pick(12, 300)):
            if time.time() - t_j > R.pick(8, 200):
                break
            try:
                joint_minimal(R, rng, workdir, k)
            except Exception:  # pylint: disable=broad-except
                R.oracle(False, "joint-minimal-harness-exception", {"k": k}, traceback.format_exc()[-600:], sig="e2e|joint-minimal")

        # ---- sequences of saves that RE-USE the caller's option objects (one compressionargs dict, one blocksize list):
        # every file must come out as with fresh arguments (a level / LERC tolerance given for one save must not stick),
        # and the objects must stay as the caller made them
        for k in range(R.pick(4, 80)):
            shared = {"cargs": {}, "blocksize": [16, 32]}
            frozen = snapshot(shared)
            fam_ = rng.choice([["lerc", "lerc", "Lerc_ZSTD"], ["zstd", "zstd", "deflate"], ["lerc_deflate", "lerc", "lerc"]])
            for j in range(rng.randint(2, 3)):
                cfg = gen_cfg(rng, big=False)
                own_kw = {"lerc": "max_z_error", "lerc_zstd": "max_z_error", "lerc_deflate": "max_z_error", "zstd": "zstd_level",
                          "deflate": "zlevel"}[fam_[j].lower()]
                cfg.update(comp=fam_[j], ckw=({own_kw: rng.choice([1, 2, 9])} if j == 0 or rng.random() < 0.3 else {}), level=None,
                           predictor=None, blocksize=[16, 32], bs_container="list", cargs_route=False, recompute=False, dst_state="fresh",
                           dtype=rng.choice(["float32", "int16", "uint16"]), byteorder="=", seq=[k, j])
                cfg["nodata"] = rng.choice([None, 7])
                if cfg["axis"] == "YX":
                    cfg["ns"] = 1
                run_e2e(R, cfg, workdir, f"q{k}_{j}", shared=shared)
            R.oracle(snapshot(shared) == frozen, "caller-argument-mutated", {"sequence": k, "shared": repr(shared)},
                     f"option objects re-used across saves were modified: {shared!r}", sig="e2e|sequence|shared-objects")

        # ---- the sink under forced interleavings of the FIRST part writes (parts directory created lazily): every
        # interleaving of two writers' filesystem steps, a seeded sample (thorough: many more) for three writers
        import itertools  # pylint: disable=import-outside-toplevel

        def interleavings(counts):
            items = [t for t, c in enumerate(counts) for _ in range(c)]
            return sorted(set(itertools.permutations(items))) if len(items) <= 8 else None

        scheds = [(2, list(sc)) for sc in interleavings([4, 4])]
        for _ in range(R.pick(60, 1500)):
            sc = [0] * 4 + [1] * 4 + [2] * 4
            rng.shuffle(sc)
            scheds.append((3, sc))
        for k, (nt, sc) in enumerate(scheds):
            try:
                bad = sink_race_case(sc, nt, workdir, f"race{k}")
            except Exception:  # pylint: disable=broad-except
                bad = ("sink-race-harness-exception", traceback.format_exc()[-500:])
            R.oracle(bad is None, bad[0] if bad else "sink-first-writes-race", {"fn": "MPUFileSink first writes", "threads": nt, "schedule": sc},
                     bad[1] if bad else "", sig=f"sink-race|{nt}-threads")

        for k in range(R.pick(25, 300)):
            try:
                handoff_case(k)
            except Exception:  # pylint: disable=broad-except
                R.oracle(False, "handoff-harness-exception", {"k": k}, traceback.format_exc()[-600:], sig="handoff")

        # probe of the known finding: uncompressed + a level of exactly one tile → `_make_empty_cog` never returns
        probe = {"fn": "_make_empty_cog", "shape": [32, 32], "gbox": "N", "blocksize": ["16"], "compression": "none"}
        try:
            if have("_make_empty_cog"):
                with_timeout(4.0, lambda: T._make_empty_cog((32, 32), "uint8", None, blocksize=[16], compression="none"))  # pylint: disable=protected-access
            else:  # the public route into the same header writer (dry run: dst="")
                import dask.array as _da  # pylint: disable=import-outside-toplevel
                import xarray as _xr  # pylint: disable=import-outside-toplevel

                with_timeout(4.0, lambda: T.save_cog_with_dask(_xr.DataArray(_da.zeros((32, 32), dtype="uint8", chunks=(16, 16)), dims=("y", "x")),
                                                               "", blocksize=[16], compression="none", stats=False))
            hung = False
        except _Timeout:
            hung = True
        except Exception:  # pylint: disable=broad-except
            hung = False
        R.oracle(not hung, "make-empty-cog-hangs:uncompressed-single-tile-level", probe,
                 "save_cog_with_dask(compression='none'): _make_empty_cog((32,32), blocksize=[16]) does not return — tifffile writes "
                 "an uncompressed single-tile level contiguously and drains the endless itertools.repeat(b'')", sig="probe|uncompressed")
    finally:
        shutil.rmtree(workdir, ignore_errors=True)

    R.searchers.append(search)
    R.assumptions += [
        "C06.main (multi-part writer: bytes in part order = header ++ tiles in stream order) is assumed by the C05 theorems "
        "that speak about file offsets; checked end-to-end here on every written file (offset order = model write order, "
        "gap-free from header size to end of file)",
        "tifffile tag serialisation and TIFF tile numbering (plane-major, row-major), imagecodecs codecs, GDAL decode, "
        "dask executing each task once after its dependencies",
        "align_down_pow2 goes through float log2 in the code; modelled exactly (only reachable through max_pad)",
    ]


def search(R: Run, mismatches):
    """After a broken proof/correspondence: sweep header layouts for an input violating the layout rule."""
    _, S, T, GeoBox, _ = _imp()
    from affine import Affine  # pylint: disable=import-outside-toplevel

    if getattr(T, "_make_empty_cog", None) is None:
        return None
    for y in list(range(1, 70)) + [100, 127, 128, 129, 255, 256, 257, 300, 1000]:
        for x in (1, 3, 16, 17, 40, 200, y):
            for b in (16, 32, 48, 100):
                try:
                    meta, _ = T._make_empty_cog((y, x), "uint8", GeoBox((y, x), Affine(1, 0, 0, 0, -1, 0), "epsg:3857"), blocksize=[b])  # pylint: disable=protected-access
                    ms = list(meta.flatten())
                    bad = layout_oracle((y, x), (b, b), [(m.shape.y, m.shape.x) for m in ms], [(m.tile.y, m.tile.x) for m in ms])
                except Exception as e:  # pylint: disable=broad-except
                    bad = [f"raised {type(e).__name__}"]
                if bad:
                    return {"key": "layout-rule", "case": {"fn": "_make_empty_cog", "shape": [y, x], "gbox": f"{y},{x},1;0;0;0;-1;0", "blocksize": [str(b)]},
                            "what": "; ".join(bad)}
                k = S.num_overviews(b, y)
                if k != least_k(b, y):
                    return {"key": "num-overviews-not-least", "case": {"block": b, "dim": y}, "what": f"{k}"}
    return None


def replay(R: Run, rec) -> int:
    case = rec.get("case") or {}
    key = rec.get("key", "")
    print("replay key:", key)
    print("replay case:", case)
    _, S, T, GeoBox, _ = _imp()
    if isinstance(case, dict) and "axis" in case and "pixseed" in case:
        d = tempfile.mkdtemp(prefix="c05-")
        try:
            facts, fails = e2e(case, d, "replay")
        finally:
            shutil.rmtree(d, ignore_errors=True)
        for k, w in fails:
            print("FAIL", k, w)
        try:
            lines = [facts[k] for k in ("cog_line",) if k in facts]
            if lines:
                print("model:", run_driver("C05", lines), " real:", facts.get("cog"))
        except Exception as e:  # pylint: disable=broad-except
            print("driver unavailable:", e)
        return 1 if fails else 0
    if key.startswith("sink-"):
        d = tempfile.mkdtemp(prefix="c05-")
        try:
            bad = sink_race_case(case["schedule"], case["threads"], d, "replay")
        finally:
            shutil.rmtree(d, ignore_errors=True)
        print("result:", bad or "all first writes succeeded, finalised file correct")
        return 1 if bad else 0
    if key.startswith("make-empty-cog-hangs"):
        try:
            fn_ = getattr(T, "_make_empty_cog", None)
            if fn_ is None:
                print("no _make_empty_cog in this tree")
                return 0
            with_timeout(4.0, lambda: fn_(tuple(case["shape"]), "uint8", None, blocksize=[16], compression="none"))
            print("returned")
            return 0
        except _Timeout:
            print("still running after 4 s: endless loop")
            return 1
    if isinstance(case, dict) and case.get("fn") == "_make_empty_cog":
        from affine import Affine  # pylint: disable=import-outside-toplevel

        def pb(s):
            return int(s) if "x" not in s else tuple(int(v) for v in s.split("x"))

        g = case["gbox"]
        gb = None
        if g != "N":
            gy, gx, a = g.split(",")
            gb = GeoBox((int(gy), int(gx)), Affine(*[float(Fraction(v)) for v in a.split(";")]), "epsg:3857")
        try:
            meta, _ = T._make_empty_cog(tuple(case["shape"]), "uint8", gb, blocksize=[pb(b) for b in case["blocksize"]])  # pylint: disable=protected-access
            print("real:", cog_s(meta))
            ms = list(meta.flatten())
            shape = case["shape"]
            src = tuple(shape) if meta.axis == "YX" else (tuple(shape[:2]) if meta.axis == "YXS" else tuple(shape[1:]))
            lb = pb(case["blocksize"][-1])
            bad = layout_oracle(src, (lb, lb) if isinstance(lb, int) else lb, [(m.shape.y, m.shape.x) for m in ms],
                                [(m.tile.y, m.tile.x) for m in ms])
            print("layout oracle:", bad or "ok")
            return 1 if bad else 0
        except Exception as e:  # pylint: disable=broad-except
            print("real code raised", type(e).__name__, e)
            return 1
    if key == "num-overviews-not-least":
        k = S.num_overviews(case["block"], case["dim"])
        print("num_overviews =", k, "least k =", least_k(case["block"], case["dim"]))
        return 0 if k == least_k(case["block"], case["dim"]) else 1
    if key == "blocksize-not-mult16":
        v = S.adjust_blocksize(case["block"], case["dim"])
        print("adjust_blocksize =", v)
        return 0 if v % 16 == 0 else 1
    if key == "padded-shape-rule":
        p, t, n = S.compute_cog_spec(tuple(case["shape"]), tuple(case["tile"]))
        print("compute_cog_spec =", p, t, n)
        ok = all(s <= q < s + 2**n and q % 2**n == 0 for s, q in zip(case["shape"], (p.y, p.x)))
        return 0 if ok else 1
    print("no specific replay for this key; re-run the check with the recorded seed/tier")
    return 0
