"""C01 — operations never silently mix coordinate reference systems."""
from __future__ import annotations

import itertools
import warnings
from fractions import Fraction
from typing import Any, Dict, List, Optional, Tuple

from .common import Run, bool_s, frac_s, run_driver

META = {
    "claimed": True,
    "text": "Lean 4 theorems over a hand model of CRS.__eq__ and of every combining operation of the geometry, "
    "bounding-box and GeoBox APIs (guard-then-delegate, reduce, stream fold with the check inside the loop, "
    "pixel-domain generator), for arbitrary operand lists and an arbitrary shapely/pixel delegate: a mismatch "
    "(including exactly one operand without CRS) never returns and raises the CRS ValueError; a returned result "
    "means all CRSs compared equal; with equal CRSs (any spelling) the result is exactly the raw computation "
    "re-tagged with the first operand's CRS.  Second part (Model/C01Glue): how an object gets its CRS (Geometry(...) "
    "clone / GeoJSON-Feature default of EPSG:4326 / explicit argument / refusal, BoundingBox and its static constructors, "
    "Geometry.transform(crs=...)), CRS == <anything that is not a CRS>, the `== 'epsg:4326' or None` dispatch of "
    "BoundingBox.aoi / map_bounds, the hemisphere arithmetic of norm_crs('utm-n' / 'utm-s') for every zone, and the CRS "
    "carried by the result of every single-operand operation of Geometry / BoundingBox / GeoBox (linked to C02's model: every "
    "GeoBox view keeps the CRS), composed with the mismatch theorem; the utm arithmetic is linked to C11's normUtm and the ranking "
    "of _pick_best_crs (C11.pickBest) is shown to sit behind the C01 guard (region & poly is Geometry.__and__) "
    "(a mismatch cannot be laundered through derived operands).  Every op x ordered tag pair x geometry kind is compared "
    "with the real call (verdict, CRS tag, raw shapely / CRS-stripped result); n-ary operations also along the LENGTH axis "
    "(8 ... 4097 operands around powers of two, list / tuple / iterator / generator, odd operand first / second / middle / "
    "last-but-one / last).  Operation tables are not compared structurally with introspection: an unknown public operation "
    "only triggers a behavioural probe (operands in different CRSs; must depend on the coordinates of both to count).",
    "note": "Trusted: Lean kernel + {propext, Classical.choice, Quot.sound}; shapely and the pixel-grid arithmetic are "
    "parameters (C16 covers the arithmetic); pyproj equality assumed to be an equivalence and the CRS-record "
    "well-formedness (WF) is checked on the run's CRS pool, not proved; converting operations "
    "(project/enclosing/crop/tiles/grid_intersect) re-project or read CRS-less operands as pixel coordinates by "
    "documented design and are modelled separately (conv_never_mixes); CRS.utm (pyproj database query) is observed, only the "
    "epsg +-100 step after it is modelled; 'utm<anything else>' is read as 'utm' by the code as found (modelled: otherSuffix).  "
    "NOT mirrored in the Lean model (inventory of the anchor files): geom.py — force_2d / _geojson_to_shapely (which feature of a "
    "FeatureCollection becomes the shape; _multigeom itself is modelled in C07Fix), chop_along_antimeridian / projected_lon "
    "(shapely intersects / split are parameters of C07's model), BoundingBox.qr2sample / boundary numerics (only their CRS), "
    "Geometry.explore / svg; crs.py — _make_crs_key/_crs_cache (process-global cache; exercised by the cache-poisoning oracle "
    "only), CRS.__hash__/pickle/tokenize (C19), CRS.utm/_pick_best_crs (uses `&` on a valid-region box; observation: "
    "CRS.utm(BoundingBox in a projected CRS spanning two zones) raises CRSMismatchError where a Geometry is converted), "
    "crs_units_per_degree (uses to_crs; C07); geobox.py — the pixel arithmetic behind pixel_translation (C16), "
    "GeoBox.from_bbox/from_geopolygon CRS defaulting, footprint, GeoboxTiles._check_linear/_grid_intersect_linear arithmetic, "
    "GeoBox.footprint / geographic_extent / qr2sample (C02 / C07).",
    "technique": "Lean 4 proof over hand model + exhaustive differential correspondence with real code",
    "design_ref": "DESIGN.md §4 C01",
}

SINU = "+proj=sinu +lon_0=0 +x_0=0 +y_0=0 +R=6371007.181 +units=m +no_defs"


def _mods():
    import odc.geo.geobox as gbmod
    import odc.geo.geom as gmod
    from odc.geo.crs import CRS, CRSMismatchError

    return gmod, gbmod, CRS, CRSMismatchError


# --------------------------------------------------------------------------- CRS pool / records
def crs_definitions() -> List[Tuple[str, str]]:
    """(label, definition).  EPSG-coded CRSs in several spellings, and CRSs WITHOUT an EPSG code: custom PROJ strings,
    datum-less UTM (PROJ identifies it fuzzily as an EPSG code), sinusoidal, LAEA with odd parameters, ESRI WKT and
    PROJ-string (lossy) spellings of EPSG CRSs, each next to the EPSG codes PROJ's `to_epsg()` guesses for them."""
    import pyproj
    from pyproj.enums import WktVersion

    p4326, p3857 = pyproj.CRS.from_epsg(4326), pyproj.CRS.from_epsg(3857)
    sinu = pyproj.CRS.from_user_input(SINU)
    return [
        ("4326", "EPSG:4326"),
        ("3857", "EPSG:3857"),
        ("4326wkt2", p4326.to_wkt(version=WktVersion.WKT2_2019)),
        ("3857json", p3857.to_json()),
        ("4326lower", "epsg:4326"),
        ("4326wkt1", p4326.to_wkt(version=WktVersion.WKT1_GDAL)),
        ("3857esri", p3857.to_wkt(version=WktVersion.WKT1_ESRI)),
        ("3857wkt2", p3857.to_wkt(version=WktVersion.WKT2_2019)),
        ("sinu", SINU),
        ("sinuwkt", sinu.to_wkt()),
        ("laea", "+proj=laea +lat_0=47.3 +lon_0=14.7 +x_0=1234.5 +y_0=-77 +ellps=GRS80 +units=m +no_defs"),
        ("laea2", "+proj=laea +lat_0=47.3 +lon_0=14.7 +x_0=1234.5 +y_0=-77 +ellps=WGS84 +units=m +no_defs"),
        ("utm55s-nodatum", "+proj=utm +zone=55 +south +ellps=GRS80 +units=m +no_defs"),
        ("7855", "EPSG:7855"),
        ("28355", "EPSG:28355"),
        ("3577", "EPSG:3577"),
        ("3577proj4", pyproj.CRS.from_epsg(3577).to_proj4()),
        ("9473", "EPSG:9473"),
        ("32633", "EPSG:32633"),
        ("32633proj4", "+proj=utm +zone=33 +datum=WGS84 +units=m +no_defs"),
        ("27700", "EPSG:27700"),
    ]


class Pool:
    """CRS objects with ground truth; turns a live CRS into the record `CRS.__eq__` can observe.

    An entry is `(label, truth, crs, lazy)`: `truth` is the class of the definition under pyproj's own exact equality
    of *fresh* pyproj objects built by the harness (never through odc-geo); `lazy` says that `.epsg` has been read on
    this very wrapper (label suffix `+read`) — `CRS._epsg` is filled lazily and `CRS.__eq__` looks at it, so every
    definition appears in both states and every pair in all four combinations."""

    BASE = ("4326", "3857", "4326wkt2", "3857json", "4326lower", "4326wkt1+read")
    REGIONAL = ("sinu", "sinu+read", "laea", "laea+read", "3857esri", "3857esri+read", "sinuwkt+read")

    def __init__(self, thorough: bool):
        import pyproj

        _, _, CRS, _ = _mods()
        defs = crs_definitions()
        fresh = [pyproj.CRS.from_user_input(d) for _, d in defs]
        reps: List[Any] = []
        truth: Dict[str, str] = {}
        for (lab, _), pc in zip(defs, fresh):
            for k, r in enumerate(reps):
                if r == pc:
                    truth[lab] = f"T{k}"
                    break
            else:
                reps.append(pc)
                truth[lab] = f"T{len(reps) - 1}"
        self.truth_is_equivalence = all((a == b) == (truth[la] == truth[lb])
                                        for (la, _), a in zip(defs, fresh) for (lb, _), b in zip(defs, fresh))
        wide = [("none", None, None, False)]
        for lab, d in defs:
            wide.append((lab, truth[lab], CRS(d), False))
            if d.upper().startswith("EPSG:"):
                continue  # `_epsg` is filled at construction: there is no lazy state to vary
            c = CRS(d)
            _ = c.epsg  # the lazy slot is now a code, or None
            wide.append((lab + "+read", truth[lab], c, True))
        self.wide = wide
        self.fresh_reps = reps
        # ---- the spelling / type dimension: near-EPSG systems in every spelling, foreign objects included
        from .c01_spellings import NEAR_EPSG, spellings

        self.spelled: List[Tuple[str, Any, Any, bool]] = []
        self.spec_of: Dict[str, Any] = {}
        for k, (dlab, d, near, _reg) in enumerate(NEAR_EPSG):
            sp = spellings(dlab, d, near)
            if k % 2 == 0:
                # foreign objects are seen BEFORE the plain strings of the same CRS (process-global cache order)
                sp = sorted(sp, key=lambda t: 0 if (t[0].startswith("duck") or t[0] == "rasterio") else 1)
            for sname, mk, ident in sp:
                lab = f"{dlab}@{sname}"
                try:
                    c = CRS(mk())
                except Exception as e:  # pylint: disable=broad-except
                    self.spec_of[lab] = (mk, ident, dlab, near, e)
                    continue
                self.spec_of[lab] = (mk, ident, dlab, near, None)
                self.spelled.append((lab, self.truth_for(ident), c, False))
        byl = {e[0]: e for e in wide + self.spelled}
        self.by_label = byl
        self.entries = [byl["none"]] + [byl[l] for l in self.BASE]          # all kinds x all pairs
        self.regional = self.entries + [byl[l] for l in self.REGIONAL]      # valid around lon 1..9, lat 1..9
        if thorough:
            self.entries = self.entries + [byl[l] for l in ("3857wkt2", "sinu+read", "sinuwkt", "laea")]
        self.small = self.entries[:5]
        self._obj: Dict[int, int] = {}
        self._str: Dict[str, int] = {}
        self._reps: List[Any] = []
        self._keep: List[Any] = []
        self._cls: Dict[int, int] = {}
        for e in wide + self.spelled:
            if e[2] is not None:
                self.rec(e[2])

    def truth_for(self, pobj) -> str:
        """ground-truth class of an independent pyproj identity (exact pyproj equality)"""
        for k, r in enumerate(self.fresh_reps):
            if r == pobj:
                return f"T{k}"
        self.fresh_reps.append(pobj)
        return f"T{len(self.fresh_reps) - 1}"

    def anchors_for(self, e):
        """what a spelled entry is paired with: no CRS, the EPSG CRS its fuzzy code names, an unrelated CRS, and the same
        definition as a plain WKT2 string"""
        _, _, dlab, near, _ = self.spec_of[e[0]]
        labs = ["none", str(near), "3857", f"{dlab}@wkt2"]
        return [self.by_label[l] for l in labs if l in self.by_label and l != e[0]]

    def rec(self, crs) -> str:
        if crs is None:
            return "N"
        p = crs._crs  # pylint: disable=protected-access
        if id(p) not in self._obj:
            self._obj[id(p)] = len(self._obj) + 1
            self._keep.append(p)
        s = crs._str  # pylint: disable=protected-access
        if s not in self._str:
            self._str[s] = len(self._str) + 1
        cls = self._cls.get(id(p))
        if cls is None:
            for i, r in enumerate(self._reps):
                if r == p:
                    cls = i + 1
                    break
            if cls is None:
                self._reps.append(p)
                cls = len(self._reps)
            self._cls[id(p)] = cls   # `p` is kept alive in _keep, the address cannot be recycled
        epsg = crs._epsg or 0  # pylint: disable=protected-access
        return f"{self._obj[id(p)]}:{epsg}:{self._str[s]}:{cls}"

    def fuzzy_code_match(self, ea, eb) -> bool:
        """The one known way `CRS.__eq__` disagrees with pyproj on the unchanged tree: `.epsg` was read on a CRS that is
        not spelled as an EPSG code, PROJ's fuzzy `to_epsg()` cached a code in `_epsg`, and that code equals the other
        operand's code although pyproj does not find the two CRSs equal."""
        a, b = ea[2], eb[2]
        if a is None or b is None or ea[1] == eb[1]:
            return False
        ca, cb = a._epsg or 0, b._epsg or 0  # pylint: disable=protected-access
        lazy_code = (ea[3] and not a._str.startswith("EPSG:")) or (eb[3] and not b._str.startswith("EPSG:"))  # pylint: disable=protected-access
        return bool(lazy_code and ca != 0 and ca == cb)


KNOWN_FUZZY = "crs-eq-fuzzy-epsg-code-match"


def err_str(e: BaseException) -> str:
    _, _, _, CRSMismatchError = _mods()
    if isinstance(e, CRSMismatchError):
        return "ERR:CRSMismatch"
    for t, s in ((ValueError, "ValueError"), (AssertionError, "AssertionError"), (TypeError, "TypeError"),
                 (KeyError, "KeyError")):
        if isinstance(e, t):
            return "ERR:" + s
    return "ERR:" + type(e).__name__


# --------------------------------------------------------------------------- operands
def shapes():
    """geometry kinds (dyadic vertices) and partners chosen to cross / touch / contain them"""
    from shapely import geometry as sg

    box = sg.box
    kinds = {
        "point": sg.Point(1, 1),
        "line": sg.LineString([(0, 0), (2, 2), (3, 0)]),
        "ring": sg.LinearRing([(0, 0), (0, 3), (3, 3), (3, 0), (0, 0)]),
        "polygon": box(0, 0, 2, 2),
        "polygon+hole": sg.Polygon([(0, 0), (0, 4), (4, 4), (4, 0)], [[(1, 1), (2, 1), (2, 2), (1, 2)]]),
        "multipoint": sg.MultiPoint([(0, 0), (1, 1), (3, 3)]),
        "multiline": sg.MultiLineString([[(0, 0), (2, 2)], [(0, 2), (2, 0)]]),
        "multipolygon": sg.MultiPolygon([box(0, 0, 1, 1), box(2, 2, 3, 3)]),
        "collection": sg.GeometryCollection([sg.Point(1, 1), sg.LineString([(0, 0), (3, 3)]), box(1, 1, 3, 3)]),
    }
    partners = {
        "P": box(0.5, 0.5, 2.5, 2.5),
        "L": sg.LineString([(-1, 1), (4, 1.5)]),
        "pt": sg.Point(1, 1),
    }
    return kinds, partners


def relations():
    """partners in every geometric relation of the RAW coordinates to the kinds of `shapes()` (which live in 0..4):
    overlapping, touching, contained, disjoint-near, disjoint-far (metre-like magnitudes against degree-like ones: what
    two genuinely different CRSs look like), each as an areal and as a linear partner (the latter are valid splitters)"""
    from shapely import geometry as sg

    box = sg.box
    return {
        "overlap-line": sg.LineString([(-1, 0.5), (5, 1.75)]),
        "touch-box": box(2, 0, 4, 2),
        "touch-line": sg.LineString([(2, -1), (2, 3)]),
        "contained-box": box(0.5, 0.5, 1, 1),
        "contained-line": sg.LineString([(0.5, 0.5), (1.5, 1.0)]),
        "near-box": box(5, 5, 6, 6),
        "near-line": sg.LineString([(5, -1), (5, 6)]),
        "near-multiline": sg.MultiLineString([[(5, -1), (5, 6)], [(6, 0), (7, 1)]]),
        "far-box": box(500000.0, 6000000.0, 500100.0, 6000100.0),
        "far-line": sg.LineString([(499000.0, 5999000.0), (510000.0, 6100000.0)]),
        "far-multiline": sg.MultiLineString([[(499000.0, 5999000.0), (510000.0, 6100000.0)], [(-7e6, -3e6), (-7e6, -2e6)]]),
        "far-point": sg.Point(-2500000.0, 1.25e7),
    }


def ser_raw(r):
    """raw operand -> JSON-able (for replay files)"""
    if isinstance(r, tuple) and len(r) == 4:
        return {"bbox": [repr(float(v)) for v in r]}
    if isinstance(r, tuple) and len(r) == 2:
        return {"shape": list(r[0]), "affine": [float(v) for v in tuple(r[1])[:6]]}
    return {"wkt": r.wkt}


def deser_raw(x):
    from affine import Affine
    from shapely import wkt

    if "bbox" in x:
        return tuple(float(v) for v in x["bbox"])
    if "shape" in x:
        return (tuple(x["shape"]), Affine(*x["affine"]))
    return wkt.loads(x["wkt"])


def _consume(out):
    """every lazy result (generator / iterator) is run to its end before anything is judged"""
    if hasattr(out, "__next__"):
        return list(out)
    return out


def _eq_nan_seq(a, b) -> bool:
    import math

    a, b = tuple(a), tuple(b)
    return len(a) == len(b) and all(x == y or (isinstance(x, float) and isinstance(y, float) and math.isnan(x) and math.isnan(y))
                                    for x, y in zip(a, b))


def geoboxes():
    from affine import Affine

    return {
        "g0": ((8, 8), Affine(0.25, 0, 0, 0, -0.25, 2)),
        "shift": ((6, 10), Affine(0.25, 0, 0.75, 0, -0.25, 2.5)),  # whole-pixel shift: compatible grid
        "far": ((4, 4), Affine(0.25, 0, 8, 0, -0.25, 10)),  # compatible, disjoint
        "half": ((8, 8), Affine(0.25, 0, 0.125, 0, -0.25, 2)),  # half-pixel shift: incompatible
        "res": ((8, 8), Affine(0.5, 0, 0, 0, -0.5, 2)),  # other resolution: incompatible
        # empty geoboxes (a zero in the shape: disjoint `&`, `[k:k, :]` crops) on the compatible grid
        "empty-rows": ((0, 5), Affine(0.25, 0, 0.5, 0, -0.25, 1.5)),
        "empty-cols": ((4, 0), Affine(0.25, 0, 3.0, 0, -0.25, 4.0)),
        "empty-both": ((0, 0), Affine(0.25, 0, 0, 0, -0.25, 2)),
        "metres-far": ((10, 10), Affine(30.0, 0, 500000.0, 0, -30.0, 6000000.0)),  # what another CRS looks like
        "far-aligned": ((4, 4), Affine(0.25, 0, 2.0 ** 20, 0, -0.25, -(2.0 ** 21))),  # compatible grid, a million pixels away
    }


# --------------------------------------------------------------------------- raw (CRS-free) computations
class Raw:
    """What shapely / the CRS-stripped operation returns — the `Delegate` of the Lean model."""

    def __init__(self):
        self.gmod, self.gbmod, _, _ = _mods()

    def strip(self, o):
        gm, gb = self.gmod, self.gbmod
        if isinstance(o, gm.Geometry):
            return o.geom
        if isinstance(o, gm.BoundingBox):
            return tuple(o.bbox)
        if isinstance(o, gb.GeoBox):
            return gb.GeoBox(o.shape, o.affine, None)
        raise TypeError(type(o))

    def call(self, name: str, ss: List[Any]):
        from shapely import ops as sops

        fam, m = name.split(".", 1)
        if fam == "Geometry":
            if m == "split":
                return list(sops.split(ss[0], ss[1]).geoms)
            return getattr(ss[0], m)(ss[1])
        if name == "geom.common_crs":
            return None
        if name == "geom.multigeom":
            raw_multigeom = getattr(self.gmod, "_multigeom", None)
            if raw_multigeom is None:   # private helper renamed / inlined: the public route on CRS-less geometries
                return self.gmod.multigeom([self.gmod.Geometry(x, None) for x in ss]).geom
            return raw_multigeom(list(ss))
        if name == "geom.unary_union":
            return sops.unary_union(list(ss))
        if name == "geom.intersects":
            return ss[0].intersects(ss[1]) and not ss[0].touches(ss[1])
        if fam == "GeoBox":
            return getattr(self.gbmod.GeoBox, m)(ss[0], ss[1])
        if fam == "geobox":
            return getattr(self.gbmod, m)(ss[0], ss[1])
        raise KeyError(name)

    def step(self, name: str, acc, s):
        if name == "geom.unary_intersection":
            return acc.intersection(s)
        L, B, R_, T = acc
        l, b, r, t = s
        if name in ("geom.bbox_union", "BoundingBox.__or__"):
            return (min(l, L), min(b, B), max(r, R_), max(t, T))
        if name in ("geom.bbox_intersection", "BoundingBox.__and__"):
            return (max(l, L), max(b, B), min(r, R_), min(t, T))
        raise KeyError(name)

    def whole_pixel(self, name: str, ss: List[Any]):
        fam, m = name.split(".", 1)
        if fam == "GeoBox":
            return getattr(self.gbmod.GeoBox, m)(ss[0], ss[1])
        return getattr(self.gbmod, m)(list(ss))

    def eval(self, name: str, expr: str, ss: List[Any]):
        """evaluate the model's symbolic delegate expression on raw shapes"""
        pos = 0

        def parse():
            nonlocal pos
            if expr[pos].isdigit():
                j = pos
                while j < len(expr) and expr[j].isdigit():
                    j += 1
                v = ("idx", int(expr[pos:j]))
                pos = j
                return v
            j = expr.index("[", pos)
            head = expr[pos:j]
            pos = j + 1
            args = []
            if expr[pos] == "]":
                pos += 1
                return (head, args)
            while True:
                args.append(parse())
                if expr[pos] == ";":
                    pos += 1
                    continue
                assert expr[pos] == "]", expr
                pos += 1
                return (head, args)

        tree = parse()
        assert pos == len(expr), expr

        def ev(t):
            head, a = t
            if head == "idx":
                return ss[a]
            if head == "call":
                return self.call(name, [ev(x) for x in a])
            if head == "init":
                return ev(a[0])
            if head in ("step", "stepT"):
                return self.step(name, ev(a[0]), ev(a[1]))
            if head == "fin":
                # fin[ref; pix[0;ref]; pix[1;ref] …] — the CRS-stripped operation as a whole
                want = [("idx", 0)] + [("pix", [("idx", i), ("idx", 0)]) for i in range(len(ss))]
                assert a == want, expr
                return self.whole_pixel(name, ss)
            raise KeyError(head)

        return ev(tree)

    def same(self, res, raw) -> bool:
        gm, gb = self.gmod, self.gbmod
        from shapely.geometry.base import BaseGeometry

        if isinstance(res, list):
            return isinstance(raw, list) and len(res) == len(raw) and all(self.same(a, b) for a, b in zip(res, raw))
        if isinstance(res, gm.Geometry):
            if not isinstance(raw, BaseGeometry):
                return False
            g = res.geom
            return g.geom_type == raw.geom_type and (g.wkb == raw.wkb or bool(g.equals_exact(raw, 0)))
        if isinstance(res, gb.GeoBox):
            return isinstance(raw, gb.GeoBox) and res.shape == raw.shape and res.affine == raw.affine
        if isinstance(res, gm.BoundingBox):
            if isinstance(raw, gm.BoundingBox):
                return _eq_nan_seq(res.bbox, raw.bbox)
            return _eq_nan_seq(res.bbox, raw)
        if isinstance(res, bool) or isinstance(raw, bool):
            return isinstance(res, bool) and isinstance(raw, bool) and res == raw
        return res == raw


# --------------------------------------------------------------------------- real calls
class Real:
    def __init__(self):
        self.gmod, self.gbmod, self.CRS, _ = _mods()

    @staticmethod
    def as_form(objs: List[Any], form: int):
        """the operand collection as a list / tuple / one-shot iterator / generator"""
        form %= 4
        if form == 0:
            return list(objs)
        if form == 1:
            return tuple(objs)
        if form == 2:
            return iter(objs)
        return (o for o in objs)

    OPERATORS = {"__and__": "and_", "__or__": "or_", "__xor__": "xor", "__sub__": "sub", "__eq__": "eq",
                 "__getitem__": "getitem"}

    def resolve(self, name: str):
        """-> (callable as found on the class / module, is_method, operand parameter names from inspect.signature)"""
        import inspect

        fam, m = name.split(".", 1)
        owner = {"Geometry": self.gmod.Geometry, "BoundingBox": self.gmod.BoundingBox, "GeoBox": self.gbmod.GeoBox,
                 "GeoboxTiles": self.gbmod.GeoboxTiles, "geom": self.gmod, "geobox": self.gbmod}[fam]
        fn = getattr(owner, m)
        is_method = fam in ("Geometry", "BoundingBox", "GeoBox", "GeoboxTiles")
        names = [p.name for p in inspect.signature(fn).parameters.values()
                 if p.kind in (p.POSITIONAL_ONLY, p.POSITIONAL_OR_KEYWORD)]
        return fn, is_method, names

    def call_forms(self, name: str) -> List[str]:
        """the call forms that exist for this operation (whether they are *accepted* is what is checked)"""
        _, is_method, _ = self.resolve(name)
        m = name.split(".", 1)[1]
        forms = ["positional", "keyword"]
        if is_method:
            forms.append("allkeyword")
        if m in self.OPERATORS:
            forms.append("operator")
        return forms

    def call(self, name: str, objs: List[Any], form: int = 2, callform: str = "positional"):
        if callform != "positional":
            import operator

            fn, is_method, pn = self.resolve(name)
            m = name.split(".", 1)[1]
            iterable = not is_method and len(pn) >= 1 and (m.endswith("_conservative") or m in (
                "common_crs", "multigeom", "unary_union", "unary_intersection", "bbox_union", "bbox_intersection"))
            if callform == "operator":
                out = getattr(operator, self.OPERATORS[m])(*objs)
            elif iterable:
                out = fn(**{pn[0]: (list(objs) if m.endswith("_conservative") else self.as_form(objs, form))})
            elif callform == "keyword" and is_method:
                out = getattr(objs[0], m)(**dict(zip(pn[1:], objs[1:])))
            else:  # keyword for module functions, allkeyword for methods (unbound)
                out = fn(**dict(zip(pn, objs)))
            return _consume(out)
        fam, m = name.split(".", 1)
        if fam == "Geometry":
            return _consume(getattr(self.gmod.Geometry, m)(*objs))
        if fam == "BoundingBox":
            return _consume(getattr(self.gmod.BoundingBox, m)(*objs))
        if fam == "GeoBox":
            return _consume(getattr(self.gbmod.GeoBox, m)(*objs))
        if fam == "geom":
            fn = getattr(self.gmod, m)
            return _consume(fn(*objs) if m == "intersects" else fn(self.as_form(objs, form)))
        if fam == "geobox":
            fn = getattr(self.gbmod, m)
            return _consume(fn(list(objs)) if m.endswith("_conservative") else fn(*objs))
        raise KeyError(name)


def parse_specs(txt: str) -> Dict[str, Dict[str, str]]:
    out = {}
    for item in txt.split(","):
        name, walk, ar, rt, err = item.split("|")
        out[name] = {"walk": walk, "arity": ar, "restag": rt, "err": err}
    return out


# --------------------------------------------------------------------------- the check
class Ctx:
    def __init__(self, R: Run):
        self.R = R
        self.pool = Pool(not R.quick)
        self.raw = Raw()
        self.real = Real()
        self.gmod, self.gbmod, self.CRS, self.CRSMismatchError = _mods()
        self.cases: List[Dict[str, Any]] = []
        self._rawcache: Dict[Any, Any] = {}
        self.formok: Dict[Tuple[str, str], bool] = {}

    # ---- operand construction
    def tagged(self, raw, crs):
        gm, gb = self.gmod, self.gbmod
        if isinstance(raw, tuple) and len(raw) == 4:
            return gm.BoundingBox(*raw, crs=crs)
        if isinstance(raw, tuple) and len(raw) == 2:
            return gb.GeoBox(raw[0], raw[1], crs)
        return gm.Geometry(raw, crs)

    def add(self, name: str, ents, raws, kind: str, callform: str = "positional"):
        """one strict-table case: operands = raws tagged with the pool entries `ents`"""
        tags = [self.pool.rec(e[2]) for e in ents]
        line = f"c01 run {name} [{','.join(tags)}]"
        if callform != "positional":
            k = (name, callform)
            if k not in self.formok:
                self.formok[k] = run_driver("C01", [f"c01 callform {name} {callform}"])[0] == "accepted"
            if not self.formok[k]:
                # the model says this call form is refused by Python's argument binding, whatever the operands
                line = f"c01 callform {name} {callform}"
            kind = f"{kind}|{callform}"
        self.cases.append({"line": line, "name": name, "ents": ents, "raws": raws, "kind": kind,
                           "form": len(self.cases), "callform": callform})

    # ---- outcome of the real call in the model's vocabulary
    def res_tag(self, name: str, spec, res) -> str:
        gm, gb = self.gmod, self.gbmod
        if name == "geom.common_crs":
            return self.pool.rec(res)
        if isinstance(res, list):
            ts = {self.pool.rec(g.crs) for g in res}
            if len(ts) == 0:
                return "?empty"
            return ts.pop() if len(ts) == 1 else "mixed"
        if isinstance(res, (gm.Geometry, gb.GeoBox)):
            return self.pool.rec(res.crs)
        if isinstance(res, gm.BoundingBox):
            if spec["restag"] == "untagged":
                return "-" if res.crs is None else self.pool.rec(res.crs)
            return self.pool.rec(res.crs)
        return "-"

    def outcome(self, case, model: str) -> Tuple[str, Dict[str, Any]]:
        name, spec = case["name"], self.specs[case["name"]]
        objs = [self.tagged(r, e[2]) for r, e in zip(case["raws"], case["ents"])]
        info: Dict[str, Any] = {"raised": None, "res_ok": None, "tag": None}
        exc = None
        res = None
        try:
            with warnings.catch_warnings():
                warnings.simplefilter("ignore")
                res = self.real.call(name, objs, case.get("form", 2), case.get("callform", "positional"))
        except Exception as e:  # pylint: disable=broad-except
            exc = e
        strip = [self.raw.strip(o) for o in objs]
        expr = model.split(" ", 2)[2] if model.startswith("OK ") else None
        info["raised"] = exc
        if exc is not None:
            if expr is not None:
                # the model delegates: the same failure must come from the raw computation
                try:
                    with warnings.catch_warnings():
                        warnings.simplefilter("ignore")
                        self.raw.eval(name, expr, strip)
                except Exception as e2:  # pylint: disable=broad-except
                    if type(e2) is type(exc) and str(e2) == str(exc) and not isinstance(exc, self.CRSMismatchError):
                        info["delegate_raises"] = True
                        return model, info
            return err_str(exc), info
        if res is None and (name != "geom.common_crs" or not objs):
            return "NONE", info
        tag = self.res_tag(name, spec, res)
        info["tag"] = tag
        if isinstance(res, list) and not res and expr is not None:
            tag = model.split(" ")[1][4:]  # no piece to carry a tag
        if expr is None:
            return f"OK tag={tag} unexpected-success", info
        try:
            ck = (name, expr, tuple(id(r) for r in case["raws"]))
            if ck in self._rawcache:
                rawv = self._rawcache[ck]
            else:
                with warnings.catch_warnings():
                    warnings.simplefilter("ignore")
                    rawv = self.raw.eval(name, expr, strip)
                if not hasattr(rawv, "__next__"):
                    self._rawcache[ck] = rawv
            same = self.raw.same(res, rawv) if name != "geom.common_crs" else True
        except Exception as e2:  # pylint: disable=broad-except
            same = False
            rawv = f"raw raised {type(e2).__name__}"
        info["res_ok"] = same
        if same:
            return f"OK tag={tag} {expr}", info
        return f"OK tag={tag} result!=raw:{expr}", info

    # ---- property oracle, independent of the model: ground-truth labels of the pool
    def oracle(self, case, out: str, info):
        R = self.R
        name = case["name"]
        ents = case["ents"]
        if not ents:
            return
        truths = [e[1] for e in ents]
        labels = [e[0] for e in ents]
        differ = any(t != truths[0] for t in truths)
        cdesc = {"op": name, "tags": labels, "kind": case["kind"], "line": case["line"],
                 "callform": case.get("callform", "positional"),
                 "raws": [ser_raw(r) for r in case["raws"]] if len(case["raws"]) <= 8 else None}   # long streams: rebuilt from `kind`
        exc = info["raised"]
        if case.get("callform", "positional") != "positional" and isinstance(exc, TypeError):
            # this call form is refused by Python's argument binding: nothing was combined (whether it *should* be
            # refused is pinned by the `c01 callform` correspondence line)
            R.oracle(True, f"callform-refused:{name}", cdesc, "", sig="callform-refused", trivial=True)
            return
        if differ:
            ok = exc is not None and isinstance(exc, ValueError)
            what = (f"{name} on CRSs {labels} ({case['kind']}) " +
                    ("returned a result" if exc is None else f"raised {type(exc).__name__} instead of a CRS ValueError"))
            # every differing operand differs from the first only through the known lazy-EPSG equality defect?
            odd = [e for e in ents if e[1] != truths[0]]
            fuzzy = (ents[0][2] is not None and all(self.pool.fuzzy_code_match(ents[0], e) for e in odd))
            key = KNOWN_FUZZY if (not ok and fuzzy) else f"mixed-crs-accepted:{name}"
            if key == KNOWN_FUZZY:
                what = ("CRS.__eq__ trusts the EPSG code that PROJ's fuzzy to_epsg() cached in _epsg after `.epsg` was read: "
                        + what)
            R.oracle(ok, key, cdesc, what, sig=f"mismatch|{name.split('.')[0]}")
        else:
            if exc is not None:
                ok = bool(info.get("delegate_raises"))
                R.oracle(ok, f"equal-crs-rejected:{name}", cdesc,
                         f"{name} on equal CRSs {labels} ({case['kind']}) raised {type(exc).__name__}: {exc}",
                         sig=f"equal|{name.split('.')[0]}")
                return
            ok = info["res_ok"] is not False
            R.oracle(ok, f"result-differs-from-raw:{name}", cdesc,
                     f"{name} on equal CRSs {labels} ({case['kind']}) differs from the raw computation",
                     sig=f"equal|{name.split('.')[0]}")
            tag = info["tag"]
            if tag not in (None, "-", "?empty"):
                # "tagged with the operands' CRS": any spelling of it will do for the property (the exact choice —
                # the first operand's — is pinned by the correspondence with the model, not here)
                by_rec = {self.pool.rec(e[2]): e[1] for e in self.pool.wide + self.pool.spelled}
                R.oracle(by_rec.get(tag, "?") == truths[0], f"result-crs-tag:{name}", cdesc,
                         f"{name}: result CRS record {tag} does not denote the operands' CRS ({labels[0]})",
                         sig="tag", trivial=True)


def gen_strict(C: Ctx):
    R = C.R
    rng = R.rng
    pool = C.pool.entries
    small = C.pool.small
    kinds, partners = shapes()
    specs = C.specs
    from shapely import affinity

    pairs = list(itertools.product(pool, pool))
    triples = list(itertools.product(small if R.quick else pool[: 7], repeat=3))
    # --- geometry, binary
    for name, sp in specs.items():
        fam = name.split(".")[0]
        if sp["arity"] == "2" and (fam == "Geometry" or name == "geom.intersects"):
            for (ea, eb) in pairs:
                for k, shp in kinds.items():
                    others = {"same": affinity.translate(shp, 0.5, 0.25), **partners}
                    for pk, q in others.items():
                        C.add(name, [ea, eb], [shp, q], f"{k}/{pk}")
            # wrong operand counts are rejected before anything else
    # --- every strict operation x every ordered pair of the WIDE pool (CRSs without EPSG code, lossy spellings,
    #     both lazy states of `.epsg`), one representative operand pair per family
    wide = C.pool.wide
    gb0 = geoboxes()
    for name, sp in specs.items():
        fam = name.split(".")[0]
        if fam in ("Geometry",) or name in ("geom.intersects", "geom.unary_union", "geom.multigeom", "geom.common_crs",
                                             "geom.unary_intersection"):
            raws, kind = [kinds["polygon"], partners["P"]], "polygon/P"
        elif fam == "BoundingBox" or "bbox" in name:
            raws, kind = [(0.0, 0.0, 2.0, 2.0), (1.0, -1.0, 3.0, 1.5)], "bbox"
        else:
            raws, kind = [gb0["g0"], gb0["shift"]], "geobox:g0/shift"
        for ea, eb in itertools.product(wide, wide):
            C.add(name, [ea, eb], raws, kind)
    # --- the geometric RELATION of the raw coordinates, independent of the CRS tags: overlapping / touching / contained /
    #     disjoint-near / disjoint-far (metres against degrees), both operand orders, every binary geometry operation
    rel = relations()
    relkinds = ("polygon", "line", "collection") if R.quick else ("polygon", "line", "collection", "multipolygon", "polygon+hole", "ring")
    for name, sp in specs.items():
        fam = name.split(".")[0]
        if sp["arity"] == "2" and (fam == "Geometry" or name == "geom.intersects"):
            for (ea, eb) in pairs:
                for k in relkinds:
                    for rk, q in rel.items():
                        C.add(name, [ea, eb], [kinds[k], q], f"{k}/{rk}")
                        if rk.startswith(("far", "near")):
                            C.add(name, [ea, eb], [q, kinds[k]], f"{rk}/{k}")
    # --- the spelling / type dimension: every strict operation between a CRS given in any spelling (foreign objects with a
    #     fuzzy to_epsg() included) and its anchors, both operand orders
    for name, sp in specs.items():
        fam = name.split(".")[0]
        if fam in ("Geometry",) or name in ("geom.intersects", "geom.unary_union", "geom.multigeom", "geom.common_crs",
                                             "geom.unary_intersection"):
            raws, kind = [kinds["polygon"], partners["P"]], "polygon/P"
        elif fam == "BoundingBox" or "bbox" in name:
            raws, kind = [(0.0, 0.0, 2.0, 2.0), (1.0, -1.0, 3.0, 1.5)], "bbox"
        else:
            raws, kind = [gb0["g0"], gb0["shift"]], "geobox:g0/shift"
        for e in C.pool.spelled:
            for a in C.pool.anchors_for(e):
                C.add(name, [e, a], raws, kind)
                C.add(name, [a, e], raws, kind)
    # --- every CALL FORM of every operation (keyword by the real parameter names, unbound all-keyword, operator) x every
    #     ordered pair of the base pool (+ the odd operand at every position for the stream operations)
    for name, sp in specs.items():
        fam = name.split(".")[0]
        if fam == "Geometry" or name.startswith("geom.") and "bbox" not in name:
            raws, kind = [kinds["polygon"], partners["P"], kinds["polygon+hole"]], "polys"
        elif fam == "BoundingBox" or "bbox" in name:
            raws, kind = [(0.0, 0.0, 2.0, 2.0), (1.0, -1.0, 3.0, 1.5), (0.5, 0.5, 1.0, 4.0)], "bbox"
        else:
            raws, kind = [gb0["g0"], gb0["shift"], gb0["far"]], "geobox:g0/shift/far"
        for cf in C.real.call_forms(name):
            if cf == "positional":
                continue
            for ea, eb in pairs:
                C.add(name, [ea, eb], raws[:2], kind if sp["arity"] == "n" or fam != "Geometry" else "polygon/P", callform=cf)
            if sp["arity"] == "n":
                for pos in range(3):
                    for base, odd in itertools.permutations(small, 2):
                        es = [base] * 3
                        es[pos] = odd
                        C.add(name, es, raws, kind, callform=cf)
    # --- EMPTY operands at every position of every operation
    from shapely import geometry as sg

    empties = {"empty-polygon": sg.Polygon(), "empty-line": sg.LineString(), "empty-collection": sg.GeometryCollection(),
               "empty-point": sg.Point()}
    for name, sp in specs.items():
        fam = name.split(".")[0]
        if sp["arity"] == "2" and (fam == "Geometry" or name == "geom.intersects"):
            for (ea, eb) in pairs:
                for ek, emp in empties.items():
                    C.add(name, [ea, eb], [emp, partners["P"]], f"{ek}/P")
                    C.add(name, [ea, eb], [kinds["polygon"], emp], f"polygon/{ek}")
                    C.add(name, [ea, eb], [emp, emp], f"{ek}/{ek}")
    # --- geometry, n-ary
    sets = {
        "polys": [kinds["polygon"], partners["P"], kinds["polygon+hole"]],
        "mixed": [kinds["line"], kinds["multipolygon"], kinds["collection"]],
        "points": [kinds["point"], partners["pt"], kinds["multipoint"]],
        "lines": [kinds["line"], partners["L"], kinds["ring"]],
        "empty@0": [sg.Polygon(), partners["P"], kinds["polygon"]],
        "empty@1": [kinds["polygon"], sg.GeometryCollection(), partners["P"]],
        "empty@2": [kinds["polygon"], partners["P"], sg.LineString()],
        "all-empty": [sg.Polygon(), sg.Polygon(), sg.Polygon()],
        "far@0": [rel["far-box"], kinds["polygon"], partners["P"]],
        "far@1": [kinds["polygon"], rel["far-line"], partners["P"]],
        "far@2": [kinds["polygon"], partners["P"], rel["far-box"]],
        "touch+near": [kinds["polygon"], rel["touch-box"], rel["near-box"]],
        "contained": [kinds["polygon+hole"], rel["contained-box"], rel["contained-line"]],
    }
    for name in ("geom.common_crs", "geom.multigeom", "geom.unary_union", "geom.unary_intersection"):
        C.add(name, [], [], "empty")
        for sk, ss in sets.items():
            for e in pool:
                C.add(name, [e], ss[:1], sk)
            for (ea, eb) in pairs:
                C.add(name, [ea, eb], ss[:2], sk)
            for tr in triples:
                C.add(name, list(tr), ss[:3], sk)
    # the odd operand at every position — in particular the LAST — of streams of length 2..5
    for name in ("geom.common_crs", "geom.multigeom", "geom.unary_union", "geom.unary_intersection"):
        for n in range(2, 6):
            for pos in range(n):
                for base, odd in itertools.permutations(small, 2):
                    es = [base] * n
                    es[pos] = odd
                    ss = [sets["polys"][i % 3] for i in range(n)]
                    C.add(name, es, ss, "polys")
    # --- bounding boxes (symbolic here; with the real arithmetic in gen_bbox)
    def rbox():
        x0, y0 = rng.randint(-64, 64) / 8, rng.randint(-64, 64) / 8
        u = rng.random()
        if u < 0.15:   # degenerate: no width and/or no height
            return (x0, y0, x0, y0 + rng.choice([0, 1]))
        if u < 0.25:   # inverted (what an empty intersection looks like)
            return (x0, y0, x0 - rng.randint(1, 16) / 8, y0 - rng.randint(0, 16) / 8)
        return (x0, y0, x0 + rng.randint(0, 64) / 8, y0 + rng.randint(0, 64) / 8)

    for name in ("geom.bbox_union", "geom.bbox_intersection"):
        C.add(name, [], [], "empty")
        for e in pool:
            C.add(name, [e], [rbox()], "bbox")
        for (ea, eb) in pairs:
            C.add(name, [ea, eb], [rbox(), rbox()], "bbox")
        for tr in triples:
            C.add(name, list(tr), [rbox(), rbox(), rbox()], "bbox")
        for _ in range(R.pick(200, 2000)):
            n = rng.randint(4, 6)
            es = [rng.choice(pool) for _ in range(n)]
            if rng.random() < 0.5:  # mostly-equal streams with one odd element somewhere
                base = rng.choice(pool)
                es = [base] * n
                es[rng.randrange(n)] = rng.choice(pool)
            C.add(name, es, [rbox() for _ in range(n)], "bbox-stream")
    for name in ("geom.bbox_union", "geom.bbox_intersection"):
        for n in range(2, 6):
            for pos in range(n):
                for base, odd in itertools.permutations(small, 2):
                    es = [base] * n
                    es[pos] = odd
                    C.add(name, es, [rbox() for _ in range(n)], "bbox-stream")
    nan, inf = float("nan"), float("inf")
    odd_boxes = {
        "nan": (nan, nan, nan, nan),              # bounding box of an empty geometry
        "nan-x": (nan, 0.0, nan, 1.0),
        "inf": (-inf, -inf, inf, inf),
        "inf-corner": (0.0, 0.0, inf, inf),
        "zero-area": (1.0, 1.0, 1.0, 1.0),
        "inverted": (2.0, 2.0, 1.0, 0.5),          # what a disjoint a & b looks like
        "far": (500000.0, 6000000.0, 500100.0, 6000100.0),
        "touching": (2.0, 0.0, 4.0, 2.0),
    }
    plain = [(0.0, 0.0, 2.0, 2.0), (1.0, -1.0, 3.0, 1.5), (0.5, 0.5, 1.0, 4.0)]
    for name in ("geom.bbox_union", "geom.bbox_intersection"):
        for ok_, ob in odd_boxes.items():
            for (ea, eb) in pairs:
                C.add(name, [ea, eb], [ob, plain[0]], f"bbox:{ok_}@0")
                C.add(name, [ea, eb], [plain[0], ob], f"bbox:{ok_}@1")
                C.add(name, [ea, eb], [ob, ob], f"bbox:{ok_}@both")
            for tr in triples:
                for pos in range(3):
                    raws = list(plain)
                    raws[pos] = ob
                    C.add(name, list(tr), raws, f"bbox:{ok_}@{pos}")
    for name in ("BoundingBox.__and__", "BoundingBox.__or__"):
        for ok_, ob in odd_boxes.items():
            for (ea, eb) in pairs:
                C.add(name, [ea, eb], [ob, plain[1]], f"bbox:{ok_}@0")
                C.add(name, [ea, eb], [plain[1], ob], f"bbox:{ok_}@1")
        for (ea, eb) in pairs:
            for _ in range(2):
                C.add(name, [ea, eb], [rbox(), rbox()], "bbox")
    # --- geoboxes
    gbs = geoboxes()
    gpairs = [("g0", "shift"), ("g0", "far"), ("shift", "g0"), ("g0", "g0"), ("g0", "half"), ("g0", "res"),
              ("g0", "empty-rows"), ("empty-rows", "g0"), ("empty-cols", "shift"), ("shift", "empty-cols"),
              ("empty-rows", "empty-cols"), ("empty-both", "g0"), ("g0", "empty-both"),
              ("g0", "metres-far"), ("metres-far", "g0"), ("g0", "far-aligned"), ("far-aligned", "g0")]
    for name, sp in specs.items():
        fam = name.split(".")[0]
        if fam in ("GeoBox", "geobox") and sp["arity"] == "2":
            for (ea, eb) in pairs:
                for (ka, kb) in gpairs:
                    C.add(name, [ea, eb], [gbs[ka], gbs[kb]], f"geobox:{ka}/{kb}")
    for name in ("geobox.geobox_union_conservative", "geobox.geobox_intersection_conservative"):
        C.add(name, [], [], "empty")
        for e in pool:
            C.add(name, [e], [gbs["g0"]], "geobox")
        for (ea, eb) in pairs:
            for (ka, kb) in gpairs:
                C.add(name, [ea, eb], [gbs[ka], gbs[kb]], f"geobox:{ka}/{kb}")
        for tr in triples:
            for ks in (("g0", "shift", "far"), ("g0", "half", "shift"), ("shift", "g0", "res"),
                       ("empty-rows", "g0", "shift"), ("g0", "empty-cols", "shift"), ("g0", "shift", "empty-both")):
                C.add(name, list(tr), [gbs[k] for k in ks], "geobox:" + "/".join(ks))
        for n in range(2, 6):
            for pos in range(n):
                for base, odd in itertools.permutations(small, 2):
                    es = [base] * n
                    es[pos] = odd
                    ks = [("g0", "shift", "far", "shift", "g0")[i] for i in range(n)]
                    C.add(name, es, [gbs[k] for k in ks], "geobox:" + "/".join(ks))
    gen_long_streams(C, sets, gbs)


LONG_QUICK = (8, 9, 33, 64, 65, 66, 129, 513)
LONG_THOROUGH = (8, 9, 16, 17, 31, 32, 33, 63, 64, 65, 66, 67, 127, 128, 129, 255, 256, 257, 511, 512, 513, 1023, 1024, 1025,
                 2049, 4097)
GBX_CYCLE = ("g0", "shift", "far", "shift", "g0")


def gen_long_streams(C: Ctx, sets, gbs):
    """the LENGTH axis of every n-ary / stream operation: operand lists of 8 … 4097 elements (around powers of two, where
    a chunked / vectorised / fast-path implementation would switch), all four collection forms (list, tuple, one-shot
    iterator, generator — `C.add` cycles them), the odd operand at the first / second / middle / last-but-one / last
    position (a CRS-less one, another CRS, the same CRS in another spelling) and no odd operand at all"""
    R = C.R
    rng = R.rng
    byl = C.pool.by_label
    e4326, e3857, enone, ewkt = byl["4326"], byl["3857"], byl["none"], byl["4326wkt2"]
    lengths = LONG_QUICK if R.quick else LONG_THOROUGH

    def rbox(i):
        x0 = (i % 97) / 8
        return (x0, -1.0 - (i % 5), x0 + 1.0 + (i % 3) / 4, 2.0 + (i % 7) / 2)

    ops = (("geom.bbox_union", "bbox-long", 10**9), ("geom.bbox_intersection", "bbox-long", 10**9),
           ("geom.common_crs", "polys-long", 10**9), ("geom.multigeom", "polys-long", 2049),
           ("geom.unary_union", "polys-long", 1025), ("geom.unary_intersection", "polys-long", 1025),
           ("geobox.geobox_union_conservative", "geobox-long", 513), ("geobox.geobox_intersection_conservative", "geobox-long", 513))
    for name, kind, cap in ops:
        for n in lengths:
            if n > (cap if not R.quick else min(cap, 513 if "bbox" in kind or name == "geom.common_crs" else 129)):
                continue
            if kind == "bbox-long":
                raws = [rbox(i) for i in range(n)]
            elif kind == "polys-long":
                raws = [sets["polys"][i % 3] for i in range(n)]
            else:
                raws = [gbs[GBX_CYCLE[i % 5]] for i in range(n)]
            positions = [None, 0, 1, n // 2, n - 2, n - 1]
            for pos in positions:
                base, odd = rng.choice([(e4326, e3857), (e3857, enone), (enone, e4326), (e4326, ewkt), (e3857, e4326)])
                es = [base] * n
                if pos is not None:
                    es[pos] = odd
                C.add(name, es, raws, kind)


def run_strict(C: Ctx):
    import sys

    R = C.R
    if sys.getrecursionlimit() < 20000:
        sys.setrecursionlimit(20000)   # the model's delegate expression of a fold over n operands is nested n deep
    lines = [c["line"] for c in C.cases]
    model = run_driver("C01", lines)
    for case, m in zip(C.cases, model):
        out, info = C.outcome(case, m)
        ents = case["ents"]
        truths = {e[1] for e in ents}
        sig = (f"{case['name']}|" + ("n=%d" % len(ents)) + "|" +
               ("none-one-side" if (None in truths and len(truths) > 1) else
                "differ" if len(truths) > 1 else
                "same-respelled" if len({e[0] for e in ents}) > 1 else "same") +
               ("|delegate-raises" if info.get("delegate_raises") else ""))
        R.corr(case["line"], lambda o=out: o, sig=sig)
        C.oracle(case, out, info)


def gen_bbox_exact(C: Ctx):
    """bbox folds with the real min/max arithmetic: exact stream (dyadic coordinates)"""
    R = C.R
    rng = R.rng
    pool = C.pool.entries
    gm = C.gmod

    def rbox():
        x0, y0 = rng.randint(-2**20, 2**20) / 2**rng.randint(0, 10), rng.randint(-64, 64) / 8
        return (x0, y0, x0 + rng.randint(0, 64) / 8, y0 + rng.randint(-8, 64) / 8)

    for _ in range(R.pick(600, 6000)):
        n = rng.randint(1, 5)
        base = rng.choice(pool)
        same = [e for e in pool if e[1] == base[1]]
        es = [rng.choice(same) for _ in range(n)]
        if rng.random() < 0.4:
            es[rng.randrange(n)] = rng.choice(pool)
        boxes = [rbox() for _ in range(n)]
        which = rng.choice(["union", "inter"])
        tags = ",".join(C.pool.rec(e[2]) for e in es)
        bs = ",".join(";".join(frac_s(v) for v in b) for b in boxes)
        line = f"c01 bbox {which} [{tags}] [{bs}]"

        def f():
            objs = [gm.BoundingBox(*b, crs=e[2]) for b, e in zip(boxes, es)]
            try:
                r = (gm.bbox_union if which == "union" else gm.bbox_intersection)(iter(objs))
            except Exception as e:  # pylint: disable=broad-except
                return err_str(e)
            return f"OK tag={C.pool.rec(r.crs)} " + " ".join(frac_s(v) for v in r.bbox)

        out = R.corr(line, f, sig=f"bbox-{which}|" + ("err" if len({e[1] for e in es}) > 1 else "ok"))
        if out.startswith("OK") and len({e[1] for e in es}) == 1:
            vals = [Fraction(v) for v in out.split(" ")[2:]]
            fr = [[Fraction(v) for v in b] for b in boxes]
            if which == "union":
                want = [min(b[0] for b in fr), min(b[1] for b in fr), max(b[2] for b in fr), max(b[3] for b in fr)]
            else:
                want = [max(b[0] for b in fr), max(b[1] for b in fr), min(b[2] for b in fr), min(b[3] for b in fr)]
            R.oracle(vals == want, f"bbox-{which}-value", {"line": line}, f"{vals} != {want}")


# --------------------------------------------------------------------------- crs equality itself
def check_crs_eq(C: Ctx):
    R = C.R
    import pickle

    R.oracle(C.pool.truth_is_equivalence, "pyproj-eq-is-equivalence", {"pool": "fresh pyproj objects"},
             "pyproj equality of the fresh reference objects is not an equivalence relation", trivial=True)
    ents = list(C.pool.wide)
    # further ways of arriving at "the same CRS": copy-construct (keeps the lazy slot), pickle round trip (resets it)
    extra = []
    for lab, tr, c, lazy in ents:
        if c is not None:
            extra.append((lab + "+copy", tr, C.CRS(c), lazy))
            extra.append((lab + "+pickle", tr, pickle.loads(pickle.dumps(c)), False))
    allents = ents + extra
    recs = [C.pool.rec(e[2]) for e in allents]
    for ea, ra in zip(allents, recs):
        la, ta, a, _ = ea
        for eb, rb in zip(allents, recs):
            lb, tb, b, _ = eb
            R.corr(f"c01 tageq {ra} {rb}", lambda a=a, b=b: bool_s(a == b),
                   sig="tageq|" + ("none" if (a is None or b is None) else "same-obj" if ra.split(":")[0] == rb.split(":")[0]
                                   else "epsg" if (ra.split(":")[1] != "0" and rb.split(":")[1] != "0") else "str/pyproj"))
            R.corr(f"c01 tagne {ra} {rb}", lambda a=a, b=b: bool_s(a != b), sig="tagne")
            # ground truth: exact pyproj equality of fresh reference objects built from the two definitions
            try:
                got = bool(a == b)
            except Exception:  # pylint: disable=broad-except
                got = None
            fuzzy = C.pool.fuzzy_code_match(ea, eb)
            state = ("both-read" if ea[3] and eb[3] else "one-read" if ea[3] or eb[3] else "unread")
            R.oracle(got == (ta == tb), KNOWN_FUZZY if (fuzzy and got is True) else "crs-eq-ground-truth",
                     {"a": la, "b": lb},
                     f"CRS[{la}] == CRS[{lb}] is {got}, pyproj says the definitions are "
                     f"{'the same' if ta == tb else 'different'} CRS" +
                     (" (CRS.__eq__ trusts the EPSG code that PROJ's fuzzy to_epsg() cached in _epsg after `.epsg` was read)"
                      if fuzzy else ""), sig=f"crs-eq|{state}")
            # well-formedness of the records (hypothesis WF of crsEq_iff_sameClass)
            if a is not None and b is not None:
                oa, xa, sa, ca = (int(x) for x in ra.split(":"))
                ob, xb, sb, cb = (int(x) for x in rb.split(":"))
                wf = ((oa != ob or ca == cb) and (sa != sb or ca == cb)
                      and (xa == 0 or xb == 0 or ((xa == xb) == (ca == cb))))
                R.oracle(wf, KNOWN_FUZZY if fuzzy else "crs-record-wellformed", {"a": la, "b": lb, "ra": ra, "rb": rb},
                         f"records {ra} / {rb} violate WF", trivial=True)
                peq = bool(a._crs == b._crs)  # pylint: disable=protected-access
                R.oracle(peq == (ca == cb), "pyproj-eq-is-equivalence", {"a": la, "b": lb}, "", trivial=True)
                R.oracle(peq == (ta == tb), "crs-wraps-another-definition", {"a": la, "b": lb},
                         f"the pyproj objects inside CRS[{la}] / CRS[{lb}] compare {peq}, fresh objects built from the "
                         f"definitions compare {ta == tb}", trivial=True)


# --------------------------------------------------------------------------- converting / equality operations
def check_conv_eq(C: Ctx):
    R = C.R
    gm, gb = C.gmod, C.gbmod
    from affine import Affine
    import pyproj

    pool = C.pool.regional
    A = Affine(0.5, 0, 1, 0, -0.5, 9)  # 16x16 pixels over lon 1..9, lat 1..9
    shape = (16, 16)
    lonlat = [(2.25, 2.25), (2.25, 5.5), (6.75, 5.5), (6.75, 2.25), (2.25, 2.25)]

    memo: Dict[Any, Any] = {}
    trs: Dict[int, Any] = {}

    def in_crs(crs, pts=None):
        """the same region expressed in `crs` (pixel-ish numbers when there is no CRS)"""
        pts = lonlat if pts is None else pts
        if crs is None:
            return pts
        k = (id(crs.proj), tuple(pts))
        if k not in memo:
            if id(crs.proj) not in trs:
                trs[id(crs.proj)] = pyproj.Transformer.from_crs("EPSG:4326", crs.proj, always_xy=True)
            memo[k] = [trs[id(crs.proj)].transform(x, y) for x, y in pts]
        return memo[k]

    def gbox_in(crs, n=8, pts=None):
        """a geobox over the same region, axis aligned in its own CRS"""
        pts = in_crs(crs, pts)
        xs, ys = [p[0] for p in pts], [p[1] for p in pts]
        x0, x1, y0, y1 = min(xs), max(xs), min(ys), max(ys)
        return gb.GeoBox((n, n), Affine((x1 - x0) / n, 0, x0, 0, -(y1 - y0) / n, y1), crs)

    outer = [(1, 1), (1, 9), (9, 9), (9, 1)]

    def canon(v):
        if isinstance(v, gm.Geometry):
            return ("G", v.geom.wkb)
        if isinstance(v, gb.GeoBox):
            return ("GB", tuple(v.shape), tuple(v.affine)[:6])
        if isinstance(v, gm.BoundingBox):
            return ("BB", tuple(v.bbox))
        if isinstance(v, dict):
            return ("D", tuple(sorted((k, tuple(x)) for k, x in v.items())))
        if isinstance(v, tuple) and len(v) == 2 and isinstance(v[0], range):
            return ("RR", tuple(v[0]), tuple(v[1]))
        return ("V", repr(v))

    def tag_of(v):
        if isinstance(v, (gm.Geometry, gb.GeoBox, gm.BoundingBox)):
            return C.pool.rec(v.crs)
        return "-"

    ops = {
        "GeoBox.project": (lambda g, o: g.project(o), ("geom",)),
        "GeoBox.enclosing": (lambda g, o: g.enclosing(o), ("geom", "bbox")),
        "GeoBox.compute_crop": (lambda g, o: g.compute_crop(o), ("geom", "bbox", "gbox")),
        "GeoBox.__getitem__": (lambda g, o: g[o], ("geom", "bbox", "gbox")),
        "GeoboxTiles.range_from_bbox": (lambda g, o: gb.GeoboxTiles(g, (4, 4)).range_from_bbox(o), ("bbox",)),
        "GeoboxTiles.tiles": (lambda g, o: sorted(gb.GeoboxTiles(g, (4, 4)).tiles(o)), ("geom", "bbox")),
        "GeoboxTiles.grid_intersect": (
            lambda g, o: gb.GeoboxTiles(g, (4, 4)).grid_intersect(gb.GeoboxTiles(o, (4, 4))), ("gbox",)),
    }
    model_names = run_driver("C01", ["c01 convops"])[0].split(",")
    for name in model_names:
        if name not in ops:
            raise KeyError(f"no adapter for converting operation {name}")
    # the same operations called by keyword (parameter names from inspect.signature)
    import inspect

    def kw_variant(name):
        cls, m = name.split(".", 1)
        klass = gb.GeoBox if cls == "GeoBox" else gb.GeoboxTiles
        pname = [q.name for q in inspect.signature(getattr(klass, m)).parameters.values()][1]

        def f(g, o):
            tgt = g if cls == "GeoBox" else gb.GeoboxTiles(g, (4, 4))
            arg = gb.GeoboxTiles(o, (4, 4)) if m == "grid_intersect" else o
            out = getattr(tgt, m)(**{pname: arg})
            return sorted(out) if m == "tiles" else out

        return f

    ops_kw = {name: (kw_variant(name), okinds) for name, (_f, okinds) in ops.items()}

    def run_table(table, pl, form):
        for name, (fn, okinds) in table.items():
            for es, eo in itertools.product(pl, pl):
                for ok in okinds:
                    gbox = gb.GeoBox(shape, A, None) if es[2] is None else gbox_in(es[2], 16, outer)
                    pts = in_crs(eo[2])
                    if ok == "geom":
                        other = gm.polygon(pts, eo[2])
                    elif ok == "bbox":
                        other = gm.polygon(pts, eo[2]).boundingbox
                    else:
                        other = gbox_in(eo[2])
                    is_bbox = ok == "bbox"
                    line = f"c01 conv {name} {bool_s(is_bbox)} {C.pool.rec(es[2])} {C.pool.rec(eo[2])}"
                    info: Dict[str, Any] = {}

                    def f():
                        try:
                            with warnings.catch_warnings():
                                warnings.simplefilter("ignore")
                                v = fn(gbox, other)
                        except Exception as e:  # pylint: disable=broad-except
                            info["exc"] = e
                            return err_str(e)
                        info["val"] = v
                        # which path produced it?  compare with the operand re-tagged / pre-converted by the harness
                        path = "?"
                        if eo[2] is None:
                            both_none_same = es[2] is None and (
                                (ok == "geom" and name == "GeoboxTiles.tiles") or name == "GeoboxTiles.grid_intersect")
                            path = "same" if both_none_same else "pixel"
                        else:
                            cands = []
                            try:
                                if ok == "gbox":
                                    same_o = gb.GeoBox(other.shape, other.affine, es[2])
                                elif ok == "bbox":
                                    same_o = gm.BoundingBox(*other.bbox, crs=es[2])
                                else:
                                    same_o = other.assign_crs(es[2])
                                with warnings.catch_warnings():
                                    warnings.simplefilter("ignore")
                                    cands.append(("same", canon(fn(gbox, same_o))))
                            except Exception:  # pylint: disable=broad-except
                                pass
                            same_truth = es[1] == eo[1]
                            if same_truth:
                                path = "same" if cands and cands[0][1] == canon(v) else "?same-differs"
                            else:
                                if ok != "gbox":
                                    poly = other if ok == "geom" else other.polygon
                                    try:
                                        with warnings.catch_warnings():
                                            warnings.simplefilter("ignore")
                                            conv = poly.to_crs(es[2], check_and_fix=(name == "GeoboxTiles.tiles"))
                                            if name == "GeoboxTiles.range_from_bbox":
                                                conv = conv.boundingbox
                                            want = canon(fn(gbox, conv))
                                        path = "converted" if want == canon(v) else "?converted-differs"
                                    except Exception:  # pylint: disable=broad-except
                                        path = "?conversion-failed"
                                elif name == "GeoboxTiles.grid_intersect":
                                    # goes through both footprints in EPSG:4326; only the verdict is compared
                                    path = "converted"
                                else:
                                    try:
                                        with warnings.catch_warnings():
                                            warnings.simplefilter("ignore")
                                            want = canon(fn(gbox, other.extent.to_crs(es[2])))
                                        path = "converted" if want == canon(v) else "?converted-differs"
                                    except Exception:  # pylint: disable=broad-except
                                        path = "?conversion-failed"
                        return f"OK path={path} tag={tag_of(v)}"

                    out = R.corr(line, f, sig=f"conv|{name}|{form}|" + (
                        "none-self" if es[2] is None and eo[2] is not None else "none-other" if eo[2] is None else
                        "same" if es[1] == eo[1] else "differ"))
                    # oracle: two *known* different CRSs are never combined as they are; a CRS-less grid cannot
                    # take geo-referenced input
                    if es[2] is not None and eo[2] is not None and es[1] != eo[1]:
                        R.oracle(out.startswith("ERR") or "path=converted" in out, f"conv-mixed:{name}",
                                 {"line": line, "operand": ok, "callform": form}, f"{name}: operand in another CRS was not converted: {out}")
                    if es[2] is None and eo[2] is not None:
                        R.oracle(out.startswith("ERR"), f"conv-crsless-grid:{name}", {"line": line, "operand": ok, "callform": form},
                                 f"{name}: grid without CRS accepted a geo-referenced operand: {out}")
                    if es[2] is not None and eo[2] is not None and es[1] == eo[1]:
                        R.oracle("path=same" in out, f"conv-equal-crs:{name}", {"line": line, "operand": ok, "callform": form},
                                 f"{name}: equal CRSs (maybe respelled) not treated as equal: {out}")

    run_table(ops, pool, "positional")
    run_table(ops_kw, C.pool.entries, "keyword")

    # equality tests
    kinds, _ = shapes()
    eqops = run_driver("C01", ["c01 eqops"])[0].split(",")
    mk = {
        "Geometry.__eq__": lambda crs, v: gm.Geometry(kinds["polygon"] if v else kinds["line"], crs),
        "BoundingBox.__eq__": lambda crs, v: gm.BoundingBox(0, 0, 1, 1 if v else 2, crs),
        "GeoBox.__eq__": lambda crs, v: gb.GeoBox((4, 4) if v else (4, 5), A, crs),
        "GeoboxTiles.__eq__": lambda crs, v: gb.GeoboxTiles(gb.GeoBox((4, 4), A, crs), (2, 2) if v else (4, 4)),
    }
    for name in eqops:
        if name not in mk:
            raise KeyError(f"no adapter for equality operation {name}")
        for ea, eb in itertools.product(pool, pool):
            for raw_eq in (True, False):
                a, b = mk[name](ea[2], True), mk[name](eb[2], raw_eq)
                line = f"c01 eq {C.pool.rec(ea[2])} {C.pool.rec(eb[2])} {bool_s(raw_eq)}"
                cls = type(a)
                pname = [q.name for q in inspect.signature(cls.__eq__).parameters.values()][1]
                forms = {"operator": lambda a=a, b=b: a == b, "method": lambda a=a, b=b: a.__eq__(b),
                         "keyword": lambda a=a, b=b: a.__eq__(**{pname: b}),
                         "reflected": lambda a=a, b=b: b == a}
                for fname, ff in forms.items():
                    if fname != "operator" and ea not in C.pool.entries:
                        continue
                    ln = line if fname != "reflected" else f"c01 eq {C.pool.rec(eb[2])} {C.pool.rec(ea[2])} {bool_s(raw_eq)}"
                    out = R.corr(ln, lambda ff=ff: bool_s(bool(ff())), sig=f"eq|{name}|{fname}")
                    if ea[1] != eb[1]:
                        R.oracle(out == "F", f"eq-ignores-crs:{name}", {"line": ln, "op": name, "callform": fname},
                                 f"{name} ({fname} form): objects in different CRSs compare equal")


# --------------------------------------------------------------------------- CRS spelling / type dimension
def check_spellings(C: Ctx):
    import pyproj
    from affine import Affine

    from .c01_spellings import conflicting_duck

    R = C.R
    gm, gb = C.gmod, C.gbmod
    pool = C.pool
    kinds, _ = shapes()
    shp = kinds["polygon"]
    # (1) construction: the wrapped pyproj object is exactly the independent identity of the specification
    for lab, (mk, ident, dlab, near, err) in pool.spec_of.items():
        case = {"spec": lab, "near_code": near}
        if err is not None:
            R.oracle(False, "crs-spelling-rejected", case, f"CRS({lab}) raised {err!r}")
            continue
        c = pool.by_label[lab][2]
        R.oracle(c.proj == ident, "crs-spelling-identity:CRS", case,
                 f"CRS(<{lab}>) is {str(c)[:60]!r}, not the CRS that pyproj reads from the specification itself "
                 f"(its own text / to_wkt()); fuzzy to_epsg() of that system: {near}", sig="identity|" + lab.split("@")[1])
        # (2) every place that takes a CRS
        entry = {
            "Geometry": lambda s: gm.Geometry(shp, s).crs,
            "BoundingBox": lambda s: gm.BoundingBox(0, 0, 1, 1, crs=s).crs,
            "GeoBox": lambda s: gb.GeoBox((4, 4), Affine(1, 0, 0, 0, -1, 4), s).crs,
            "assign_crs": lambda s: gm.Geometry(shp, "EPSG:3857").assign_crs(s).crs,
            "geom.point": lambda s: gm.point(0, 0, s).crs,
            "geom.box": lambda s: gm.box(0, 0, 1, 1, s).crs,
            "norm_crs": lambda s: __import__("odc.geo.crs", fromlist=["norm_crs"]).norm_crs(s),
        }
        for en, f in entry.items():
            try:
                with warnings.catch_warnings():
                    warnings.simplefilter("ignore")
                    got = f(mk())
                ok = got is not None and got.proj == ident
                what = f"{en}(crs=<{lab}>) carries {str(got)[:60]!r}, pyproj reads another CRS from the specification"
            except Exception as e:  # pylint: disable=broad-except
                ok, what = False, f"{en}(crs=<{lab}>) raised {e!r}"
            R.oracle(ok, f"crs-spelling-identity:{en}", {**case, "entry": en}, what, sig=f"entry|{en}")
    # (3) which attribute of a foreign object decides: three attributes naming three different CRSs
    for w, e, st in itertools.product((True, False), repeat=3):
        for hashable in (True, False):
            def f(w=w, e=e, st=st, hashable=hashable):
                d, cands = conflicting_duck(w, e, st, hashable)
                try:
                    c = C.CRS(d)
                except Exception as ex:  # pylint: disable=broad-except
                    return "ERR:" + type(ex).__name__
                hit = [k for k, p in cands.items() if c.proj == p]
                return hit[0] if len(hit) == 1 else "?" + ",".join(hit)

            R.corr(f"c01 foreign {bool_s(w)} {bool_s(e)} {bool_s(st)}", f, sig="foreign|" + ("hashable" if hashable else "unhashable"))
    # (4) cache poisoning: after all those objects have been seen, plain texts / codes still mean what they say
    for lab, (mk, ident, dlab, near, err) in pool.spec_of.items():
        spec = mk()
        if isinstance(spec, (str, int)) and err is None:
            try:
                c = C.CRS(spec)
                want = pyproj.CRS.from_epsg(spec) if isinstance(spec, int) else pyproj.CRS.from_user_input(spec)
                ok = c.proj == want
            except Exception as ex:  # pylint: disable=broad-except
                ok = False
                c = repr(ex)
            R.oracle(ok, "crs-cache-poisoned", {"spec": lab, "text": str(spec)[:200]},
                     f"after foreign CRS objects of the same system were used, CRS(<{lab}>) resolves to {str(c)[:60]!r}",
                     sig="poison")
    # (5) equality against the anchors, ground truth = exact pyproj equality of the independent identities
    for e in pool.spelled:
        for a in pool.anchors_for(e):
            for x, y in ((e, a), (a, e)):
                rx, ry = pool.rec(x[2]), pool.rec(y[2])
                R.corr(f"c01 tageq {rx} {ry}", lambda x=x, y=y: bool_s(x[2] == y[2]), sig="tageq|spelled")
                try:
                    got = bool(x[2] == y[2])
                except Exception:  # pylint: disable=broad-except
                    got = None
                R.oracle(got == (x[1] == y[1]), "crs-eq-ground-truth", {"a": x[0], "b": y[0]},
                         f"CRS[{x[0]}] == CRS[{y[0]}] is {got}, pyproj says the specifications are "
                         f"{'the same' if x[1] == y[1] else 'different'} CRS", sig="crs-eq|spelled")


# --------------------------------------------------------------------------- structural probe: check before use
def check_access_order(C: Ctx):
    """Operands that log every read of their CRS and of their raw coordinates: for each operand after the first, is the
    CRS looked at before the coordinates are (`C`), or the coordinates first and the CRS in the same pass (`R`, the stream
    folds)?  `!` = coordinates used (or operand skipped) without its CRS ever being read.  The model's program text
    (`c01 prog`, `Prog.safe`) predicts the pattern; plain, far-away, empty and NaN operands at every position."""
    R = C.R
    gm, gb = C.gmod, C.gbmod
    from shapely import geometry as sg

    log: List[Tuple[str, int]] = []

    class LGeom(gm.Geometry):
        def __init__(self, shp, crs, idx):
            object.__setattr__(self, "_i", idx)
            super().__init__(shp, crs)

        crs = property(lambda s: (log.append(("c", s._i)), s._c)[1], lambda s, v: object.__setattr__(s, "_c", v))
        geom = property(lambda s: (log.append(("r", s._i)), s._g)[1], lambda s, v: object.__setattr__(s, "_g", v))

    class LBox(gm.BoundingBox):
        def __init__(self, box, crs, idx):
            super().__init__(*box, crs=crs)
            self._i = idx

        crs = property(lambda s: (log.append(("c", s._i)), s._crs)[1])
        bbox = property(lambda s: (log.append(("r", s._i)), s._box)[1])

        def __iter__(self):
            log.append(("r", self._i))
            return iter(self._box)

        def __getitem__(self, k):
            log.append(("r", self._i))
            return self._box[k]

    for _n in ("left", "right", "top", "bottom"):
        setattr(LBox, _n, property(lambda s, _k={"left": 0, "bottom": 1, "right": 2, "top": 3}[_n]: (log.append(("r", s._i)), s._box[_k])[1]))

    class LGeoBox(gb.GeoBox):
        def __init__(self, shape, aff, crs, idx):
            super().__init__(shape, aff, crs)
            self._i = idx

        crs = property(lambda s: (log.append(("c", s._i)), s._crs)[1])
        affine = property(lambda s: (log.append(("r", s._i)), s._affine)[1])
        transform = property(lambda s: (log.append(("r", s._i)), s._affine)[1])
        shape = property(lambda s: (log.append(("r", s._i)), s._shape)[1])

    kinds, partners = shapes()
    rel = relations()
    gbs = geoboxes()
    nan = float("nan")
    crs = C.pool.by_label["4326"][2]
    crs2 = C.pool.by_label["4326wkt2"][2]
    geom_sets = {"plain": [kinds["polygon"], partners["P"], kinds["polygon+hole"]],
                 "far@1": [kinds["polygon"], rel["far-line"], partners["P"]],
                 "near-line@1": [kinds["polygon"], rel["near-line"], partners["P"]],
                 "line/far-multiline": [kinds["line"], rel["far-multiline"], partners["L"]],
                 "empty@1": [kinds["polygon"], sg.Polygon(), partners["P"]],
                 "far@2": [kinds["polygon"], partners["P"], rel["far-box"]]}
    box_sets = {"plain": [(0.0, 0.0, 2.0, 2.0), (1.0, -1.0, 3.0, 1.5), (0.5, 0.5, 1.0, 4.0)],
                "nan@1": [(0.0, 0.0, 2.0, 2.0), (nan, nan, nan, nan), (0.5, 0.5, 1.0, 4.0)],
                "nan@2": [(0.0, 0.0, 2.0, 2.0), (1.0, -1.0, 3.0, 1.5), (nan, nan, nan, nan)],
                "inverted@1": [(0.0, 0.0, 2.0, 2.0), (2.0, 2.0, 1.0, 0.5), (0.5, 0.5, 1.0, 4.0)],
                "far@1": [(0.0, 0.0, 2.0, 2.0), (5e5, 6e6, 5.1e5, 6.1e6), (0.5, 0.5, 1.0, 4.0)]}
    gbox_sets = {"plain": ["g0", "shift", "far"], "empty@1": ["g0", "empty-rows", "shift"], "empty@2": ["g0", "shift", "empty-both"],
                 "far-aligned@1": ["g0", "far-aligned", "shift"]}
    for name, sp in C.specs.items():
        fam = name.split(".")[0]
        n = 2 if sp["arity"] == "2" else 3
        if fam == "Geometry" or (fam == "geom" and "bbox" not in name):
            sets = {k: [LGeom(shp, crs if i != 1 else crs2, i) for i, shp in enumerate(v[:n])] for k, v in geom_sets.items()}
        elif fam == "BoundingBox" or "bbox" in name:
            sets = {k: [LBox(b, crs if i != 1 else crs2, i) for i, b in enumerate(v[:n])] for k, v in box_sets.items()}
        else:
            sets = {k: [LGeoBox(gbs[g][0], gbs[g][1], crs if i != 1 else crs2, i) for i, g in enumerate(v[:n])]
                    for k, v in gbox_sets.items()}
        for sk, objs in sets.items():
            del log[:]
            try:
                with warnings.catch_warnings():
                    warnings.simplefilter("ignore")
                    C.real.call(name, objs)
            except Exception:  # pylint: disable=broad-except
                continue  # the delegate refused these shapes: no complete pass to look at
            ev = list(log)
            pat = ""
            for j in range(1, n):
                ci = next((k for k, e in enumerate(ev) if e == ("c", j)), None)
                ri = next((k for k, e in enumerate(ev) if e == ("r", j)), None)
                pat += "!" if ci is None else ("C" if (ri is None or ci < ri) else "R")
            out = R.corr(f"c01 access {name} {n}", lambda pat=pat: pat, sig=f"access|{sk}")
            R.oracle("!" not in pat, f"operand-crs-never-read:{name}",
                     {"op": name, "operands": sk, "events": ["%s%d" % e for e in ev][:40]},
                     f"{name} ({sk} operands): operand(s) {[j for j in range(1, n) if pat[j - 1] == '!']} took part without their "
                     f"CRS ever being read (access order {' '.join('%s%d' % e for e in ev)[:200]})", sig="access|unchecked")


def check_norm_crs(C: Ctx):
    from odc.geo.crs import norm_crs, norm_crs_or_error
    from odc.geo.types import Unset

    R = C.R
    gm = C.gmod
    ctx = gm.point(15.0, 47.0, "EPSG:4326")
    c = C.pool.by_label["3857"][2]
    from .c01_spellings import Duck

    inputs = [("none", None, None), ("unset", Unset(), None), ("odc", c, None), ("odc", c, ctx),
              ("utm+ctx", "utm", ctx), ("utm+ctx", "UTM-N", ctx), ("utm+ctx", "utm-s", ctx), ("utm", "utm", None), ("utm", "Utm-S", None),
              ("spec", "EPSG:4326", None), ("spec", 32633, ctx), ("spec", {"proj": "utm", "zone": 33, "datum": "WGS84"}, None),
              ("spec", Duck(wkt=c.to_wkt()), None), ("badspec", "not a crs at all", None), ("badspec", object(), None),
              ("badspec", Duck(epsg=4326, string="EPSG:4326"), None), ("badspec", 3.5, None)]
    for kind, spec, cx in inputs:
        for orerr, fn in ((False, norm_crs), (True, norm_crs_or_error)):
            def f(spec=spec, cx=cx, fn=fn):
                try:
                    with warnings.catch_warnings():
                        warnings.simplefilter("ignore")
                        out = fn(spec, cx) if cx is not None else fn(spec)
                except Exception as e:  # pylint: disable=broad-except
                    return "ERR:CRSError" if type(e).__name__ == "CRSError" else err_str(e)
                if out is None:
                    return "None"
                if out is spec:
                    return "same"
                if isinstance(spec, str) and spec.lower().startswith("utm"):
                    ok = out.proj.utm_zone is not None and (not spec.lower().endswith("-s") or out.proj.utm_zone.endswith("S")) \
                        and (not spec.lower().endswith("-n") or out.proj.utm_zone.endswith("N"))
                    return "utm" if ok else "utm?wrong-zone"
                return "constructed"

            R.corr(f"c01 normcrs {kind} {bool_s(orerr)}", f, sig=f"normcrs|{kind}")


# --------------------------------------------------------------------------- numeric options in every numeric spelling
def check_numeric_spellings(C: Ctx):
    """`tol` of overlap_roi / bounding_box_in_pixel_domain: a numpy scalar, 0-d array, int, Fraction or Decimal must
    behave exactly like the equal python float — with equal CRSs (same ROI / same refusal) and with different CRSs
    (still the CRS ValueError)."""
    from decimal import Decimal

    import numpy as np
    from affine import Affine

    R = C.R
    gb = C.gbmod
    ents = C.pool.entries
    A0 = Affine(0.25, 0, 0, 0, -0.25, 2)
    off = 3 + 2.0 ** -22  # pixels: not on the grid by 2^-22 of a pixel
    A1 = A0 * Affine.translation(off, 1)
    values = {2.0 ** -20: "above-offset", 2.0 ** -24: "below-offset", 0.0: "zero"}
    for v, vk in values.items():
        spell = {"float": float(v), "np.float64": np.float64(v), "np.float32": np.float32(v), "0-d array": np.array(v),
                 "Fraction": Fraction(v), "Decimal": Decimal(v)}
        if v == 0:
            spell.update({"int": 0, "np.int32": np.int32(0), "np.int64": np.int64(0), "bool": False})
        for ea, eb in itertools.product(ents[:4], ents[:4]):
            a, b = gb.GeoBox((8, 8), A0, ea[2]), gb.GeoBox((6, 7), A1, eb[2])
            for opname, fn in (("GeoBox.overlap_roi", lambda t, a=a, b=b: a.overlap_roi(b, t)),
                               ("GeoBox.overlap_roi[kw]", lambda t, a=a, b=b: a.overlap_roi(b, tol=t)),
                               ("geobox.bounding_box_in_pixel_domain",
                                lambda t, a=a, b=b: gb.bounding_box_in_pixel_domain(b, a, t))):
                def outcome(t):
                    try:
                        with warnings.catch_warnings():
                            warnings.simplefilter("ignore")
                            return repr(fn(t))
                    except Exception as e:  # pylint: disable=broad-except
                        return err_str(e)

                want = outcome(spell["float"])
                for sk, sv in spell.items():
                    got = outcome(sv)
                    exotic = sk in ("0-d array", "Fraction", "Decimal")
                    ok = got == want or (exotic and got == "ERR:TypeError")
                    R.oracle(ok, f"numeric-spelling:{opname.split('[')[0]}",
                             {"op": opname, "tol": repr(sv), "spelling": sk, "tags": [ea[0], eb[0]]},
                             f"{opname} with tol={sv!r} ({sk}) gives {got}, with the equal python float {want}",
                             sig=f"spelling|{sk}|{vk}")
                if ea[1] != eb[1]:
                    R.oracle(want in ("ERR:ValueError", "ERR:CRSMismatch"), f"mixed-crs-accepted:{opname.split('[')[0]}",
                             {"op": opname, "tags": [ea[0], eb[0]], "tol": v}, f"{opname} with tol={v}: {want}")


# --------------------------------------------------------------------------- discovery
def check_discovery(C: Ctx) -> Dict[str, Any]:
    from .c01_discover import discover

    found = discover()
    # the operation table is NOT compared structurally with what introspection finds (a new public helper, a changed
    # annotation or signature is not a violation): a difference is recorded in the evidence and only triggers the
    # behavioural probe of `run()` (operands in different CRSs through the undeclared operation)
    known = set(run_driver("C01", ["c01 allops"])[0].split(","))
    extra, missing = sorted(set(found) - known), sorted(known - set(found))
    if extra:
        C.R.notes.append("operations found by introspection that the model's table does not list (probed behaviourally): " + ", ".join(extra))
    if missing:
        C.R.notes.append("operations of the model's table that introspection did not classify as combining (still exercised by name): "
                         + ", ".join(missing))
    C.R.count("discovered-ops", len(found))
    C.R.count("discovered-ops-undeclared", len(extra))
    return found


def probe_undeclared(C: Ctx, name: str) -> Optional[Dict[str, Any]]:
    """An operation the model does not know: call it with operands in different CRSs."""
    gm, gb = C.gmod, C.gbmod
    from affine import Affine

    kinds, partners = shapes()
    cls, m = name.split(".", 1)
    owner = {"Geometry": gm.Geometry, "BoundingBox": gm.BoundingBox, "GeoBox": gb.GeoBox,
             "GeoboxTiles": gb.GeoboxTiles, "geom": gm, "geobox": gb}[cls]
    fn = getattr(owner, m)

    def mk(crs, i):
        from shapely import affinity

        return {
            "Geometry": gm.Geometry(kinds["polygon"] if i == 0 else partners["P"] if i == 1 else affinity.translate(kinds["polygon"], 0.125 * i, 0.25), crs),
            "BoundingBox": gm.BoundingBox(0, 0, 2 + i, 2, crs),
            "GeoBox": gb.GeoBox((8, 8), Affine(0.25, 0, 0.25 * i, 0, -0.25, 2), crs),
        }

    for ta, tb in (("EPSG:4326", "EPSG:3857"), ("EPSG:4326", None), (None, "EPSG:3857")):
        for ka in ("Geometry", "BoundingBox", "GeoBox"):
            for kb in ("Geometry", "BoundingBox", "GeoBox"):
                a, b = mk(ta, 0)[ka], mk(tb, 1)[kb]
                for args in ((a, b), ([a, b],)):
                    try:
                        with warnings.catch_warnings():
                            warnings.simplefilter("ignore")
                            out = fn(*args)
                            if hasattr(out, "__next__"):
                                out = list(out)
                    except Exception:  # pylint: disable=broad-except
                        continue
                    if isinstance(out, bool) and not out:
                        continue  # an equality-like answer "different" is fine
                    # is it a COMBINING operation at all?  The answer must depend on the coordinates of both operands;
                    # a helper that formats / inspects / compares its arguments does not mix reference systems
                    def canon(v):
                        if isinstance(v, (gm.Geometry, gm.BoundingBox)):
                            return repr(v)
                        if isinstance(v, gb.GeoBox):
                            return (v.shape, tuple(v.affine)[:6], str(v.crs))
                        if isinstance(v, (list, tuple)):
                            return [canon(x) for x in v]
                        return repr(v)

                    depends = []
                    for which in (0, 1):
                        a2, b2 = (mk(ta, 5)[ka], b) if which == 0 else (a, mk(tb, 7)[kb])
                        try:
                            with warnings.catch_warnings():
                                warnings.simplefilter("ignore")
                                o2 = fn(*((a2, b2) if len(args) == 2 else ([a2, b2],)))
                                if hasattr(o2, "__next__"):
                                    o2 = list(o2)
                            depends.append(canon(o2) != canon(out))
                        except Exception:  # pylint: disable=broad-except
                            depends.append(True)
                    if not all(depends):
                        C.R.notes.append(f"undeclared operation {name} accepts operands in different CRSs but its result does not "
                                         "depend on the coordinates of both: not a combining operation")
                        continue
                    return {"key": f"mixed-crs-accepted:{name}",
                            "case": {"op": name, "tags": [ta, tb], "kinds": [ka, kb], "undeclared": True},
                            "what": f"undeclared operation {name} returned {type(out).__name__} for operands in "
                                    f"CRS {ta} and {tb}"}
    return None


def run(R: Run):
    C = Ctx(R)
    C.specs = parse_specs(run_driver("C01", ["c01 ops"])[0])
    found = check_discovery(C)
    known = set(run_driver("C01", ["c01 allops"])[0].split(","))
    undeclared = sorted(set(found) - known)
    for name in undeclared:
        hit = probe_undeclared(C, name)
        if hit:
            R.oracle(False, hit["key"], hit["case"], hit["what"])
    check_crs_eq(C)
    check_spellings(C)
    gen_strict(C)
    run_strict(C)
    gen_bbox_exact(C)
    check_conv_eq(C)
    check_numeric_spellings(C)
    check_access_order(C)
    check_norm_crs(C)
    from .c01_glue import run_glue

    run_glue(C)
    R.exhaustive = False
    R.extra["ops_in_table"] = len(C.specs)
    R.extra["ops_discovered"] = len(found)
    R.extra["crs_pool"] = [e[0] for e in C.pool.entries]
    R.extra["crs_pool_wide"] = [e[0] for e in C.pool.wide]
    R.assumptions.append("pyproj CRS equality is an equivalence relation and CRS records are well-formed (WF): "
                         "checked on the run's CRS pool (oracle keys crs-record-wellformed, pyproj-eq-is-equivalence)")
    R.assumptions.append("shapely and the pixel-grid arithmetic are parameters of the model; the real results are "
                         "compared with shapely on the raw shapes / the CRS-stripped operation")
    R.assumptions.append("GeoboxTiles.tiles / GeoBox.project / enclosing / crop / grid_intersect convert between CRSs or "
                         "read CRS-less operands as pixel coordinates by documented design; a CRS-less grid given a "
                         "geo-referenced operand fails with AssertionError (not ValueError)")


def replay(R: Run, rec) -> int:
    C = Ctx(R)
    case = rec.get("case") or {}
    key = rec.get("key", "")
    print("replay case:", case, "key:", key)
    if case.get("undeclared"):
        hit = probe_undeclared(C, case["op"])
        print("probe:", hit)
        return 1 if hit else 0
    if key in ("crs-eq-ground-truth", KNOWN_FUZZY, "crs-record-wellformed") and "a" in case and "b" in case and "op" not in case:
        pool = Pool(True)

        def get(lab):
            base = lab.replace("+copy", "").replace("+pickle", "")
            e = pool.by_label[base]
            return e

        ea, eb = get(case["a"]), get(case["b"])
        got = bool(ea[2] == eb[2])
        print(f"CRS[{ea[0]}] == CRS[{eb[0]}] -> {got}; pyproj on fresh objects of the two definitions: {ea[1] == eb[1]}; "
              f"_epsg slots: {ea[2]._epsg if ea[2] is not None else None} / {eb[2]._epsg if eb[2] is not None else None}")  # pylint: disable=protected-access
        return 0 if got == (ea[1] == eb[1]) else 1
    labels = case.get("tags")
    name = case.get("op")
    if not labels or not name or key.split(":")[0] not in (
            "mixed-crs-accepted", "equal-crs-rejected", "result-differs-from-raw", "result-crs-tag", KNOWN_FUZZY):
        print("nothing replayable on the real code for this record (model/proof side)")
        return 1 if rec.get("kind") == "no-failing-input-found" else 0
    C.pool = Pool(True)
    byl = C.pool.by_label
    ents = [byl[l] for l in labels]
    C.specs = parse_specs(run_driver("C01", ["c01 ops"])[0])
    # rebuild the operands of that kind
    kinds, partners = shapes()
    from shapely import affinity

    kind = case.get("kind", "")
    gbs = geoboxes()
    if case.get("raws"):
        raws = [deser_raw(x) for x in case["raws"]]
    elif kind.startswith("geobox-long"):
        raws = [gbs[GBX_CYCLE[i % 5]] for i in range(len(ents))]
    elif kind.startswith("geobox:"):
        raws = [gbs[k] for k in kind.split(":", 1)[1].split("/")][: max(len(ents), 1)]
    elif kind == "geobox":
        raws = [gbs["g0"]]
    elif kind.startswith("bbox"):
        raws = [(0.0, 0.0, 1.0 + i, 2.0) for i in range(len(ents))]
    elif "/" in kind:
        k, pk = kind.split("/")
        raws = [kinds[k], affinity.translate(kinds[k], 0.5, 0.25) if pk == "same" else partners[pk]]
    else:
        sets = {"polys": [kinds["polygon"], partners["P"], kinds["polygon+hole"]],
                "mixed": [kinds["line"], kinds["multipolygon"], kinds["collection"]],
                "points": [kinds["point"], partners["pt"], kinds["multipoint"]],
                "lines": [kinds["line"], partners["L"], kinds["ring"]]}
        base = sets.get(kind, sets["polys"])
        raws = [base[i % 3] for i in range(len(ents))]
    C.cases = []
    C.add(name, ents, raws, kind.split("|")[0], callform=case.get("callform", "positional"))
    c = C.cases[0]
    model = run_driver("C01", [c["line"]])[0]
    out, info = C.outcome(c, model)
    print("line :", c["line"])
    print("model:", model)
    print("real :", out, "| raised:", repr(info["raised"]))
    truths = {e[1] for e in ents}
    if len(truths) > 1:
        return 0 if isinstance(info["raised"], ValueError) else 1
    return 0 if out == model else 1
