"""
C19 helper: the pyproj facts ("World") on the CRS spec alphabet, computed with pyproj
directly (never through odc-geo), and their encoding for the Lean driver.
"""
from __future__ import annotations

import json
import re
from typing import Any, Dict, List, Optional, Tuple

import pyproj

LIT = re.compile(r"^[A-Za-z0-9:+._-]{1,48}$")

EPSG_CODES = [4326, 3857, 3577, 32755, 28355, 4283, 3112, 32633, 2193, 3031, 4269, 7844]


_TO_EPSG: Dict[str, Optional[int]] = {}


def to_epsg_memo(p: pyproj.CRS) -> Optional[int]:
    """pyproj's to_epsg(): a function of the definition (identifying a code-less system searches the whole
    database, tens of milliseconds each), memoised per WKT text for the process"""
    k = p.to_wkt()
    if k not in _TO_EPSG:
        _TO_EPSG[k] = p.to_epsg()
    return _TO_EPSG[k]


class World:
    def __init__(self, codes: List[int]):
        self.codes = codes
        self.texts: Dict[str, str] = {}       # name -> text
        self.name_of: Dict[str, str] = {}     # text -> name
        self.dicts: Dict[str, dict] = {}      # name -> dict spec
        self.info: Dict[str, Optional[dict]] = {}   # name -> {sys, srs, wkt, epsg} or None (CRSError)
        self.einfo: Dict[int, Optional[dict]] = {}
        self.reps: List[pyproj.CRS] = []      # one representative pyproj object per system
        self.rep_text: List[str] = []
        self.lossless: Dict[int, List[Tuple[str, Any]]] = {}   # code -> specs that must all be equal
        self.wkt_names: set = set()           # names of texts that are the to_wkt() of some pyproj object
        self.lossy_names: set = set()
        self._build()

    # ---- naming
    def name(self, text: str) -> str:
        if text in self.name_of:
            return self.name_of[text]
        if LIT.match(text):
            n = text
        else:
            n = f"#{len(self.texts)}"
            assert not text.upper().startswith("EPSG:"), text[:30]
        assert n not in self.texts
        self.texts[n] = text
        self.name_of[text] = n
        return n

    def sys_of(self, p: pyproj.CRS, text: str) -> int:
        for i, r in enumerate(self.reps):
            if r == p:
                return i
        self.reps.append(p)
        self.rep_text.append(text)
        return len(self.reps) - 1

    def describe(self, p: pyproj.CRS, text_for_rep: str) -> dict:
        srs = self.name(p.srs)
        wkt = self.name(p.to_wkt())
        self.wkt_names.add(wkt)
        return {"sys": self.sys_of(p, text_for_rep), "srs": srs, "wkt": wkt, "epsg": to_epsg_memo(p)}

    def add_text(self, text: str) -> str:
        n = self.name(text)
        if n in self.info:
            return n
        self.info[n] = None  # placeholder against recursion
        try:
            p = pyproj.CRS.from_user_input(text)
        except Exception:  # pylint: disable=broad-except
            return n
        d = self.describe(p, text)
        self.info[n] = d
        # closure: the text a CRS pickles as must itself be parseable by the model
        self.add_text(self.texts[d["srs"]])
        return n

    def add_dict(self, d: dict) -> str:
        n = f"#d{len(self.dicts)}"
        self.dicts[n] = d
        p = pyproj.CRS.from_dict(d)
        self.info[n] = self.describe(p, p.srs)
        self.add_text(p.srs)
        return n

    def _build(self):
        for code in self.codes:
            p = pyproj.CRS.from_epsg(code)
            self.einfo[code] = self.describe(p, f"EPSG:{code}")
            self.add_text(p.srs)
            specs: List[Tuple[str, Any]] = [("int", code)]
            for s in (f"EPSG:{code}", f"epsg:{code}", f"EpSg:{code}", f"urn:ogc:def:crs:EPSG::{code}"):
                specs.append(("str", self.add_text(s)))
            wkt = p.to_wkt()
            specs.append(("str", self.add_text(wkt)))
            specs.append(("str", self.add_text(p.to_wkt(pretty=True))))
            js = p.to_json()
            specs.append(("str", self.add_text(js)))
            specs.append(("dict", self.add_dict(p.to_json_dict())))
            specs.append(("pyproj-epsg", code))
            specs.append(("pyproj-text", self.name(wkt)))
            specs.append(("pyproj-text", self.name(js)))
            self.lossless[code] = specs
        # lossy spellings (PROJ strings): not required to be equal to anything, but they are legal specs
        for code in self.codes[:4]:
            p4 = pyproj.CRS.from_epsg(code).to_proj4()
            for s in (p4, p4.replace(" +type=crs", "")):
                self.lossy_names.add(self.add_text(s))
                self.lossy_names.add(self.info[self.name(s)]["srs"])
        # spellings outside the ordinary pool: compound codes `EPSG:h+v` in both letter cases (odc-geo rejects them
        # today: whether a spec is accepted is part of the correspondence, and whatever is accepted has to obey
        # the laws), pyproj objects built from them, their WKT and URN forms, registered compound / 3-D /
        # geocentric codes, a bound CRS
        self.exotic: Dict[int, List[Tuple[str, Any]]] = {}
        for h, v in ((4326, 5773), (4326, 3855), (32633, 5773)):
            if h not in self.codes:
                continue
            ex = self.exotic.setdefault(h, [])
            for s in (f"EPSG:{h}+{v}", f"epsg:{h}+{v}", f"urn:ogc:def:crs,crs:EPSG::{h},crs:EPSG::{v}"):
                n = self.add_text(s)
                if self.info[n] is None:
                    continue
                ex += [("str", n), ("pyproj-text", n)]
                ex.append(("str", self.add_text(pyproj.CRS.from_user_input(s).to_wkt())))
        for h, extra in ((4326, (9707, 9518, 4979, 4978)), (32633, ())):
            if h not in self.codes:
                continue
            for c in extra:
                try:
                    p = pyproj.CRS.from_epsg(c)
                except Exception:  # pylint: disable=broad-except
                    continue
                self.einfo[c] = self.describe(p, f"EPSG:{c}")
                self.add_text(p.srs)
                self.exotic[h] += [("int", c), ("str", self.add_text(f"epsg:{c}")), ("pyproj-epsg", c)]
        if 4326 in self.codes:
            bound = "+proj=longlat +ellps=bessel +towgs84=598.1,73.7,418.2,0.202,0.045,-2.455,6.7 +no_defs +type=crs"
            n = self.add_text(bound)
            if self.info[n] is not None:
                self.exotic[4326] += [("str", n), ("pyproj-text", n)]
        # code-less systems: pairwise different, no EPSG code at any confidence (`.epsg` looks up None, the third
        # state of the lazy `_epsg` next to "not looked up" and "code")
        self.codeless: List[List[Tuple[str, Any]]] = []
        for s in ("+proj=tmerc +lat_0=10 +lon_0=20 +k=0.9996 +x_0=500000 +y_0=0 +ellps=GRS80 +units=m +no_defs +type=crs",
                  "+proj=laea +lat_0=-30 +lon_0=140 +x_0=0 +y_0=0 +ellps=GRS80 +units=m +no_defs +type=crs",
                  "+proj=sinu +lon_0=15 +x_0=0 +y_0=0 +R=6371007.181 +units=m +no_defs +type=crs",
                  "+proj=omerc +lat_0=4 +lonc=115 +alpha=53.3 +k=0.99984 +x_0=0 +y_0=0 +gamma=53.1 +ellps=evrstSS "
                  "+units=m +no_defs +type=crs",
                  "ESRI:54009", "ESRI:54008", "ESRI:54030", "ESRI:102001"):
            try:
                p = pyproj.CRS.from_user_input(s)
            except Exception:  # pylint: disable=broad-except
                continue
            if p.to_epsg() is not None or p.to_epsg(min_confidence=20) is not None and not s.startswith("+proj=omerc"):
                continue
            n = self.add_text(s)
            w = self.add_text(p.to_wkt())
            if self.info[w]["epsg"] is not None or self.info[n]["epsg"] is not None:
                continue
            self.codeless.append([("str", n), ("str", w), ("pyproj-text", n), ("str", self.add_text(p.to_json()))])
        # authority:code spellings OTHER than EPSG, in several letter cases and with leading white space: odc-geo
        # treats each spelling as a specification of its own (only EPSG strings are canonicalised), so each must
        # keep its own string form whatever was constructed before
        self.authcase: List[List[Tuple[str, Any]]] = []
        for base in ("ESRI:54009", "ESRI:102001", "ESRI:53009", "ESRI:54030", "OGC:CRS27"):
            fam = []
            auth, code = base.split(":")
            try:
                if pyproj.CRS.from_user_input(base).to_epsg(min_confidence=20) is not None:
                    continue
            except Exception:  # pylint: disable=broad-except
                continue
            for s in (base, base.lower(), f"{auth.title()}:{code}", f"{auth.lower()}:{code}", " " + base, " " + base.lower(),
                      "\t" + base):
                try:
                    pyproj.CRS.from_user_input(s)
                except Exception:  # pylint: disable=broad-except
                    continue
                n = self.add_text(s)
                if self.info[n] is not None and ("str", n) not in fam:
                    fam.append(("str", n))
            if len(fam) >= 2:
                self.authcase.append(fam)
        # specs that pyproj rejects
        self.bad_names = [self.add_text("EPSG:999999"), self.add_text("not-a-crs")]
        self.einfo[999999] = None
        # sanity of the assumed contract: pyproj == is an equivalence on the alphabet
        objs = [(n, pyproj.CRS.from_user_input(self.texts[n])) for n, d in self.info.items()
                if d is not None and n in self.texts]
        for n, p in objs:
            s = self.info[n]["sys"]
            for i, r in enumerate(self.reps):
                assert (p == r) == (i == s), f"pyproj equality is not an equivalence on the alphabet at {n[:20]}"

    def bulk_codes(self, n: int, rng) -> List[int]:
        """n further distinct EPSG codes (projected systems), cheap to construct, for cache-capacity histories.
        Their systems are never compared with anything, so each gets a system number of its own."""
        codes = sorted(int(c) for c in pyproj.get_codes("EPSG", "PROJECTED_CRS") if c.isdigit())
        codes = [c for c in codes if c not in self.einfo]
        start = rng.randrange(0, max(1, len(codes) - n))
        out = []
        for c in codes[start:] + codes[:start]:
            if len(out) >= n:
                break
            try:
                p = pyproj.CRS.from_epsg(c)
            except Exception:  # pylint: disable=broad-except
                continue
            if p.srs != f"EPSG:{c}":
                continue
            self.einfo[c] = {"sys": 100000 + c, "srs": f"EPSG:{c}", "wkt": "#w", "epsg": c}
            out.append(c)
        return out

    def rejected(self, spec) -> bool:
        """does odc-geo reject the spec today (as the model computes it: pyproj cannot parse it, or the text the
        pyproj object reports starts with EPSG: and is not followed by a plain number)"""
        kind, x = spec
        d = self.einfo.get(x) if kind in ("int", "pyproj-epsg") else self.info.get(x)
        if d is None:
            return True
        u = self.texts.get(d["srs"], d["srs"]).upper()
        return u.startswith("EPSG:") and not u[5:].isdigit()

    # ---- Lean encoding
    def lean_tables(self) -> Tuple[str, str]:
        def ent(key, d):
            e = "N" if d["epsg"] is None else str(d["epsg"])
            return f"{key};{d['sys']};{d['srs']};{d['wkt']};{e}"

        ts = [ent(n, d) for n, d in self.info.items() if d is not None]
        es = [ent(c, d) for c, d in self.einfo.items() if d is not None]
        for x in ts + es:
            assert " " not in x and "," not in x and "[" not in x, x
        return "[" + ",".join(ts) + "]", "[" + ",".join(es) + "]"

    def sys_of_text(self, name: str) -> Optional[int]:
        d = self.info.get(name)
        return None if d is None else d["sys"]

    def worker_payload(self) -> dict:
        return {"texts": self.texts, "dicts": self.dicts,
                "refs": {str(i): t for i, t in enumerate(self.rep_text)}}


def dumps(x) -> str:
    return json.dumps(x, sort_keys=True)
