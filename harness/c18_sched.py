"""
Deterministic step-level scheduler for C18.

The real `DelayedS3Writer` code of odc-geo runs in ordinary Python threads, but exactly one
of them runs at any time: every thread parks at each *yield point* and continues only when
the controller (the harness thread) hands it the next step.  Yield points are the places
where the writer touches shared state, none of which needs an edit of odc-geo:

  rd / wr   read / write of `MultiPartUpload.uploadId` (a data descriptor on a subclass that
            inherits every method of the real class unchanged)
  gc        `distributed.get_client()` as called by the real `_s3._dask_client`
  sget / ssd / sset / sin / sitem   operations on the module dict `_s3._state` (replaced by an
            instrumented dict subclass that starts EMPTY: the process-wide lock does not exist
            yet and is created lazily by the real `_mpu_local_lock`, whose `Lock()` calls build
            scheduler-aware lock objects through the substituted `_s3.Lock`)
  acq / rel enter / exit of a lock object: whatever `_mpu_local_lock()` returned (local
            variant) or the fake `distributed.Lock` (cluster variant)
  vget / vset / vdel   fake `distributed.Variable`
  create / upload / complete   methods of the fake S3 client

A step = the shared operation a thread is parked at plus all thread-local code up to its
next yield point; this is the `step` of the Lean model.
"""
from __future__ import annotations

import pickle
import threading
import time
from typing import Any, Callable, Dict, List, Optional, Tuple


class Killed(BaseException):
    """the worker process / thread dies at an injected crash point (not an `Exception`: nothing in the code under
    test may swallow it); `with` blocks it unwinds through release their locks, as a lock lease expiring would"""


class _Abort(BaseException):
    """raised inside a parked worker thread to unwind it when a run is abandoned"""


def _binsem():
    """binary semaphore, initially 0 (a raw lock: far cheaper than threading.Semaphore;
    every release is matched by exactly one acquire, so one bit is enough)"""
    lk = threading.Lock()
    lk.acquire()
    return lk


class _T:
    __slots__ = ("tid", "sem", "pending", "blocked", "finished", "result", "exc", "thread", "started", "started_running",
                 "killed")

    def __init__(self, tid: int):
        self.tid = tid
        self.sem = _binsem()
        self.pending: Optional[str] = None
        self.blocked: Optional[Callable[[], bool]] = None
        self.finished = False
        self.result: Any = None
        self.exc: Optional[BaseException] = None
        self.thread: Optional[threading.Thread] = None
        self.started = False
        self.started_running = False
        self.killed = False


# context switches only at these operations (plus each thread's first one) in coarse mode;
# reads / writes of uploadId and get_client() then ride along with the preceding operation
COARSE = frozenset({"acq", "rel", "create", "upload", "complete", "vget", "vset", "vdel",
                    "ssd", "sset", "sitem", "sin"})


# operations on EXTERNAL collaborators (the storage client, distributed.Variable / Lock, the lock object): what the
# correspondence compares.  Everything else a thread does between two of them (reads / writes of uploadId, look-ups
# in the module's private state, get_client()) is internal: any number of such steps, in any order, is the same run.
EXT = frozenset({"acq", "rel", "create", "upload", "complete", "vget", "vset", "vdel"})
C2 = frozenset({"acq", "create", "upload", "complete", "vget"})


class Sched:
    TIMEOUT = 10.0

    def __init__(self, coarse: Optional[frozenset] = None):
        self.macro: List[int] = []        # the schedule at the granularity of scheduler steps (one entry per `step`)
        self.mlabels: List[List[str]] = []  # per scheduler step: the EXTERNAL operations performed during it
        self.threads: List[_T] = []
        self.ctrl = _binsem()
        self.tl = threading.local()
        self.aborting = False
        self.labels: List[str] = []
        self.fine: List[int] = []  # the schedule at the model's (fine) step granularity
        self.coarse = coarse
        self.gate: Dict[int, Callable[[], bool]] = {}  # tid -> "must not start yet"

    # ---- worker side
    def yield_point(self, label: str, blocked: Optional[Callable[[], bool]] = None):
        t = getattr(self.tl, "t", None)
        if t is None:  # set-up / inspection code on the controller thread
            return
        if t.killed:  # unwinding after an injected crash: no further step of this thread is scheduled or shown
            return
        if (
            self.coarse is not None
            and t.started
            and label not in self.coarse
            and not (blocked is not None and blocked())
        ):
            # coarse mode: no context switch here, the thread takes this step right away
            self.labels.append(f"{t.tid}:{label}")
            self.fine.append(t.tid)
            if label in EXT and self.mlabels:
                self.mlabels[-1].append(label)
            return
        t.started = True
        t.pending = label
        t.blocked = blocked
        self.ctrl.release()
        t.sem.acquire()
        t.pending = None
        t.blocked = None
        if self.aborting:
            raise _Abort()
        if t.killed:
            raise Killed()

    def hold(self):
        """park without it counting as a step: the thread continues (up to its first shared
        operation) only at the moment the controller gives it its first step"""
        t = getattr(self.tl, "t", None)
        if t is None:
            return
        t.pending = "__hold__"
        self.ctrl.release()
        t.sem.acquire()
        t.pending = None
        if self.aborting:
            raise _Abort()
        if t.killed:
            raise Killed()

    def current(self) -> Optional[int]:
        t = getattr(self.tl, "t", None)
        return None if t is None else t.tid

    def kill_current(self):
        t = getattr(self.tl, "t", None)
        if t is not None:
            t.killed = True
        raise Killed()

    def _main(self, t: _T, fn: Callable[[], Any]):
        self.tl.t = t
        try:
            # park before the first instruction: the first shared operation is reached
            # by thread-local code only, so it belongs to the first step
            t.result = fn()
        except _Abort:
            pass
        except BaseException as e:  # pylint: disable=broad-except
            t.exc = e
        finally:
            t.finished = True
            self.ctrl.release()

    # ---- controller side
    def _wait(self):
        if not self.ctrl.acquire(timeout=self.TIMEOUT):
            raise RuntimeError("scheduler: worker thread neither yielded nor finished (real blocking call?)")

    def spawn(self, fn: Callable[[], Any]) -> int:
        t = _T(len(self.threads))
        self.threads.append(t)
        t.thread = threading.Thread(target=self._main, args=(t, fn), daemon=True)
        t.thread.start()
        self._wait()  # runs up to its first yield point (or finishes)
        return t.tid

    def is_enabled(self, tid: int) -> bool:
        t = self.threads[tid]
        if t.finished:
            return False
        if t.blocked is not None and t.blocked():
            return False
        if tid in self.gate and not t.started_running and self.gate[tid]():
            return False
        return True

    def enabled(self) -> List[int]:
        return [t.tid for t in self.threads if self.is_enabled(t.tid)]

    def step(self, tid: int):
        """give thread `tid` one step; a blocked or finished thread stutters"""
        t = self.threads[tid]
        if t.pending == "__hold__" and not t.finished:
            if self.coarse is not None and self.coarse <= EXT:
                # external-trace mode: the thread's first step runs its code from the very beginning up to its first
                # switch point and parks there - however many internal operations (if any) come before it
                t.started = True
                t.started_running = True
                self.macro.append(tid)
                self.mlabels.append([])
                t.sem.release()
                self._wait()
                return
            t.sem.release()
            self._wait()  # now parked at its first shared operation (or finished)
        self.fine.append(tid)
        self.macro.append(tid)
        if t.finished:
            self.labels.append(f"{tid}:-")
            self.mlabels.append(["-"])
            return
        if t.blocked is not None and t.blocked():
            self.labels.append(f"{tid}:{t.pending}!")
            self.mlabels.append([f"{t.pending}!"])
            return
        self.labels.append(f"{tid}:{t.pending}")
        self.mlabels.append([t.pending] if t.pending in EXT else [])
        t.started_running = True
        t.sem.release()
        self._wait()

    def kill(self, tid: int):
        """thread `tid` dies where it is parked: `Killed` is raised in it instead of the operation it was about to
        perform; the `with` blocks it unwinds through release their locks; no further step of it is shown"""
        t = self.threads[tid]
        self.macro.append(tid)
        self.mlabels.append(["crash"])
        if t.finished:
            return
        t.killed = True
        t.started = True
        t.started_running = True
        t.sem.release()
        self._wait()

    def abort(self):
        self.aborting = True
        for t in self.threads:
            if not t.finished:
                t.sem.release()
        for t in self.threads:
            if t.thread is not None:
                t.thread.join(timeout=self.TIMEOUT)


# --------------------------------------------------------------------------- fakes
class FakeLock:
    """stands in for `threading.Lock` / `distributed.Lock`; acquire parks while held"""

    def __init__(self, sched: Optional[Sched] = None):
        self.holder: Optional[int] = None

    @property
    def sched(self) -> Sched:
        return CURRENT["sched"]  # lock objects outlive the attempt that created them

    def acquire(self, *a, **kw):
        self.sched.yield_point("acq", blocked=lambda: self.holder is not None)
        assert self.holder is None
        self.holder = self.sched.current()
        if self.holder is None:
            self.holder = -1  # taken by sequential (unscheduled) history code
        return True

    def release(self):
        try:
            self.sched.yield_point("rel")
        finally:
            self.holder = None  # a thread that dies while it leaves the block has left it all the same

    def __enter__(self):
        self.acquire()
        return self

    def __exit__(self, *exc):
        self.release()
        return False


class InstrDict(dict):
    """stands in for the module dict `_s3._state`: every access is a scheduler yield point"""

    def __init__(self, sched: Optional["Sched"] = None):
        super().__init__()

    @property
    def _sched(self) -> "Sched":
        return CURRENT["sched"]

    def get(self, k, d=None):
        self._sched.yield_point("sget")
        return dict.get(self, k, d)

    def setdefault(self, k, d=None):
        self._sched.yield_point("ssd")
        return dict.setdefault(self, k, d)

    def __setitem__(self, k, v):
        self._sched.yield_point("sset")
        dict.__setitem__(self, k, v)

    def __getitem__(self, k):
        self._sched.yield_point("sitem")
        return dict.__getitem__(self, k)

    def __contains__(self, k):
        self._sched.yield_point("sin")
        return dict.__contains__(self, k)

    def pop(self, k, *d):
        self._sched.yield_point("spop")
        return dict.pop(self, k, *d)


class NoSuchUpload(Exception):
    """what S3 answers when a part, a completion or an abort names an upload that is not active"""


class TransientError(Exception):
    """an injected one-off failure of a storage call (throttling, 5xx, connection reset)"""


class InvalidPart(Exception):
    """CompleteMultipartUpload lists a part that was never uploaded"""


class InvalidPartOrder(Exception):
    """CompleteMultipartUpload: the part list is not in ascending part-number order"""


class EntityTooSmall(Exception):
    """CompleteMultipartUpload: a listed part other than the last is smaller than the minimal part size"""


class FakeS3:
    """The storage service of one bucket.  Uploads belong to a KEY and are active, completed or aborted; only
    active ones are listed - `list_multipart_uploads(Prefix=p)` answers, as S3 does, with the uploads of EVERY key
    that begins with `p`, ordered by key then age.  With `strict` the service rejects parts / completions / aborts
    that name an upload which is not active under the given key (NoSuchUpload), as S3 does; without it dead ids are
    only recorded.  With `min_size` set the service also applies the completion rules of the multipart API (parts
    known, ascending order, every part but the last at least `min_size` bytes) and assembles the object.  The
    arguments of every call are kept in `args` for the argument oracle."""

    def __init__(self, sched: Optional[Sched] = None):
        self.strict = False
        self.min_size: Optional[int] = None
        self.active: List[str] = []
        self.completed: List[str] = []
        self.aborted: List[str] = []
        self.key_of: Dict[str, str] = {}
        self.bodies: Dict[str, Dict[int, bytes]] = {}
        self.objects: Dict[str, bytes] = {}
        self.args: List[Tuple[str, Dict[str, Any]]] = []
        self.faults: Dict[int, str] = {}  # thread -> "c" (its create call) / "u" (its upload / complete call)
        self.kills: Dict[int, str] = {}   # thread -> "X" (dies right after its create call was carried out) / "x" (... upload / complete)
        self.page_size: Optional[int] = None  # list_multipart_uploads answers with at most that many uploads
        self.fired: List[int] = []
        self.calls: List[str] = []
        self.ncreate = 0
        self.uploads: List[Tuple[int, str]] = []
        self.ids: List[str] = []
        self.used_ids: List[str] = []

    @property
    def sched(self) -> Sched:
        return CURRENT["sched"]

    def _fault(self, kind: str):
        tid = self.sched.current()
        if tid is not None and kind in self.faults.get(tid, "") and (tid, kind) not in self.fired:
            self.fired.append((tid, kind))
            raise TransientError(f"injected failure of thread {tid}'s storage call")

    def _kill(self, kind: str):
        tid = self.sched.current()
        if tid is not None and kind in self.kills.get(tid, "") and (tid, kind) not in self.fired:
            self.fired.append((tid, kind))
            self.sched.kill_current()

    def _live(self, uid, key=None):
        if self.strict and (uid not in self.active or (key is not None and self.key_of.get(uid, key) != key)):
            raise NoSuchUpload(uid)

    def list_multipart_uploads(self, Bucket, Prefix, KeyMarker=None, UploadIdMarker=None, **kw):  # noqa: N803
        self.sched.yield_point("list")
        self.calls.append("list")
        self.args.append(("list", {"Bucket": Bucket, "Prefix": Prefix, "UploadIdMarker": UploadIdMarker}))
        hits = [u for u in self.active if self.key_of.get(u, Prefix).startswith(Prefix)]
        if UploadIdMarker is not None:
            hits = [u for u in hits if (self.key_of.get(u, Prefix), int(u[2:])) >
                    (KeyMarker or Prefix, int(UploadIdMarker[2:]))]
        hits.sort(key=lambda u: (self.key_of.get(u, Prefix), int(u[2:])))
        out: Dict[str, Any] = {}
        if self.page_size is not None and len(hits) > self.page_size:
            hits = hits[: self.page_size]
            out.update(IsTruncated=True, NextKeyMarker=self.key_of.get(hits[-1], Prefix), NextUploadIdMarker=hits[-1])
        if hits:
            out["Uploads"] = [{"UploadId": u, "Key": self.key_of.get(u, Prefix)} for u in hits]
        return out

    def get_object(self, Bucket, Key, **kw):  # noqa: N803
        import io

        self.args.append(("get", {"Bucket": Bucket, "Key": Key, "kw": dict(kw)}))
        return {"Body": io.BytesIO(self.objects.get(Key, b"") if "Range" not in kw else b"ranged:" + kw["Range"].encode())}

    def abort_multipart_upload(self, Bucket, Key, UploadId):  # noqa: N803
        self.sched.yield_point("abort")
        self.calls.append(f"abort={UploadId}")
        self.args.append(("abort", {"Bucket": Bucket, "Key": Key, "UploadId": UploadId}))
        self._live(UploadId, Key)
        if UploadId in self.active:
            self.active.remove(UploadId)
            self.aborted.append(UploadId)
            self.bodies.pop(UploadId, None)
        return {}

    def create_multipart_upload(self, Bucket, Key, **kw):  # noqa: N803
        self.sched.yield_point("create")
        self._fault("c")
        self.ncreate += 1
        uid = f"id{self.ncreate}"
        self.ids.append(uid)
        self.active.append(uid)
        self.key_of[uid] = Key
        self.bodies[uid] = {}
        self.calls.append(f"create={uid}")
        self.args.append(("create", {"Bucket": Bucket, "Key": Key, "kw": dict(kw)}))
        self._kill("X")
        return {"UploadId": uid}

    def upload_part(self, PartNumber, Body, Bucket, Key, UploadId):  # noqa: N803
        self.sched.yield_point("upload")
        self._fault("u")
        self.calls.append(f"upload:{PartNumber}={UploadId or chr(34) * 2}")
        self.args.append(("upload", {"Bucket": Bucket, "Key": Key, "PartNumber": PartNumber, "Body": bytes(Body),
                                     "UploadId": UploadId}))
        self.used_ids.append(UploadId)
        self._live(UploadId, Key)
        self.uploads.append((PartNumber, UploadId))
        self.bodies.setdefault(UploadId, {})[PartNumber] = bytes(Body)
        self._kill("x")
        return {"ETag": f"etag{PartNumber}"}

    def complete_multipart_upload(self, Bucket, Key, UploadId, MultipartUpload):  # noqa: N803
        self.sched.yield_point("complete")
        self._fault("u")
        self.calls.append(f"complete={UploadId or chr(34) * 2}")
        self.args.append(("complete", {"Bucket": Bucket, "Key": Key, "UploadId": UploadId,
                                       "Parts": [dict(p) for p in MultipartUpload["Parts"]]}))
        self.used_ids.append(UploadId)
        self._live(UploadId, Key)
        if self.min_size is not None:
            nums = [p["PartNumber"] for p in MultipartUpload["Parts"]]
            if any(a >= b for a, b in zip(nums, nums[1:])):
                raise InvalidPartOrder(nums)
            have = self.bodies.get(UploadId, {})
            if any(n not in have for n in nums):
                raise InvalidPart(nums)
            if any(len(have[n]) < self.min_size for n in nums[:-1]):
                raise EntityTooSmall(nums)
            self.objects[Key] = b"".join(have[n] for n in nums)
        if UploadId in self.active:
            self.active.remove(UploadId)
            self.completed.append(UploadId)
            self.bodies.pop(UploadId, None)
        self._kill("x")
        return {"ETag": "final"}


class FakeClient:
    """stands in for `distributed.Client` (truthy, carries nothing)"""


class Cluster:
    """state of the fake cluster: named variables and locks"""

    def __init__(self, sched: Optional[Sched] = None):
        self.vars: Dict[str, Any] = {}
        self.locks: Dict[str, FakeLock] = {}
        self.client = FakeClient()
        self.var_names: List[str] = []
        self.set_log: List[Tuple[str, Any, Any]] = []  # (name, value, client the Variable was built with)


CURRENT: Dict[str, Any] = {"sched": None, "s3": None, "cluster": None, "local": True, "xnames": None, "wof": [],
                           "getfaults": {}, "ngets": {}}


def _xname(name):
    """Names are how independent worker processes find the shared Variable / Lock.  When the
    harness has had the REAL code compute them in separate interpreters (c18_xproc, distinct hash
    salts), the name a worker's thread asks for here is replaced by the one *that worker's
    process* computed for the same request (identical on an unchanged tree)."""
    xn = CURRENT.get("xnames")
    sched = CURRENT.get("sched")
    tid = sched.current() if sched is not None else None
    if not xn or tid is None or not isinstance(name, str):
        return name
    w = CURRENT["wof"][tid]
    return xn[w % len(xn)].get(name.split("-", 1)[0], name)


class FakeVariable:
    """`distributed.Variable(name=None, client=None)`: get of an unset / deleted variable times out"""

    def __init__(self, name=None, client=None):
        name = _xname(name)
        self.name = name
        self.client = client
        cl: Cluster = CURRENT["cluster"]
        if name not in cl.var_names:
            cl.var_names.append(name)

    def set(self, value, timeout=None):
        CURRENT["sched"].yield_point("vset")
        CURRENT["cluster"].vars[self.name] = value
        CURRENT["cluster"].set_log.append((self.name, value, self.client))

    def get(self, timeout=None):
        CURRENT["sched"].yield_point("vget")
        # injected timeouts: the n-th `get` of a thread (1 = the unlocked read, 2 = the read under the lock) raises
        # although the variable may be set - a slow scheduler; the real `_safe_get` swallows it
        tid = CURRENT["sched"].current()
        if tid is not None:
            n = CURRENT["ngets"][tid] = CURRENT["ngets"].get(tid, 0) + 1
            if n in CURRENT["getfaults"].get(tid, ()):
                raise TimeoutError("injected: Variable.get timed out")
        vs = CURRENT["cluster"].vars
        if self.name not in vs:
            raise TimeoutError()
        return vs[self.name]

    def delete(self):
        CURRENT["sched"].yield_point("vdel")
        CURRENT["cluster"].vars.pop(self.name, None)

    def __reduce__(self):
        return (FakeVariable, (self.name,))


class FakeDLock:
    """`distributed.Lock(name=None, scheduler_rpc=None, loop=None)` as installed (the signature is
    compared with the real class on every run): all objects of one name share one lock; like the
    real one it resolves the current client / worker itself, and an object passed as
    `scheduler_rpc` that cannot register a semaphore fails when the lock is entered."""

    def __init__(self, name=None, scheduler_rpc=None, loop=None):
        cl: Cluster = CURRENT["cluster"]
        self.name = _xname(name)
        self._rpc = scheduler_rpc
        self._lk = cl.locks.setdefault(self.name, FakeLock())

    def _register(self):
        if self._rpc is not None and not hasattr(self._rpc, "semaphore_register"):
            raise AttributeError(f"'{type(self._rpc).__name__}' object has no attribute 'semaphore_register'")

    def acquire(self, *a, **kw):
        self._register()
        return self._lk.acquire()

    def release(self):
        return self._lk.release()

    def __enter__(self):
        self._register()
        self._lk.acquire()
        return self

    def __exit__(self, *exc):
        self._lk.release()
        return False


def fake_signatures_match() -> Dict[str, Any]:
    """the fakes must have the call signatures of the installed library"""
    import inspect

    import distributed

    out = {}
    for nm, real, fake in (("Lock", distributed.Lock, FakeDLock), ("Variable", distributed.Variable, FakeVariable)):
        r = list(inspect.signature(real.__init__).parameters)
        f = list(inspect.signature(fake.__init__).parameters)
        out[nm] = {"real": r, "fake": f, "ok": r == f}
    return out


def fake_get_client(*a, **kw):
    CURRENT["sched"].yield_point("gc")
    if CURRENT["local"]:
        raise ValueError("No global client found and no address provided")
    return CURRENT["cluster"].client


_CLS: Dict[str, Any] = {}


def instr_mpu_class():
    """`MultiPartUpload` with an observable `uploadId` attribute and the fake S3 client;
    every method (`started`, `initiate`, `write_part`, `finalise`, `writer`) is inherited."""
    if "InstrMPU" in _CLS:
        return _CLS["InstrMPU"]
    from odc.geo.cog import _s3

    def _get(self):
        CURRENT["sched"].yield_point("rd")
        return self.__dict__.get("_uid", "")

    def _set(self, v):
        CURRENT["sched"].yield_point("wr")
        self.__dict__["_uid"] = v

    ns = {"s3_client": lambda self: CURRENT["s3"], "__module__": __name__}
    # `uploadId` is observed only while it is a plain instance attribute of the real class; should the class come
    # to manage it through a descriptor of its own, reads / writes of it are simply not yield points any more
    if not hasattr(_s3.MultiPartUpload, "uploadId"):
        ns["uploadId"] = property(_get, _set)
    cls = type("InstrMPU", (_s3.MultiPartUpload,), ns)
    cls.__qualname__ = "InstrMPU"
    globals()["InstrMPU"] = cls  # picklable by reference
    _CLS["InstrMPU"] = cls
    return cls


def build_name(writer, prefix: str) -> Optional[str]:
    """the name the writer's (private) `_build_name` computes; None when that helper is not there"""
    fn = getattr(writer, "_build_name", None)
    try:
        return None if fn is None else fn(prefix)
    except Exception:  # pylint: disable=broad-except
        return None


def uid_of(mpu) -> Any:
    """the object's upload id, through its public attribute (no yield point on the controller thread)"""
    return getattr(mpu, "uploadId", None)


def patch_private(_s3, make_lock, state) -> List[Tuple[Any, str, Any]]:
    """Substitute, defensively, what the in-process branch keeps in module-level privates: every module-level plain
    `dict` (today: `_state`) is replaced by the instrumented, EMPTY dict `state`; every module-level name bound to
    `threading.Lock` (today: `Lock`) by `make_lock`; a module-level `threading` by a proxy whose `Lock` is `make_lock`.
    Returns the list to restore.  Nothing here is compared with anything: it only makes the real lock schedulable."""
    import types

    saved: List[Tuple[Any, str, Any]] = []
    real_lock = threading.Lock
    for name, val in list(vars(_s3).items()):
        if name.startswith("__"):
            continue
        if type(val) is dict:  # pylint: disable=unidiomatic-typecheck
            saved.append((_s3, name, val))
            setattr(_s3, name, state)
        elif val is real_lock:
            saved.append((_s3, name, val))
            setattr(_s3, name, make_lock)
        elif val is threading:
            proxy = types.SimpleNamespace(**{k: getattr(threading, k) for k in dir(threading) if not k.startswith("__")})
            proxy.Lock = make_lock
            saved.append((_s3, name, val))
            setattr(_s3, name, proxy)
    return saved


def restore_private(saved) -> None:
    for mod, name, val in saved:
        setattr(mod, name, val)


def clone(obj, how: str):
    """a copy of a writer / sink the way dask, multiprocessing or user code would make one"""
    import copy

    if how == "pickle":
        return pickle.loads(pickle.dumps(obj))
    if how == "deepcopy":
        return copy.deepcopy(obj)
    if how == "copy":
        return copy.copy(obj)
    raise ValueError(how)


KW = {"ContentType": "image/tiff"}
OBJ_KEYS = ["some/key.tif", "some/key.tif.ovr", "some/kez.tif"]


class System:
    """One configuration of the real code, ready to be scheduled.

    kinds   : list of "w<part>" / "f"  (a write of that part / a finalise)
    workers : None → in-process attempt (no dask client exists, one shared writer object);
              list of worker numbers → cluster attempt (a client exists; one copy of the
              writer per worker, made by pickle or deepcopy)
    opts    : bool (gate the finalise behind the writes) or a dict
        gate   : as above
        pre    : HISTORY - phases executed (sequentially, unscheduled) before the attempt in the
                 same process / on the same scheduler; `_s3._state`, the fake cluster's variables
                 and locks and the S3 service persist.  A phase is
                   {"op": "ask", "client": bool}      somebody builds a writer (mpu.writer(kw)) and drops it
                   {"op": "attempt", "client": bool, "parts": [...], "workers": [...], "end": e}
                 an earlier attempt for the same bucket/key, ending in "finalise", "abort"
                 (mpu.cancel()) or "crash" (nothing: task failure / interrupt before finalise)
        copies : how the per-worker copies are made ("pickle" | "deepcopy")
        chain  : thread i may start only when thread i-1 has returned
        after  : {thread: [threads that must have ended first]} (e.g. the retry of a failed step)
        build_without_client : the writer is built while no client exists, then used on the cluster
        xnames : per worker {prefix: name} - the Variable / Lock names that worker's own interpreter
                 process computed (see `_xname`)
        late_clone : per thread None or "pickle" | "copy" | "deepcopy": the thread does not use its
                 worker's writer but a copy of writer 0 taken at the moment the thread starts
    The REAL `_dask_client`, `MultiPartUpload.writer`, `prep_client`, `_shared`, `_build_name`,
    `_mpu_local_lock` run throughout; only distributed.get_client / Variable / Lock, `_s3._state`,
    `_s3.Lock` and the S3 client are substituted.
    """

    def __init__(self, kinds: List[str], workers: Optional[List[int]] = None,
                 coarse: Optional[frozenset] = None, gate_fin: Any = False):
        import distributed
        from odc.geo.cog import _s3

        opts = gate_fin if isinstance(gate_fin, dict) else {"gate": bool(gate_fin)}
        self.opts = opts
        self._s3mod = _s3
        self._dist = distributed
        self.kinds = kinds
        self.workers = workers
        self.sched = Sched(coarse)
        self.s3 = FakeS3()
        self.cluster = Cluster()
        self.state = InstrDict()  # no lock yet: first S3 write of the process
        self.made_locks: List[FakeLock] = []

        def make_lock():
            lk = FakeLock()
            self.made_locks.append(lk)
            return lk

        CURRENT.update(sched=self.sched, s3=self.s3, cluster=self.cluster, local=workers is None,
                       xnames=opts.get("xnames"), wof=list(workers or []), getfaults={}, ngets={})
        self._saved = (
            distributed.get_client,
            distributed.Variable,
            distributed.Lock,
        )
        distributed.get_client = fake_get_client
        distributed.Variable = FakeVariable
        distributed.Lock = FakeDLock
        self._saved_private = patch_private(_s3, make_lock, self.state)

        cls = instr_mpu_class()
        # ---- history (runs on this thread: yield points are no-ops, steps are sequential)
        self.pre_error: Optional[str] = None
        for ph in opts.get("pre", []):
            try:
                self._phase(cls, ph)
            except Exception as e:  # pylint: disable=broad-except
                self.pre_error = f"{type(e).__name__}: {e}"
                break
        self._attempt(cls, kinds, workers, opts)

    def _phase(self, cls, ph):
        if True:  # pylint: disable=using-constant-test
            CURRENT["local"] = not ph["client"]
            m0 = cls("bucket", "some/key.tif")
            w0 = m0.writer(dict(KW))  # the real `_dask_client` decides; `prep_client` if a client exists
            if ph["op"] == "ask":
                return
            if ph["client"]:
                wk = ph.get("workers") or [0] * len(ph["parts"])
                cps = [clone(w0, "pickle") for _ in range(max(wk) + 1)]
            else:
                wk = [0] * len(ph["parts"])
                cps = [w0]
            parts = [cps[w](p, b"x" * p) for p, w in zip(ph["parts"], wk)]
            if ph["end"] == "finalise":
                cps[-1].finalise(parts)
            elif ph["end"] == "abort":
                cps[0].mpu.cancel()

    def _attempt(self, cls, kinds, workers, opts):
        # ---- what the model needs to know about the state the attempt starts in
        self.base_create = self.s3.ncreate
        self.base_calls = len(self.s3.calls)
        self.base_uploads = len(self.s3.uploads)
        self.base_used = len(self.s3.used_ids)
        self.base_args = len(self.s3.args)
        left = None
        for nm in self.cluster.var_names:
            left = self.cluster.vars.get(nm, None)
        if workers is None:
            self.model_extra = " P" if len(self.made_locks) > 0 else ""  # an earlier phase created the process-wide lock
        else:
            self.model_extra = "" if not opts.get("pre") else (" N" if left is None else " S")

        # ---- the attempt
        # build_without_client: the writer / graph is built before a dask client exists (no `prep_client`,
        # every worker creates the Variable itself), the tasks then run on a cluster
        CURRENT["local"] = workers is None or bool(opts.get("build_without_client"))
        objs = opts.get("objects")  # per thread: which of SEVERAL objects (keys) it writes to - cluster variant only
        self.objs = objs
        if objs:
            nobj = max(objs) + 1
            self.obj_keys = [OBJ_KEYS[k] for k in range(nobj)]
            w0 = [cls("bucket", key).writer(dict(KW)) for key in self.obj_keys]
            CURRENT["local"] = False
            how = opts.get("copies", "pickle")
            # one copy of every object's writer per worker; copy index = worker * nobj + object
            self.writers = [clone(w0[k], how) for _ in range(max(workers) + 1) for k in range(nobj)]
            wof = [w * nobj + k for w, k in zip(workers, objs)]
            CURRENT["wof"] = list(wof)
        else:
            mpu = cls("bucket", "some/key.tif")
            writer = mpu.writer(dict(KW))  # real code: looks for a client itself
            CURRENT["local"] = workers is None
            if workers is None:
                self.writers = [writer]
                wof = [0] * len(kinds)
            else:
                how = opts.get("copies", "pickle")
                self.writers = [clone(writer, how) for _ in range(max(workers) + 1)]
                wof = workers
        self.wof = wof
        late = opts.get("late_clone") or [None] * len(kinds)

        def pick(i):
            if late[i] is None:
                return self.writers[wof[i]]
            self.sched.hold()  # the copy is taken when the thread gets its first step, not at set-up
            wr = clone(self.writers[0], late[i])
            self.writers.append(wr)
            return wr

        # "w1!c" / "f!u": the thread's create call, resp. its upload_part / complete call, raises once
        # "w1!g" / "w1!G" / "w1!gG": the thread's first / second / both `Variable.get` calls time out (swallowed by
        # the real `_safe_get`); flags combine ("w1!c!g")
        base = [k.split("!")[0] for k in kinds]
        flags = ["".join(k.split("!")[1:]) for k in kinds]
        self.s3.faults = {i: "".join(c for c in f if c in "cu") for i, f in enumerate(flags) if any(c in f for c in "cu")}
        CURRENT["getfaults"] = {i: {n for c, n in (("g", 1), ("G", 2)) if c in f} for i, f in enumerate(flags)
                                if "g" in f or "G" in f}
        CURRENT["ngets"] = {}
        # "w1!x": the thread dies right after its upload_part / complete call was carried out; "w1!X": right after its
        # create_multipart_upload call was carried out (inside the publication window)
        self.s3.kills = {i: "".join(c for c in f if c in "xX") for i, f in enumerate(flags) if "x" in f or "X" in f}
        def begin(i):
            # no line of the real code runs before the thread is given its first step: whatever the code does ahead
            # of its first shared operation (e.g. evaluate `mpu.started`) belongs to that step, not to the set-up
            if late[i] is None:
                self.sched.hold()
            return pick(i)

        for i, k in enumerate(base):
            if k == "f":
                self.sched.spawn(lambda i=i: begin(i).finalise([{"PartNumber": 1, "ETag": "etag1"}]))
            else:
                part = int(k[1:])
                self.sched.spawn(lambda i=i, part=part: begin(i)(part, b"x" * part))
        deps: Dict[int, List[int]] = {}
        if opts.get("gate"):
            # a finalise is given its parts by the writes: it cannot start before they returned
            ws = [i for i, k in enumerate(base) if k != "f"]
            for i, k in enumerate(base):
                if k == "f":
                    deps.setdefault(i, []).extend(ws)
        if opts.get("chain"):
            for i in range(1, len(kinds)):
                deps.setdefault(i, []).append(i - 1)
        for i, d in (opts.get("after") or {}).items():  # a retry starts when the failed attempt has ended
            deps.setdefault(int(i), []).extend(d)
        for i, d in deps.items():
            self.sched.gate[i] = lambda d=d: any(not self.sched.threads[j].finished for j in d)

    def close(self):
        self.sched.abort()
        d, s3 = self._dist, self._s3mod
        d.get_client, d.Variable, d.Lock = self._saved
        restore_private(self._saved_private)

    # ---- observation
    def canon(self, uid) -> str:
        """upload ids relative to the attempt: `id<k>` = k-th upload created by the attempt,
        `old<n>` = an id that an earlier attempt of the history obtained"""
        if uid is None:
            return "N"
        if not uid:
            return chr(34) * 2
        if isinstance(uid, str) and uid.startswith("id") and uid[2:].isdigit():
            n = int(uid[2:])
            return f"id{n - self.base_create}" if n > self.base_create else f"old{n}"
        return str(uid)

    def canon_call(self, c: str) -> str:
        head, uid = c.rsplit("=", 1)
        return f"{head}={self.canon(uid if uid != chr(34) * 2 else '')}"

    def outcome(self, tid: int) -> str:
        t = self.sched.threads[tid]
        if not t.finished:
            return "running"
        if t.exc is not None:
            return type(t.exc).__name__
        return "ok"

    def name_numbers(self) -> Tuple[List[int], List[int]]:
        """per writer copy: the Variable / Lock names the REAL `_build_name` computes, numbered by first occurrence"""
        out = []
        for prefix in ("MPUpload", "MPULock"):
            ids: Dict[str, int] = {}
            out.append([ids.setdefault(build_name(w, prefix), len(ids)) for w in self.writers])
        return out[0], out[1]

    def lock_holder(self) -> Optional[int]:
        if self.workers is None:
            # holder of (any of) the lock object(s) the real code created
            for lk in self.made_locks:
                if lk.holder is not None:
                    return lk.holder
            return None
        for lk in self.cluster.locks.values():
            if lk.holder is not None:
                return lk.holder
        return None

    def describe(self, external: bool = False) -> str:
        """canonical text of the run, same format as the Lean driver; `external`: per scheduler step only the
        operations on external collaborators performed during it (`~` = none)"""
        nw = 1 if self.workers is None else max(self.workers) + 1
        if getattr(self, "objs", None):
            nw = len(self.writers)
        uids = [self.canon(uid_of(w.mpu)) for w in self.writers[:nw]]
        if self.workers is None:
            ids = "uid=" + uids[0]
        elif getattr(self, "objs", None):
            vn, _ = self.name_numbers()
            vals = {}
            for c, n in enumerate(vn):
                vals[n] = self.cluster.vars.get(build_name(self.writers[c], "MPUpload"), None)
            ids = "uid=" + ",".join(uids) + " var=" + ",".join(self.canon(vals[n]) for n in sorted(vals))
        else:
            v = None
            for nm in self.cluster.var_names:
                v = self.cluster.vars.get(nm, None)
            ids = "uid=" + ",".join(uids) + " var=" + self.canon(v)
        outs = ",".join(self.outcome(i) for i in range(len(self.kinds)))
        h = self.lock_holder()
        calls = [self.canon_call(c) for c in self.s3.calls[self.base_calls:]]
        labels = self.sched.labels
        if external:
            labels = [f"{t}:{'+'.join(ls) or '~'}" for t, ls in zip(self.sched.macro, self.sched.mlabels)]
        return (
            f"{','.join(labels)} ; {','.join(calls)} ; {ids} ; {outs} ; "
            f"lock={'free' if h is None else h}"
        )


SEQ_OPS = ["w", "f", "ca", "cA", "cc", "c1", "c2", "c3"]


def bad_call_args(args, kinds=None) -> List[str]:
    """every storage call of an attempt names the object (Bucket / Key), `create_multipart_upload` gets the
    writer's keyword arguments, `upload_part` the body of ITS part (the scheduler threads write b"x" * part),
    `complete_multipart_upload` the part records it was given"""
    WKW = KW
    bad = []
    for nm, a in args:
        if nm in ("create", "upload", "complete", "abort") and (a.get("Bucket"), a.get("Key")) != ("bucket", "some/key.tif"):
            bad.append(f"{nm}: Bucket/Key {a.get('Bucket')!r}/{a.get('Key')!r}")
        if nm == "create" and a.get("kw") != WKW:
            bad.append(f"create: keyword arguments {a.get('kw')} (writer was given {WKW})")
        if nm == "upload" and kinds is not None and a["Body"] != b"x" * a["PartNumber"]:
            bad.append(f"upload_part {a['PartNumber']}: body {a['Body'][:20]!r}")
        if nm == "complete" and kinds is not None and a["Parts"] != [{"PartNumber": 1, "ETag": "etag1"}]:
            bad.append(f"complete: parts {a['Parts']}")
    return bad


class _Patched:
    """context: the fakes at the client boundary installed for sequential (unscheduled) runs of the real code"""

    def __init__(self, local: bool = True, strict: bool = True):
        self.local, self.strict = local, strict

    def __enter__(self):
        import distributed
        from odc.geo.cog import _s3

        self.s3 = FakeS3()
        self.s3.strict = self.strict
        self.cluster = Cluster()
        CURRENT.update(sched=Sched(), s3=self.s3, cluster=self.cluster, local=self.local, xnames=None, wof=[],
                       getfaults={}, ngets={})
        self._mods = (distributed, _s3)
        self._saved = (distributed.get_client, distributed.Variable, distributed.Lock)
        distributed.get_client, distributed.Variable, distributed.Lock = fake_get_client, FakeVariable, FakeDLock
        self._saved_private = patch_private(_s3, FakeLock, InstrDict())
        return self

    def __exit__(self, *exc):
        d, _ = self._mods
        d.get_client, d.Variable, d.Lock = self._saved
        restore_private(self._saved_private)
        return False


OTHER_KEY_SUFFIX = ".ovr"


def run_seq(ops: List[str], resumed: bool = False) -> Dict[str, Any]:
    """One shared in-process `MultiPartUpload` + writer over time: writes, finalise, every spelling of `cancel`
    and `_ensure_init(final_write=True)` ("e") in sequence (no concurrency), against the strict storage service.
    `resumed`: the object is built with `uploadId="id1"`, an active upload somebody else initiated.
    "X" / "Y": somebody initiates / completes an upload for ANOTHER key that begins with this object's key
    (direct calls to the service, not odc-geo code) - model `SeqK`."""
    steps = []
    with _Patched() as px:
        s3 = px.s3
        if resumed:
            s3.create_multipart_upload(Bucket="bucket", Key="some/key.tif")
            s3.calls.clear()
            s3.args.clear()
            mpu = instr_mpu_class()("bucket", "some/key.tif", uploadId="id1")
        else:
            mpu = instr_mpu_class()("bucket", "some/key.tif")
        writer = mpu.writer(dict(KW))
        parts: List[Any] = []
        part = 0
        other = "some/key.tif" + OTHER_KEY_SUFFIX
        foreign: List[str] = []
        for op in ops:
            n0, before = len(s3.calls), uid_of(mpu)
            try:
                if op == "X":
                    foreign.append(s3.create_multipart_upload(Bucket="bucket", Key=other)["UploadId"])
                    del s3.calls[n0:]
                elif op == "Y":
                    if foreign:
                        s3.complete_multipart_upload(Bucket="bucket", Key=other, UploadId=foreign.pop(0),
                                                     MultipartUpload={"Parts": []})
                    del s3.calls[n0:]
                elif op == "w":
                    part += 1
                    parts.append(writer(part, b"x" * part))
                elif op == "f":
                    writer.finalise(parts or [{"PartNumber": 1, "ETag": "etag1"}])
                    parts = []
                elif op == "e":
                    ensure = getattr(writer, "_ensure_init", None)  # private: callers check `has_ensure_init()` first
                    got = ensure(final_write=True)
                    assert got is mpu
                else:
                    arg = {"ca": "all", "cA": ":ALL:", "cc": ""}.get(op, "id" + op[1:])
                    mpu.cancel(arg)
                    parts = []
                res = "ok"
            except NoSuchUpload:
                res = "NoSuchUpload"
            except Exception as e:  # pylint: disable=broad-except
                res = type(e).__name__
            own_active = [u for u in s3.active if s3.key_of.get(u) == "some/key.tif"]
            steps.append({"op": op, "res": res, "before": before, "after": uid_of(mpu),
                          "calls": s3.calls[n0:], "active": own_active,
                          "foreign": [u for u in s3.active if s3.key_of.get(u) == other]})
        q = chr(34) * 2
        srt = lambda l: "[" + ",".join(sorted(l, key=lambda u: int(u[2:]))) + "]"  # noqa: E731
        own = lambda l: [u for u in l if s3.key_of.get(u) == "some/key.tif"]  # noqa: E731
        text = (f"{','.join(st['res'] for st in steps)} ; {','.join(s3.calls)} ; uid={uid_of(mpu) or q} ; "
                f"active={srt(own(s3.active))} ; completed={srt(own(s3.completed))} ; aborted={srt(own(s3.aborted))}")
        if any(o in ("X", "Y") for o in ops):
            text += f" ; foreign={srt([u for u in s3.active if s3.key_of.get(u) == other])}"
        args = list(s3.args)
    return {"steps": steps, "text": text, "args": args}


def has_ensure_init() -> bool:
    """is the (private, caller-less) entry point `_ensure_init(final_write=...)` there to be driven?"""
    import inspect

    from odc.geo.cog import _s3

    fn = getattr(_s3.DelayedS3Writer, "_ensure_init", None)
    try:
        return fn is not None and "final_write" in inspect.signature(fn).parameters
    except (TypeError, ValueError):
        return False


def run_read() -> Dict[str, Any]:
    """`MultiPartUpload.read(**kw)` (177-179): the object's bytes through `get_object(Bucket, Key, **kw)`"""
    with _Patched() as px:
        px.s3.objects["some/key.tif"] = b"the object"
        mpu = instr_mpu_class()("bucket", "some/key.tif")
        whole = mpu.read()
        part = mpu.read(Range="bytes=0-3")
        return {"whole": whole, "part": part, "args": [a for n, a in px.s3.args if n == "get"]}


def run_paged_cancel(page: int, n: int, m: int) -> Dict[str, Any]:
    """`n` active uploads of the object's key that other processes left behind (orphans), a service that lists `page`
    uploads per request, `cancel("all")` called `m` times (model `cancelAllPagedN`)"""
    with _Patched() as px:
        s3 = px.s3
        s3.page_size = page
        for _ in range(n):
            s3.create_multipart_upload(Bucket="bucket", Key="some/key.tif")
        s3.calls.clear()
        mpu = instr_mpu_class()("bucket", "some/key.tif")
        first: List[str] = []
        err = None
        for i in range(m):
            n0 = len(s3.calls)
            try:
                mpu.cancel("all")
            except Exception as e:  # pylint: disable=broad-except
                err = type(e).__name__
            if i == 0:
                first = s3.calls[n0:]
        text = f"first-call={','.join(first)} ; active-after-{m}=[{','.join(s3.active)}]"
        return {"text": text, "active": list(s3.active), "error": err, "uid": uid_of(mpu)}


def run_up(min_size: int, writes: List[Tuple[int, str]], plist: List[int], writes2: List[Tuple[int, str]],
           data_kind: str = "bytes") -> Dict[str, Any]:
    """The in-process `DelayedS3Writer` with the bodies of its parts (model `Up`): writes, `finalise` of the listed
    parts (the records the writes returned; `{"PartNumber": p, "ETag": ...}` for a part never written), further
    writes - against the service's completion rules.  The run stops at the first call that raises."""
    conv = {"bytes": bytes, "bytearray": bytearray, "memoryview": memoryview}[data_kind]
    with _Patched() as px:
        s3 = px.s3
        s3.min_size = min_size
        mpu = instr_mpu_class()("bucket", "some/key.tif")
        writer = mpu.writer(dict(KW))
        res: List[str] = []
        recs: Dict[int, Any] = {}
        results: List[Any] = []

        def guarded(fn):
            try:
                fn()
                return "ok"
            except AssertionError:
                return "ERR:AssertionError"
            except (NoSuchUpload, InvalidPart, InvalidPartOrder, EntityTooSmall) as e:
                return "ERR:" + type(e).__name__
            except Exception as e:  # pylint: disable=broad-except
                return "ERR:other:" + type(e).__name__

        def do_writes(ws):
            for p, d in ws:
                r = writer(p, conv(d.encode()))
                recs[p] = r
                results.append(r)

        r1 = guarded(lambda: do_writes(writes))
        res.append("w:" + r1)
        fin_result = None
        if r1 == "ok":
            parts = [recs.get(p, {"PartNumber": p, "ETag": f"etag{p}"}) for p in plist]

            def fin():
                nonlocal fin_result
                fin_result = writer.finalise(parts)

            r2 = guarded(fin)
            res.append("f:" + r2)
            if r2 == "ok":
                res.append("w:" + guarded(lambda: do_writes(writes2)))
        calls = []
        for nm, a in s3.args:
            if nm == "create":
                calls.append(f"create={a and s3.ids[sum(1 for c in calls if c.startswith('create='))]}")
            elif nm == "upload":
                calls.append(f"upload:{a['PartNumber']}={a['UploadId'] or chr(34) * 2}:{a['Body'].decode()}")
            elif nm == "complete":
                calls.append(f"complete={a['UploadId'] or chr(34) * 2}:{'.'.join(str(p['PartNumber']) for p in a['Parts'])}")
        obj = s3.objects.get("some/key.tif")
        text = (f"{','.join(res)} ; {','.join(calls)} ; obj{'N' if obj is None else '=' + obj.decode()} ; "
                f"uid={uid_of(mpu) or chr(34) * 2} ; creates={s3.ncreate}")
        return {"text": text, "res": res, "object": obj, "ncreate": s3.ncreate, "args": list(s3.args),
                "results": results, "fin_result": fin_result, "used_ids": list(s3.used_ids), "ids": list(s3.ids)}


def run_writer_prep(explicit: bool, ambient: bool) -> Dict[str, Any]:
    """`MultiPartUpload.writer(kw, client=...)` (model `writerPrep`): which client, if any, the new writer was
    prepared with (`prep_client`: the shared Variable is built with that client and reset to None)"""
    with _Patched(local=not ambient) as px:
        mpu = instr_mpu_class()("bucket", "some/key.tif")
        mine = FakeClient()
        kw = dict(KW)
        w = mpu.writer(kw, client=mine) if explicit else mpu.writer(kw)
        log = list(px.cluster.set_log)
        who = "N"
        if log:
            who = "explicit" if log[-1][2] is mine else "ambient" if log[-1][2] is px.cluster.client else "other"
        return {"text": who, "log": [(n, v) for n, v, _ in log], "kw_is_same": w.kw == KW and w.mpu is mpu,
                "nsets": len(log)}


def run_upload_glue(spill: int, extra: Dict[str, Any], with_client: bool) -> Dict[str, Any]:
    """`MultiPartUpload.upload(...)` (model `uploadWriter`) with `_s3.mpu_write` replaced by a recorder: which
    writer - if any - and which arguments the real `upload` hands to `mpu_write`"""
    from odc.geo.cog import _s3

    seen: Dict[str, Any] = {}

    def recorder(chunks, write=None, **kw):
        seen.update(chunks=chunks, write=write, kw=kw)
        return "the-delayed"

    with _Patched(local=True) as px:
        mpu = instr_mpu_class()("bucket", "some/key.tif")
        from odc.geo.cog import _mpu

        saved = [(m, getattr(m, "mpu_write")) for m in (_s3, _mpu) if hasattr(m, "mpu_write")]
        for m, _ in saved:
            m.mpu_write = recorder
        try:
            chunks = object()
            kw = dict(extra)
            if with_client:
                kw["client"] = FakeClient()
            out = mpu.upload(chunks, spill_sz=spill, **kw)
        finally:
            for m, fn in saved:
                m.mpu_write = fn
        if not seen:
            return {"unavailable": "upload() did not reach mpu_write through odc.geo.cog._s3 / _mpu"}
        w = seen.get("write")
        text = "N" if w is None else f"min_write_sz={w.min_write_sz},min_part={w.min_part},max_part={w.max_part}"
        return {"text": text, "out": out, "chunks_same": seen.get("chunks") is chunks, "kw": seen.get("kw"),
                "writer_kw": None if w is None else dict(w.kw), "writer_mpu_same": w is not None and w.mpu is mpu,
                "prepared": len(px.cluster.set_log)}


def run_schedule(kinds, workers, prefix: List[int], complete: bool = True,
                 coarse: Optional[frozenset] = None, gate_fin: bool = False):
    """Run the real code under `prefix` (one entry per scheduler step), then (if
    `complete`) continue with the lowest enabled thread until no thread is enabled.
    Returns (system-after-run, choices), choices[i] = (enabled threads before step i,
    index chosen or -1 for a stutter).  `system.sched.fine` is the schedule at the model's
    step granularity (identical to the steps taken unless `coarse`)."""
    sysm = System(kinds, workers, coarse, gate_fin)
    choices: List[Tuple[List[int], int]] = []
    try:
        i = 0
        while True:
            en = sysm.sched.enabled()
            if i < len(prefix):
                tid = prefix[i]
            elif complete and en:
                tid = en[0]
            else:
                break
            choices.append((en, en.index(tid) if tid in en else -1))
            sysm.sched.step(tid)
            i += 1
        sysm.deadlock = bool(complete and any(not t.finished for t in sysm.sched.threads))
    finally:
        sysm.close()
    return sysm, choices


def all_schedules(kinds, workers, coarse: Optional[frozenset] = None, root: Optional[List[int]] = None,
                  lo: int = 0, hi: Optional[int] = None, limit: Optional[int] = None, gate_fin: bool = False,
                  deadline: Optional[float] = None):
    """Stateless depth-first enumeration of the maximal schedules of the real code (only
    enabled threads are scheduled) that start with `root`; alternatives are explored at
    step positions lo <= k < hi only.  Yields (choices, system)."""
    prefix: List[int] = list(root or [])
    n = 0
    while True:
        sysm, ch = run_schedule(kinds, workers, prefix, True, coarse, gate_fin)
        yield [c[0][c[1]] for c in ch], sysm
        n += 1
        if limit is not None and n >= limit:
            return
        if deadline is not None and time.time() > deadline:
            return
        k = min(len(ch), hi if hi is not None else len(ch)) - 1
        while k >= lo and ch[k][1] + 1 >= len(ch[k][0]):
            k -= 1
        if k < lo:
            return
        prefix = [c[0][c[1]] for c in ch[:k]] + [ch[k][0][ch[k][1] + 1]]


def observe(sysm: System) -> Dict[str, Any]:
    """everything the harness needs from a finished run, as plain data (relative to the attempt)"""
    bc = sysm.base_create
    return {
        "fine": list(sysm.sched.fine),
        "macro": list(sysm.sched.macro),
        "xtext": sysm.describe(external=True),
        "labels": list(sysm.sched.labels),
        "calls": [sysm.canon_call(c) for c in sysm.s3.calls[sysm.base_calls:]],
        "text": sysm.describe(),
        "extra": sysm.model_extra,
        "pre_error": sysm.pre_error,
        "outcomes": [sysm.outcome(i) for i in range(len(sysm.kinds))],
        "results": [repr(t.result) for t in sysm.sched.threads],
        "ncreate": sysm.s3.ncreate - bc,
        "ids": [sysm.canon(u) for u in sysm.s3.ids[bc:]],
        "used_ids": [sysm.canon(u) for u in sysm.s3.used_ids[sysm.base_used:]],
        "uploads": [(p, sysm.canon(u)) for p, u in sysm.s3.uploads[sysm.base_uploads:]],
        "bad_args": [] if getattr(sysm, "objs", None) else bad_call_args(sysm.s3.args[sysm.base_args:], sysm.kinds),
        "objects": None if not getattr(sysm, "objs", None) else {
            "keys": sysm.obj_keys, "copies": list(sysm.wof), "names": sysm.name_numbers(),
            "args": [(n, {k: v for k, v in a.items() if k != "Body"}) for n, a in sysm.s3.args[sysm.base_args:]]},
        "deadlock": bool(getattr(sysm, "deadlock", False)),
        "lock": sysm.lock_holder(),
    }


SUBTREE_LIMIT = 400000  # safety valves: a changed protocol may have vastly more interleavings


def _subtree(args):
    kinds, workers, coarse, root, depth, gate, deadline = args
    out = []
    for _, sm in all_schedules(kinds, workers, coarse, root=root, lo=depth, gate_fin=gate,
                               limit=SUBTREE_LIMIT, deadline=deadline):
        out.append(observe(sm))
    cut = len(out) >= SUBTREE_LIMIT or (deadline is not None and time.time() > deadline)
    return out, cut


def enumerate_all(kinds, workers, coarse: Optional[frozenset] = None, procs: int = 1, depth: int = 5,
                  gate_fin: bool = False, budget_s: Optional[float] = None, pool=None):
    """All maximal schedules, enumerated in `procs` processes (sub-trees below the distinct
    prefixes of length `depth`); result order is deterministic.  Returns (observations,
    truncated) - truncated iff the wall-clock budget (only ever reached when the protocol
    has far more interleavings than the unchanged one) or SUBTREE_LIMIT cut a sub-tree."""
    deadline = None if budget_s is None else time.time() + budget_s
    roots = []
    for ch, _ in all_schedules(kinds, workers, coarse, hi=depth, gate_fin=gate_fin, deadline=deadline):
        roots.append(ch[:depth])
    tasks = [(kinds, workers, coarse, r, depth, gate_fin, deadline) for r in roots]
    if pool is not None:
        parts = pool.map(_subtree, tasks, chunksize=1)
    elif procs <= 1:
        parts = [_subtree(t) for t in tasks]
    else:
        with make_pool(min(procs, len(roots))) as pl:
            parts = pl.map(_subtree, tasks, chunksize=1)
    return [o for part, _ in parts for o in part], any(cut for _, cut in parts)


def make_pool(procs: int):
    import multiprocessing as mp

    return mp.get_context("fork").Pool(procs)


def run_events(kinds, workers, events: List[str]):
    """the real code with context switches at the external operations; `events`: "<t>" = one scheduler step of thread
    t, "c<t>" = thread t dies where it is parked (models Local.crash / Dist.crash)"""
    sysm = System(kinds, workers, EXT, False)
    try:
        for e in events:
            if e.startswith("c"):
                sysm.sched.kill(int(e[1:]))
            else:
                sysm.sched.step(int(e))
        sysm.deadlock = False
    finally:
        sysm.close()
    return sysm


def run_random(kinds, workers, seed: int, stutter_p: float = 0.15, gate_fin: bool = False):
    """one complete random schedule at fine granularity; with probability `stutter_p` a step
    is offered to an arbitrary (possibly blocked or finished) thread"""
    import random

    rng = random.Random(seed)
    sysm = System(kinds, workers, None, gate_fin)
    try:
        n = len(kinds)
        while True:
            en = sysm.sched.enabled()
            if not en:
                break
            if rng.random() < stutter_p:
                tid = rng.randrange(n)
                if tid in sysm.sched.gate and tid not in en:
                    continue  # a gated thread has not been submitted yet
            else:
                tid = rng.choice(en)
            sysm.sched.step(tid)
        sysm.deadlock = any(not t.finished for t in sysm.sched.threads)
    finally:
        sysm.close()
    return sysm


def _random_batch(args):
    kinds, workers, seeds, p, gate = args
    return [observe(run_random(kinds, workers, sd, p, gate)) for sd in seeds]


def random_runs(kinds, workers, seeds: List[int], procs: int = 1, stutter_p: float = 0.15, gate_fin: bool = False,
                pool=None):
    if (procs <= 1 and pool is None) or len(seeds) < 64:
        return _random_batch((kinds, workers, seeds, stutter_p, gate_fin))
    k = max(1, len(seeds) // (procs * 4))
    chunks = [seeds[i:i + k] for i in range(0, len(seeds), k)]
    tasks = [(kinds, workers, c, stutter_p, gate_fin) for c in chunks]
    if pool is not None:
        parts = pool.map(_random_batch, tasks, chunksize=1)
    else:
        with make_pool(procs) as pl:
            parts = pl.map(_random_batch, tasks, chunksize=1)
    return [o for part in parts for o in part]
